/-
  C14 — The event stream explains every run: `retry`* then exactly one terminal event.

  Theorems are about `Mon.C14.ok`, the monitor the driver also evaluates on implementation traces:
  for EVERY configuration, EVERY answer stream and every entry point the monitor accepts the model's run
  (`events_hold`, `events_hold_script`), and its four conjuncts are stated separately
  (`stream_shape`, `terminal_tags`, `sinks_agree`, `breaker_events_shape`, plus `rejected_silent`).

  Guards of the monitor (each is part of the statement, not an extra assumption):
  * `hasLoop cfg e` — "a policy with a retry component";
  * `endsNormally e t r` — "ends normally (value, failure, deferral or abort)": a returned value / outcome;
    for `call()` an AbortRetryError / RetryExhaustedError made by the library, or the operation's own last
    exception (raised by the operation and by no other callback), or the breaker's rejection; never a
    cancellation kind, a nested RetryExhaustedError, or an error raised by a strategy / sleeper / classifier /
    hook; `execute()` delivers every normal end as an outcome, so a raising `execute()` is never normal;
  * `!attemptHookFault t` — an attempt hook or `abort_if` itself raised (DESIGN §6.2);
  * `rejected t` is not a guard: a rejected call is checked to produce NO retry-level event.

  Method (as in C01): a *view* of the world (the monitor's fold state as a function of the log, plus the
  fields of the retry state the events are built from), exact specs for the leaf procedures in terms of one
  spec for `ask`, pure transition lemmas for the stream automaton
  (`Running n` —retry→ `Running (n+1)`, `Running n` —terminal→ `Done`), predicate specs for the structural
  procedures, induction on the loop fuel, then the policy wrapper.  `Exception` exits carry their own
  invariant (`MidX`, `CallX`): only `Exception`s are ever caught by the library, so every exceptional
  postcondition is conditional on `e.isException`.
-/
import Redress.Lemmas.Hoare
import Redress.Monitors

open Std.Do

namespace Redress.Props.C14
open Redress Redress.Retry Redress.Mon Redress.Mon.C14

/-- the monitor state as a function of the world's (newest-first) log -/
def cur (cfg : Cfg) (tr : List (Req × Ans)) : St := tr.foldr (fun x s => step cfg s x) {}

@[simp] theorem cur_cons (cfg : Cfg) (x : Req × Ans) (t : List (Req × Ans)) :
    cur cfg (x :: t) = step cfg (cur cfg t) x := rfl

theorem run_reverse (cfg : Cfg) (t : List (Req × Ans)) : run cfg t.reverse = cur cfg t := by
  simp [run, cur, List.foldl_reverse]

/-- the exception an answer raises -/
def raisedExn : Ans → Option Exn
  | .raise e _ => some e
  | _ => none

/-- exceptions raised by requests satisfying `p` (newest first) -/
def raisedOf (p : Req → Bool) (tr : List (Req × Ans)) : List Exn :=
  tr.filterMap fun x => if p x.1 then raisedExn x.2 else none

theorem raisedBy_cons (p : Req → Bool) (r : Req) (a : Ans) (t : List (Req × Ans)) (e : Exn) :
    Mon.raisedBy p ((r, a) :: t) e = ((p r && (raisedExn a == some e)) || Mon.raisedBy p t e) := by
  simp only [Mon.raisedBy, List.any_cons]
  congr 2
  cases a <;> simp [raisedExn]

theorem raisedBy_iff (p : Req → Bool) (t : List (Req × Ans)) (e : Exn) :
    Mon.raisedBy p t e = true ↔ e ∈ raisedOf p t := by
  induction t with
  | nil => simp [Mon.raisedBy, raisedOf]
  | cons x t ih =>
    obtain ⟨r, a⟩ := x
    rw [raisedBy_cons, Bool.or_eq_true, ih]
    simp only [raisedOf, List.filterMap_cons]
    cases hp : p r <;> cases h : raisedExn a <;>
      simp only [Bool.false_and, Bool.true_and, Bool.false_eq_true, false_or, if_true, if_false,
        beq_iff_eq, reduceCtorEq, Option.some.injEq, List.mem_cons]
    exact ⟨fun h => h.elim (fun h => Or.inl h.symm) Or.inr, fun h => h.elim (fun h => Or.inl h.symm) Or.inr⟩

theorem raisedBy_reverse (p : Req → Bool) (t : List (Req × Ans)) (e : Exn) :
    Mon.raisedBy p t.reverse e = Mon.raisedBy p t e := by
  simp [Mon.raisedBy]

/-- what the C14 argument looks at -/
structure View where
  mon : St
  nz : List Exn                 -- raised by a request other than `op` or an observability hook
  oz : List Exn                 -- raised by the operation
  esc : Bool                    -- an attempt hook or the abort predicate raised
  rej : Bool                    -- the breaker rejected the call
  tl : List EvRec               -- the captured timeline, newest first
  stop : Option StopReason
  lastClass : Option EClass
  lastCause : Option Cause
  lastExc : Option Exn

/-- requests whose exceptions are never swallowed by the library: everything but the operation
    (whose exceptions are *handled*) and the observability hooks (whose `Exception`s are swallowed) -/
def loud : Req → Bool
  | .op _ | .metric .. | .log .. | .beforeSleep .. => false
  | _ => true

theorem isNonOp_of_loud (r : Req) (h : loud r = true) : isNonOp r = true := by
  cases r <;> simp_all [loud, isNonOp, Mon.isOp]

def isReject : Req → Ans → Bool
  | .breakerAllow, .admit false _ _ => true
  | _, _ => false

def isRaise : Ans → Bool
  | .raise .. => true
  | _ => false

def view (cfg : Cfg) (w : World) : View :=
  ⟨cur cfg w.trace, raisedOf loud w.trace, raisedOf Mon.isOp w.trace, Mon.attemptHookFault w.trace,
   Mon.rejected w.trace, w.timeline.map tlRec, w.rs.lastStop, w.rs.lastClass, w.rs.lastCause,
   w.rs.lastExc⟩

/-- the view after one more logged exchange -/
def obs (cfg : Cfg) (v : View) (r : Req) (a : Ans) : View :=
  { v with mon := step cfg v.mon (r, a),
           nz := (if loud r then (raisedExn a).toList else []) ++ v.nz,
           oz := (if Mon.isOp r then (raisedExn a).toList else []) ++ v.oz,
           esc := (Mon.isAttemptHook r && isRaise a) || v.esc,
           rej := isReject r a || v.rej }

theorem attemptHookFault_cons (r : Req) (a : Ans) (t : List (Req × Ans)) :
    Mon.attemptHookFault ((r, a) :: t) = ((Mon.isAttemptHook r && isRaise a) || Mon.attemptHookFault t) := by
  simp only [Mon.attemptHookFault, List.any_cons]
  cases a <;> simp [isRaise]

theorem rejected_cons (r : Req) (a : Ans) (t : List (Req × Ans)) :
    Mon.rejected ((r, a) :: t) = (isReject r a || Mon.rejected t) := by
  simp only [Mon.rejected, List.any_cons]
  rfl

theorem raisedOf_cons (p : Req → Bool) (r : Req) (a : Ans) (t : List (Req × Ans)) :
    raisedOf p ((r, a) :: t) = (if p r then (raisedExn a).toList else []) ++ raisedOf p t := by
  simp only [raisedOf, List.filterMap_cons]
  cases p r <;> cases h : raisedExn a <;> simp

/-- logging an exchange moves the view by `obs` -/
theorem view_log (cfg : Cfg) (w : World) (r : Req) (a : Ans) (ans : List Ans) (now : Nat) :
    view cfg { w with answers := ans, now := now, trace := (r, a) :: w.trace } = obs cfg (view cfg w) r a := by
  simp [view, obs, attemptHookFault_cons, rejected_cons, raisedOf_cons]

theorem step_raise_dur (cfg : Cfg) (s : St) (r : Req) (e : Exn) (d : Nat) :
    step cfg s (r, .raise e d) = step cfg s (r, .raise e 0) := by
  cases r <;> rfl

theorem obs_raise_dur (cfg : Cfg) (v : View) (r : Req) (e : Exn) (d : Nat) :
    obs cfg v r (.raise e d) = obs cfg v r (.raise e 0) := by
  simp [obs, step_raise_dur cfg _ r e d, raisedExn, isRaise, isReject]

/-- `ask`: one more exchange; the exception exit is the exchange answered by that raise -/
theorem ask_spec (cfg : Cfg) (v : View) (r : Req) :
    ⦃fun w => ⌜view cfg w = v⌝⦄ ask r
    ⦃post⟨fun a w => ⌜view cfg w = obs cfg v r a ∧ raisedExn a = none⌝,
          fun e w => ⌜view cfg w = obs cfg v r (.raise e 0)⌝⟩⦄ := by
  mvcgen [ask]
  all_goals (subst_vars; simp_all only [view_log, obs_raise_dur cfg _ r _ _, raisedExn, and_self])
  all_goals (try (rename_i h; simp [raisedExn] at h))


theorem askHook_spec (cfg : Cfg) (v : View) (r : Req) :
    ⦃fun w => ⌜view cfg w = v⌝⦄ askHook r
    ⦃post⟨fun a w => ⌜view cfg w = obs cfg v r a ∧ raisedExn a = none⌝,
          fun e w => ⌜view cfg w = obs cfg v r (.raise e 0)⌝⟩⦄ :=
  askHook_triple r (ask_spec cfg v r) (fun w h => presil_cases (fun w => view cfg w = v) w (fun _ => h))

@[simp] theorem isRaise_eq (a : Ans) : isRaise a = (raisedExn a).isSome := by
  cases a <;> rfl

@[simp] theorem isException_of_isAbort (e : Exn) (h : e.isAbort = true) : e.isException = true := by
  cases e <;> simp_all [Exn.isAbort, Exn.isException]

@[simp] theorem stuck_isException : Exn.stuck.isException = false := rfl
@[simp] theorem libAbort_isException : Exn.libAbort.isException = true := rfl
@[simp] theorem libValueError_isException : Exn.libValueError.isException = true := rfl

/-- a loud request raised `e` (`hook`: it was an attempt hook or the abort predicate) -/
def View.raised (v : View) (e : Exn) (hook : Bool) : View :=
  { v with nz := e :: v.nz, esc := hook || v.esc }

/-- "the view is `v`; an `Exception` exit means a loud request raised it" -/
abbrev leafPost (cfg : Cfg) (v : View) (hook : Bool) : PostCond α (.except Exn (.arg World .pure)) :=
  post⟨fun _ w => ⌜view cfg w = v⌝, fun e w => ⌜e.isException = true → view cfg w = v.raised e hook⌝⟩

section leaves
variable (cfg : Cfg) (v : View)

/-- a classifier announced class `k` -/
def View.classified (v : View) (k : EClass) (c : Cause) : View :=
  { v with mon := { v.mon with klass := some k, cause := some c } }

/-- the operation returned / raised `e` -/
def View.opDone (v : View) (e : Option Exn) : View :=
  { v with mon := { v.mon with opExn := e }, oz := e.toList ++ v.oz }

/-- one retry-level event reached every configured sink -/
def push (cfg : Cfg) (tl : Bool) (x : EvRec) (v : View) : View :=
  { v with mon := { v.mon with
              ms := if cfg.metric then x :: v.mon.ms else v.mon.ms,
              ls := if cfg.log then x :: v.mon.ls else v.mon.ls,
              tagsBad := v.mon.tagsBad || ((cfg.metric || cfg.log) && !describes cfg v.mon x) },
           tl := if tl then proj x :: v.tl else v.tl }

/-- what `_build_outcome` copies from the retry state -/
structure OutcomeOf (v : View) (isOk : Bool) (o : Outcome) : Prop where
  ok : o.ok = isOk
  stop : o.stop = if isOk then none else v.stop
  lastClass : o.lastClass = if isOk then none else v.lastClass
  cause : o.cause = if isOk then none else v.lastCause
  lastExc : o.lastExc = if !isOk && v.lastCause = some .exception then v.lastExc.map Exn.ref else none

macro "leaf_close" : tactic => `(tactic| all_goals (
  (try subst_vars) <;> (try intros) <;>
  first
    | (simp_all +zetaDelta [obs, step, loud, isReject, Mon.isOp, Mon.isAttemptHook, raisedExn, View.raised,
        View.classified, View.opDone, view]; done)
    | skip))

theorem callStrategy_spec (key : SKey) (kind : SKind) (ctx : BackoffCtx) :
    ⦃fun w => ⌜view cfg w = v⌝⦄ callStrategy key kind ctx ⦃leafPost cfg v false⦄ := by
  mvcgen [callStrategy, ask_spec]
  leaf_close

theorem stratRecordFailure_spec (key : SKey) (k : EClass) :
    ⦃fun w => ⌜view cfg w = v⌝⦄ stratRecordFailure cfg key k ⦃leafPost cfg v false⦄ := by
  mvcgen [stratRecordFailure, ask_spec]
  leaf_close

theorem recordStrategySuccess_spec :
    ⦃fun w => ⌜view cfg w = v⌝⦄ recordStrategySuccess cfg ⦃leafPost cfg v false⦄ := by
  mvcgen [recordStrategySuccess, getRS, ask_spec]
  leaf_close

theorem callSleeper_spec (sl : Nat) :
    ⦃fun w => ⌜view cfg w = v⌝⦄ callSleeper cfg sl ⦃leafPost cfg v false⦄ := by
  mvcgen [callSleeper, ask_spec]
  leaf_close

theorem callSleepHandler_spec (lvl : Lvl) (ctx : BackoffCtx) (sl : Nat) :
    ⦃fun w => ⌜view cfg w = v⌝⦄ callSleepHandler lvl ctx sl ⦃leafPost cfg v false⦄ := by
  mvcgen [callSleepHandler, ask_spec]
  leaf_close

theorem callAttemptStart_spec (a : Nat) :
    ⦃fun w => ⌜view cfg w = v⌝⦄ callAttemptStart cfg a ⦃leafPost cfg v true⦄ := by
  mvcgen [callAttemptStart, elapsed, ask_spec]
  leaf_close

theorem callAttemptEnd_spec (a : Nat) (cls : Option Classification) (exc : Option Exn)
    (result : Option Nat) (d : AttemptDecision) (stop : Option StopReason) (cause : Option Cause)
    (sl : Option Nat) :
    ⦃fun w => ⌜view cfg w = v⌝⦄ callAttemptEnd cfg a cls exc result d stop cause sl
    ⦃leafPost cfg v true⦄ := by
  mvcgen [callAttemptEnd, elapsed, ask_spec]
  leaf_close

theorem callAttemptEndFromOutcome_spec (a : Nat) (o : AOutcome) :
    ⦃fun w => ⌜view cfg w = v⌝⦄ callAttemptEndFromOutcome cfg a o ⦃leafPost cfg v true⦄ := by
  have h := callAttemptEnd_spec cfg v a o.classification o.exc o.result o.decision o.stop o.cause o.sleep
  mvcgen [callAttemptEndFromOutcome, h]

/-- `before_sleep` is an observability hook: its `Exception`s are swallowed -/
theorem callBeforeSleep_spec (ctx : BackoffCtx) (sl : Nat) :
    ⦃fun w => ⌜view cfg w = v⌝⦄ callBeforeSleep cfg ctx sl
    ⦃post⟨fun _ w => ⌜view cfg w = v⌝, fun e _ => ⌜e.isException = false⌝⟩⦄ := by
  mvcgen [callBeforeSleep, swallowException, askHook_spec]
  leaf_close

theorem budgetConsume_spec :
    ⦃fun w => ⌜view cfg w = v⌝⦄ budgetConsume cfg ⦃leafPost cfg v false⦄ := by
  mvcgen [budgetConsume]
  leaf_close

theorem setStop_spec (s : StopReason) :
    ⦃fun w => ⌜view cfg w = v⌝⦄ setStop s
    ⦃post⟨fun _ w => ⌜view cfg w = { v with stop := some s }⌝, fun _ _ => ⌜False⌝⟩⦄ := by
  mvcgen [setStop, modifyRS]
  leaf_close

theorem callClassifier_spec (x : Exn) :
    ⦃fun w => ⌜view cfg w = v⌝⦄ callClassifier x
    ⦃post⟨fun c w => ⌜view cfg w = v.classified c.klass .exception⌝,
          fun e w => ⌜e.isException = true → view cfg w = v.raised e false⌝⟩⦄ := by
  mvcgen [callClassifier, ask_spec]
  leaf_close

theorem shouldClassifyResult_spec (x : Nat) :
    ⦃fun w => ⌜view cfg w = v⌝⦄ shouldClassifyResult cfg x
    ⦃post⟨fun r w => ⌜match r with
                      | none => view cfg w = v
                      | some c => view cfg w = v.classified c.klass .result⌝,
          fun e w => ⌜e.isException = true → view cfg w = v.raised e false⌝⟩⦄ := by
  mvcgen [shouldClassifyResult, ask_spec]
  leaf_close

theorem invokeOp_spec (a : Nat) :
    ⦃fun w => ⌜view cfg w = v⌝⦄ invokeOp a
    ⦃post⟨fun _ w => ⌜view cfg w = v.opDone none⌝,
          fun e w => ⌜e.isException = true → view cfg w = v.opDone (some e)⌝⟩⦄ := by
  mvcgen [invokeOp, ask_spec]
  leaf_close

theorem buildOutcome_spec (ok : Bool) (value : Option Nat) (n : Nat) (ns : Option Nat) :
    ⦃fun w => ⌜view cfg w = v⌝⦄ buildOutcome ok value n ns
    ⦃post⟨fun o w => ⌜view cfg w = v ∧ OutcomeOf v ok o⌝, fun _ _ => ⌜False⌝⟩⦄ := by
  mvcgen [buildOutcome, getRS, elapsed]
  all_goals (subst_vars; refine ⟨rfl, ⟨rfl, ?_, ?_, ?_, ?_⟩⟩ <;> simp [view])
  all_goals (cases ok <;> simp)
  all_goals (split <;> split <;> simp_all)

theorem handleAbortAttemptEnd_spec (a : Nat) (x : Exn) :
    ⦃fun w => ⌜view cfg w = v⌝⦄ handleAbortAttemptEnd cfg a x ⦃leafPost cfg v true⦄ := by
  have h := callAttemptEnd_spec cfg
  mvcgen [handleAbortAttemptEnd, getAS, modifyAS, h]
  leaf_close

theorem recordTimeline_spec (ev : Event) (a sl : Nat) (tags : Tags) :
    ⦃fun w => ⌜view cfg w = v⌝⦄ recordTimeline ev a sl tags
    ⦃post⟨fun _ w => ⌜view cfg w = { v with tl := proj (ev, a, sl, tags) :: v.tl }⌝, fun _ _ => ⌜False⌝⟩⦄ := by
  mvcgen [recordTimeline]
  all_goals (subst_vars; simp +zetaDelta [view, proj, tlRec, projTags])

theorem askMetric_spec (ev : Event) (a sl : Nat) (tags : Tags) :
    ⦃fun w => ⌜view cfg w = v⌝⦄ askMetric ev a sl tags
    ⦃post⟨fun _ w => ⌜view cfg w = { v with mon := onMetric cfg v.mon ev a sl tags }⌝,
          fun _ w => ⌜view cfg w = { v with mon := onMetric cfg v.mon ev a sl tags }⌝⟩⦄ := by
  mvcgen [askMetric, askHook_spec]
  leaf_close

theorem askLog_spec (ev : Event) (a sl : Nat) (tags : Tags) (ra : Option Int) :
    ⦃fun w => ⌜view cfg w = v⌝⦄ askLog ev a sl tags ra
    ⦃post⟨fun _ w => ⌜view cfg w = { v with mon := onLog cfg v.mon ev a sl tags }⌝,
          fun _ w => ⌜view cfg w = { v with mon := onLog cfg v.mon ev a sl tags }⌝⟩⦄ := by
  mvcgen [askLog, askHook_spec]
  leaf_close

/-- the tag dictionary `emit` builds -/
def tagsOf (cfg : Cfg) (klass : Option EClass) (exc : Option Exn) (stop : Option StopReason)
    (cause : Option Cause) : Tags :=
  { klass, err := exc.map Exn.typeName, stop, cause, operation := cfg.opTag }

theorem metricHook_spec (tl : Bool) (ev : Event) (a sl : Nat) (tags : Tags) :
    ⦃fun w => ⌜view cfg w = v⌝⦄ metricHook cfg tl ev a sl tags
    ⦃post⟨fun _ w => ⌜view cfg w = { v with
              mon := if cfg.metric then onMetric cfg v.mon ev a sl tags else v.mon,
              tl := if tl then proj (ev, a, sl, tags) :: v.tl else v.tl }⌝,
          fun _ w => ⌜view cfg w = { v with
              mon := if cfg.metric then onMetric cfg v.mon ev a sl tags else v.mon,
              tl := if tl then proj (ev, a, sl, tags) :: v.tl else v.tl }⌝⟩⦄ := by
  have h1 := askMetric_spec cfg
  have h2 := recordTimeline_spec cfg
  mvcgen [metricHook, h1, h2]
  leaf_close

theorem push_eq (tl : Bool) (ev : Event) (a sl : Nat) (tags : Tags) (hb : isBreakerEvent ev = false) :
    push cfg tl (ev, a, sl, tags) v =
      { v with mon := (if cfg.log then
                  onLog cfg (if cfg.metric then onMetric cfg v.mon ev a sl tags else v.mon) ev a sl tags
                else (if cfg.metric then onMetric cfg v.mon ev a sl tags else v.mon)),
               tl := if tl then proj (ev, a, sl, tags) :: v.tl else v.tl } := by
  cases hm : cfg.metric <;> cases hl : cfg.log <;>
    simp [push, onMetric, onLog, hb, describes, expErr, hm, hl]

/-- `emit`: the event reaches the timeline, the metric hook and the log hook (those configured),
    whatever the hooks answer; only a non-`Exception` raised by a hook escapes -/
theorem emit_spec (tl : Bool) (ev : Event) (a sl : Nat) (klass : Option EClass) (exc : Option Exn)
    (stop : Option StopReason) (cause : Option Cause) (cls : Option Classification)
    (hb : isBreakerEvent ev = false) :
    ⦃fun w => ⌜view cfg w = v⌝⦄ emit cfg tl ev a sl klass exc stop cause cls
    ⦃post⟨fun _ w => ⌜view cfg w = push cfg tl (ev, a, sl, tagsOf cfg klass exc stop cause) v⌝,
          fun e _ => ⌜e.isException = false⌝⟩⦄ := by
  have h1 := fun v tags => metricHook_spec cfg v tl ev a sl tags
  have h2 := askLog_spec cfg
  mvcgen [emit, swallowException, h1, h2]
  all_goals (clear h1 h2; (try subst_vars) <;> (try intros))
  all_goals (first
    | (simp_all +zetaDelta [push_eq cfg _ tl ev a sl _ hb, tagsOf]; done)
    | skip)

end leaves


/-! ### the invariant (pure part) -/

/-- `G` (newest first) is `retry(n) … retry(1)` -/
def Retries : Nat → List EvRec → Prop
  | 0, G => G = []
  | n + 1, G => ∃ x R, G = x :: R ∧ x.1 = .retry ∧ x.2.1 = n + 1 ∧ Retries n R

/-- the configured sinks hold the ghost stream `G` -/
structure Agree (cfg : Cfg) (tl : Bool) (G : List EvRec) (v : View) : Prop where
  ms : v.mon.ms = if cfg.metric then G else []
  ls : v.mon.ls = if cfg.log then G else []
  tl : tl = true → v.tl = G.map proj

/-- the breaker part of the monitor state -/
def brkOf (s : St) : Option BrkExp × Option BrkExp × Bool := (s.bm, s.bl, s.brkBad)

abbrev Brk := Option BrkExp × Option BrkExp × Bool

/-- what holds throughout the retry loop -/
structure Base (β : Brk) (v : View) : Prop where
  tags : v.mon.tagsBad = false
  brk : brkOf v.mon = β
  rej : v.rej = false
  exc : ∀ e, v.lastExc = some e → v.lastCause = some .exception ∧ e.isAbort = false ∧ e.isExhausted = false

/-- the retry state's record of the last failure is what the monitor heard from the callbacks -/
structure Sync (v : View) : Prop where
  klass : v.mon.klass = v.lastClass
  cause : v.mon.cause = v.lastCause
  err : expErr v.mon = v.lastExc.map Exn.typeName

/-- no terminal event yet; `n` retry events so far.  (All state predicates hold vacuously once an
    attempt hook has raised: the monitor is then skipped.) -/
def Running (cfg : Cfg) (tl : Bool) (β : Brk) (n : Nat) (v : View) : Prop :=
  v.esc = true ∨ (Base β v ∧ v.stop = none ∧ ∃ G, Retries n G ∧ Agree cfg tl G v)

def RunAny (cfg : Cfg) (tl : Bool) (β : Brk) (v : View) : Prop := ∃ n, Running cfg tl β n v

/-- how a terminal event relates to the retry state -/
inductive TKind | success | failure | aborted
deriving DecidableEq

def TermRel (k : TKind) (t : EvRec) (v : View) : Prop :=
  t.2.2.2.stop = v.stop ∧
  match k with
  | .success => t.1 = .success ∧ v.stop = none
  | .aborted => t.1 ≠ .success ∧ v.stop = some .aborted
  | .failure => t.1 ≠ .success ∧ v.stop.isSome = true ∧ t.2.2.2.klass = v.lastClass
                ∧ t.2.2.2.cause = v.lastCause ∧ t.2.2.2.err = v.lastExc.map Exn.typeName

/-- exactly one terminal event has been emitted, after `retry(1) … retry(n)` -/
def Done (cfg : Cfg) (tl : Bool) (β : Brk) (k : TKind) (v : View) : Prop :=
  v.esc = true ∨ (Base β v ∧ ∃ t n G, t.1 ≠ .retry ∧ Retries n G ∧ Agree cfg tl (t :: G) v ∧ TermRel k t v)

/-- the run is over and the stream explains the result `r` -/
def Final (cfg : Cfg) (tl : Bool) (β : Brk) (r : Res) (v : View) : Prop :=
  v.esc = true ∨ (v.mon.tagsBad = false ∧ brkOf v.mon = β ∧ v.rej = false ∧
    ∃ t n G, t.1 ≠ .retry ∧ Retries n G ∧ Agree cfg tl (t :: G) v ∧ terminalOk true t r = true)

/-- exceptions that are never a normal end of `call()` -/
def badKind : Exn → Bool
  | .libAbort | .libExhausted _ | .libCircuitOpen _ | .ordinary .. | .abort _ | .circuitOpen _ => false
  | _ => true

/-- the run ends with `e` and the monitor's guard is false -/
def Excused (e : Exn) (v : View) : Prop :=
  v.esc = true ∨ e ∈ v.nz ∨ badKind e = true ∨ (e.isExhausted = true ∧ e ∈ v.oz)

/-- an `Exception` leaves a shared procedure of the loop -/
def MidX (cfg : Cfg) (tl : Bool) (β : Brk) (e : Exn) (v : View) : Prop :=
  v.esc = true ∨ (RunAny cfg tl β v ∧ (e ∈ v.nz ∨ badKind e = true)) ∨ (e = .libAbort ∧ Done cfg tl β .aborted v)

/-- how `check_abort` raises an `Exception`: the predicate itself raised, or the run was aborted -/
def AbX (cfg : Cfg) (tl : Bool) (β : Brk) (e : Exn) (v : View) : Prop :=
  v.esc = true ∨ (e = .libAbort ∧ Done cfg tl β .aborted v)

theorem MidX.of_ab {cfg : Cfg} {tl : Bool} {β : Brk} {e : Exn} {v : View} (h : AbX cfg tl β e v) : MidX cfg tl β e v :=
  h.elim Or.inl (fun h => Or.inr (Or.inr h))

section pure
variable {cfg : Cfg} {tl : Bool} {β : Brk}

@[simp] theorem push_esc (x : EvRec) (v : View) : (push cfg tl x v).esc = v.esc := rfl
@[simp] theorem push_stop (x : EvRec) (v : View) : (push cfg tl x v).stop = v.stop := rfl
@[simp] theorem push_lastClass (x : EvRec) (v : View) : (push cfg tl x v).lastClass = v.lastClass := rfl
@[simp] theorem push_lastCause (x : EvRec) (v : View) : (push cfg tl x v).lastCause = v.lastCause := rfl
@[simp] theorem push_lastExc (x : EvRec) (v : View) : (push cfg tl x v).lastExc = v.lastExc := rfl
@[simp] theorem push_nz (x : EvRec) (v : View) : (push cfg tl x v).nz = v.nz := rfl
@[simp] theorem push_oz (x : EvRec) (v : View) : (push cfg tl x v).oz = v.oz := rfl

theorem Base.push {v : View} (b : Base β v) (x : EvRec) (hd : describes cfg v.mon x = true) :
    Base β (push cfg tl x v) :=
  ⟨by simp [C14.push, b.tags, hd], by simpa [C14.push, brkOf] using b.brk, b.rej, b.exc⟩

theorem Agree.push {G : List EvRec} {v : View} (a : Agree cfg tl G v) (x : EvRec) :
    Agree cfg tl (x :: G) (push cfg tl x v) := by
  refine ⟨?_, ?_, ?_⟩
  · simp only [C14.push, a.ms]; split <;> rfl
  · simp only [C14.push, a.ls]; split <;> rfl
  · intro h; simp [C14.push, h, a.tl h]

theorem Running.retry {n : Nat} {v : View} (h : Running cfg tl β n v) (t : EvRec) (hr : t.1 = .retry)
    (ha : t.2.1 = n + 1) (hd : describes cfg v.mon t = true) :
    Running cfg tl β (n + 1) (push cfg tl t v) := by
  rcases h with h | ⟨b, hs, G, hG, ag⟩
  · exact Or.inl h
  · exact Or.inr ⟨b.push t hd, hs, t :: G, ⟨t, G, rfl, hr, ha, hG⟩, ag.push t⟩

theorem Running.terminal {n : Nat} {v : View} (h : Running cfg tl β n v) (t : EvRec)
    (s' : Option StopReason) (k : TKind) (hr : t.1 ≠ .retry) (hd : describes cfg v.mon t = true)
    (ht : TermRel k t { v with stop := s' }) :
    Done cfg tl β k (push cfg tl t { v with stop := s' }) := by
  rcases h with h | ⟨b, _, G, hG, ag⟩
  · exact Or.inl h
  · have b' : Base β { v with stop := s' } := ⟨b.tags, b.brk, b.rej, b.exc⟩
    have ag' : Agree cfg tl G { v with stop := s' } := ⟨ag.ms, ag.ls, ag.tl⟩
    exact Or.inr ⟨b'.push t hd, t, n, G, hr, hG, ag'.push t, ht⟩

end pure
section stab
variable {cfg : Cfg} {tl : Bool} {β : Brk}

/-- `v'` differs from `v` only in what the state predicates do not look at -/
structure Same (v v' : View) : Prop where
  ms : v'.mon.ms = v.mon.ms
  ls : v'.mon.ls = v.mon.ls
  tags : v'.mon.tagsBad = v.mon.tagsBad
  brk : brkOf v'.mon = brkOf v.mon
  tl : v'.tl = v.tl
  stop : v'.stop = v.stop
  lastClass : v'.lastClass = v.lastClass
  lastCause : v'.lastCause = v.lastCause
  lastExc : v'.lastExc = v.lastExc
  esc : v'.esc = v.esc
  rej : v'.rej = v.rej

theorem Same.symm {v v' : View} (h : Same v v') : Same v' v :=
  ⟨h.ms.symm, h.ls.symm, h.tags.symm, h.brk.symm, h.tl.symm, h.stop.symm, h.lastClass.symm,
   h.lastCause.symm, h.lastExc.symm, h.esc.symm, h.rej.symm⟩

theorem Base.same {v v' : View} (h : Same v v') (b : Base β v) : Base β v' :=
  ⟨h.tags ▸ b.tags, h.brk ▸ b.brk, h.rej ▸ b.rej, by rw [h.lastExc, h.lastCause]; exact b.exc⟩

theorem Agree.same {G : List EvRec} {v v' : View} (h : Same v v') (a : Agree cfg tl G v) : Agree cfg tl G v' :=
  ⟨h.ms ▸ a.ms, h.ls ▸ a.ls, by rw [h.tl]; exact a.tl⟩

theorem TermRel.same {k : TKind} {t : EvRec} {v v' : View} (h : Same v v') (a : TermRel k t v) : TermRel k t v' := by
  unfold TermRel at *
  rw [h.stop, h.lastClass, h.lastCause, h.lastExc]
  exact a

theorem Running.same {n : Nat} {v v' : View} (h : Same v v') (r : Running cfg tl β n v) : Running cfg tl β n v' := by
  rcases r with r | ⟨b, hs, G, hG, ag⟩
  · exact Or.inl (h.esc ▸ r)
  · exact Or.inr ⟨b.same h, h.stop ▸ hs, G, hG, ag.same h⟩

theorem Done.same {k : TKind} {v v' : View} (h : Same v v') (r : Done cfg tl β k v) : Done cfg tl β k v' := by
  rcases r with r | ⟨b, t, n, G, hr, hG, ag, ht⟩
  · exact Or.inl (h.esc ▸ r)
  · exact Or.inr ⟨b.same h, t, n, G, hr, hG, ag.same h, ht.same h⟩

theorem Final.same {r : Res} {v v' : View} (h : Same v v') (f : Final cfg tl β r v) : Final cfg tl β r v' := by
  rcases f with f | ⟨h1, h2, h3, t, n, G, hr, hG, ag, ht⟩
  · exact Or.inl (h.esc ▸ f)
  · exact Or.inr ⟨h.tags ▸ h1, h.brk ▸ h2, h.rej ▸ h3, t, n, G, hr, hG, ag.same h, ht⟩

theorem same_raised (v : View) (e : Exn) : Same v (v.raised e false) := by
  constructor <;> simp [View.raised]
theorem same_classified (v : View) (k : EClass) (c : Cause) : Same v (v.classified k c) := by
  constructor <;> simp [View.classified, brkOf]
theorem same_opDone (v : View) (e : Option Exn) : Same v (v.opDone e) := by
  constructor <;> simp [View.opDone, brkOf]

@[simp] theorem Running_raised {n : Nat} {v : View} {e : Exn} :
    Running cfg tl β n (v.raised e false) ↔ Running cfg tl β n v :=
  ⟨Running.same (same_raised v e).symm, Running.same (same_raised v e)⟩
@[simp] theorem Running_classified {n : Nat} {v : View} {k : EClass} {c : Cause} :
    Running cfg tl β n (v.classified k c) ↔ Running cfg tl β n v :=
  ⟨Running.same (same_classified v k c).symm, Running.same (same_classified v k c)⟩
@[simp] theorem Running_opDone {n : Nat} {v : View} {e : Option Exn} :
    Running cfg tl β n (v.opDone e) ↔ Running cfg tl β n v :=
  ⟨Running.same (same_opDone v e).symm, Running.same (same_opDone v e)⟩
@[simp] theorem Done_raised {k : TKind} {v : View} {e : Exn} :
    Done cfg tl β k (v.raised e false) ↔ Done cfg tl β k v :=
  ⟨Done.same (same_raised v e).symm, Done.same (same_raised v e)⟩
@[simp] theorem Done_classified {k : TKind} {v : View} {k' : EClass} {c : Cause} :
    Done cfg tl β k (v.classified k' c) ↔ Done cfg tl β k v :=
  ⟨Done.same (same_classified v k' c).symm, Done.same (same_classified v k' c)⟩
@[simp] theorem Final_raised {r : Res} {v : View} {e : Exn} :
    Final cfg tl β r (v.raised e false) ↔ Final cfg tl β r v :=
  ⟨Final.same (same_raised v e).symm, Final.same (same_raised v e)⟩
@[simp] theorem Final_classified {r : Res} {v : View} {k' : EClass} {c : Cause} :
    Final cfg tl β r (v.classified k' c) ↔ Final cfg tl β r v :=
  ⟨Final.same (same_classified v k' c).symm, Final.same (same_classified v k' c)⟩

/-- once an attempt hook has raised, everything holds -/
@[simp] theorem raised_hook_esc (v : View) (e : Exn) : (v.raised e true).esc = true := rfl
@[simp] theorem raised_esc (v : View) (e : Exn) : (v.raised e false).esc = v.esc := by simp [View.raised]

theorem Running.of_esc {n : Nat} {v : View} (h : v.esc = true) : Running cfg tl β n v := Or.inl h
theorem Done.of_esc {k : TKind} {v : View} (h : v.esc = true) : Done cfg tl β k v := Or.inl h
theorem Final.of_esc {r : Res} {v : View} (h : v.esc = true) : Final cfg tl β r v := Or.inl h
theorem MidX.of_esc {e : Exn} {v : View} (h : v.esc = true) : MidX cfg tl β e v := Or.inl h
theorem Excused.of_esc {e : Exn} {v : View} (h : v.esc = true) : Excused e v := Or.inl h

@[simp] theorem Running_hook {n : Nat} {v : View} {e : Exn} : Running cfg tl β n (v.raised e true) := Or.inl rfl
@[simp] theorem Done_hook {k : TKind} {v : View} {e : Exn} : Done cfg tl β k (v.raised e true) := Or.inl rfl
@[simp] theorem Final_hook {r : Res} {v : View} {e : Exn} : Final cfg tl β r (v.raised e true) := Or.inl rfl
@[simp] theorem MidX_hook {x : Exn} {v : View} {e : Exn} : MidX cfg tl β x (v.raised e true) := Or.inl rfl
@[simp] theorem AbX_hook {x : Exn} {v : View} {e : Exn} : AbX cfg tl β x (v.raised e true) := Or.inl rfl
@[simp] theorem Excused_hook {x : Exn} {v : View} {e : Exn} : Excused x (v.raised e true) := Or.inl rfl

/-- a loud callback raised `e` while the loop was running -/
theorem MidX.raised {n : Nat} {v : View} {e : Exn} (h : Running cfg tl β n v) :
    MidX cfg tl β e (v.raised e false) :=
  Or.inr (Or.inl ⟨⟨n, Running_raised.mpr h⟩, Or.inl (by simp [View.raised])⟩)

end stab
section trans
variable {cfg : Cfg} {tl : Bool} {β : Brk}

/-- the `aborted` event -/
def abortedEv (cfg : Cfg) (a : Nat) : EvRec := (.aborted, a, 0, tagsOf cfg none none (some .aborted) none)

theorem Running.aborted {n : Nat} {v : View} (h : Running cfg tl β n v) (a : Nat) :
    Done cfg tl β .aborted (push cfg tl (abortedEv cfg a) { v with stop := some .aborted }) :=
  h.terminal _ _ _ (by simp [abortedEv]) (by simp [abortedEv, describes, tagsOf])
    (by simp [abortedEv, TermRel, tagsOf])

theorem Done.aborted_stop {v : View} (h : Done cfg tl β .aborted v) : v.esc = true ∨ v.stop = some .aborted := by
  rcases h with h | ⟨_, t, n, G, _, _, _, ht⟩
  · exact Or.inl h
  · exact Or.inr ht.2.2

theorem Running.stop_none {n : Nat} {v : View} (h : Running cfg tl β n v) : v.esc = true ∨ v.stop = none := by
  rcases h with h | ⟨_, hs, _⟩
  · exact Or.inl h
  · exact Or.inr hs

/-- `if last_stop_reason is not ABORTED: set + emit aborted`, on the view -/
theorem abortedOnce {v : View} (h : RunAny cfg tl β v ∨ Done cfg tl β .aborted v) (a : Nat) :
    (v.stop = some .aborted → Done cfg tl β .aborted v) ∧
    (v.stop ≠ some .aborted →
      Done cfg tl β .aborted (push cfg tl (abortedEv cfg a) { v with stop := some .aborted })) := by
  constructor
  · intro hs
    rcases h with ⟨n, h⟩ | h
    · rcases h.stop_none with h' | h'
      · exact Or.inl h'
      · simp [hs] at h'
    · exact h
  · intro hs
    rcases h with ⟨n, h⟩ | h
    · exact h.aborted a
    · rcases h.aborted_stop with h' | h'
      · exact Or.inl h'
      · exact absurd h' hs

/-- the retry state has recorded the failure the monitor heard about: `cause`, exception `exc` -/
def Failed (cause : Cause) (exc : Option Exn) (v : View) : Prop :=
  v.esc = true ∨ (Sync v ∧ v.lastCause = some cause ∧ v.lastExc = exc)

theorem describes_fail (s : St) (ev : Event) (a sl : Nat) (k : Option EClass) (exc : Option Exn) (st : StopReason)
    (cause : Option Cause) (h1 : ev ≠ .success) (h2 : ev ≠ .aborted) (h3 : ev ≠ .retry)
    (hk : s.klass = k) (hc : s.cause = cause) (he : expErr s = exc.map Exn.typeName) :
    describes cfg s (ev, a, sl, tagsOf cfg k exc (some st) cause) = true := by
  cases ev <;> simp_all [describes, tagsOf]

theorem describes_retry (s : St) (a sl : Nat) (k : Option EClass) (exc : Option Exn)
    (cause : Option Cause) (hk : s.klass = k) (hc : s.cause = cause) (he : expErr s = exc.map Exn.typeName) :
    describes cfg s (.retry, a, sl, tagsOf cfg k exc none cause) = true := by
  simp_all [describes, tagsOf]

theorem Failed.push {cause : Cause} {exc : Option Exn} {v : View} (h : Failed cause exc v)
    (x : EvRec) (s' : Option StopReason) : Failed cause exc (C14.push cfg tl x { v with stop := s' }) := by
  rcases h with h | ⟨sy, h2, h3⟩
  · exact Or.inl h
  · exact Or.inr ⟨⟨sy.klass, sy.cause, sy.err⟩, h2, h3⟩

theorem Failed.push' {cause : Cause} {exc : Option Exn} {v : View} (h : Failed cause exc v)
    (x : EvRec) : Failed cause exc (C14.push cfg tl x v) := by
  rcases h with h | ⟨sy, h2, h3⟩
  · exact Or.inl h
  · exact Or.inr ⟨⟨sy.klass, sy.cause, sy.err⟩, h2, h3⟩

/-- a terminal failure event built from the retry state's record -/
theorem Running.fail {n : Nat} {v : View} {k : EClass} {cause : Cause} {exc : Option Exn}
    (h : Running cfg tl β n v) (hf : Failed cause exc v) (hk : v.esc = true ∨ v.lastClass = some k)
    (ev : Event) (a sl : Nat) (st : StopReason)
    (h1 : ev ≠ .success) (h2 : ev ≠ .aborted) (h3 : ev ≠ .retry) :
    Done cfg tl β .failure
      (push cfg tl (ev, a, sl, tagsOf cfg (some k) exc (some st) (some cause)) { v with stop := some st }) := by
  rcases hk with hk | hk
  · exact Or.inl hk
  rcases hf with hf | ⟨sy, hc, he⟩
  · exact Or.inl hf
  · refine h.terminal _ _ _ h3 (describes_fail _ _ _ _ _ _ _ _ h1 h2 h3 ?_ ?_ ?_) ?_
    · rw [sy.klass, hk]
    · rw [sy.cause, hc]
    · rw [sy.err, he]
    · simp [TermRel, tagsOf, h1, hk, hc, he]

theorem Running.retryEv {n : Nat} {v : View} {k : EClass} {cause : Cause} {exc : Option Exn}
    (h : Running cfg tl β n v) (hf : Failed cause exc v) (hk : v.esc = true ∨ v.lastClass = some k) (sl : Nat) :
    Running cfg tl β (n + 1)
      (push cfg tl (.retry, n + 1, sl, tagsOf cfg (some k) exc none (some cause)) v) := by
  rcases hk with hk | hk
  · exact Or.inl hk
  rcases hf with hf | ⟨sy, hc, he⟩
  · exact Or.inl hf
  · refine h.retry _ rfl rfl (describes_retry _ _ _ _ _ _ ?_ ?_ ?_)
    · rw [sy.klass, hk]
    · rw [sy.cause, hc]
    · rw [sy.err, he]

/-- the monitor heard the failure of the attempt in progress: class `k`, `cause`, exception `exc` -/
def Heard (k : EClass) (cause : Cause) (exc : Option Exn) (v : View) : Prop :=
  v.esc = true ∨ (v.mon.klass = some k ∧ v.mon.cause = some cause ∧ expErr v.mon = exc.map Exn.typeName)

/-- the view after `record_failure` -/
def View.recorded (v : View) (k : EClass) (cause : Cause) (exc : Option Exn) : View :=
  { v with lastClass := some k, lastCause := some cause, lastExc := if cause = .exception then exc else none }

theorem Running.recorded {n : Nat} {v : View} (h : Running cfg tl β n v) (k : EClass) (cause : Cause)
    (exc : Option Exn) (he : ∀ e, exc = some e → e.isAbort = false ∧ e.isExhausted = false) :
    Running cfg tl β n (v.recorded k cause exc) := by
  rcases h with h | ⟨b, hs, G, hG, ag⟩
  · exact Or.inl h
  · refine Or.inr ⟨⟨b.tags, b.brk, b.rej, ?_⟩, hs, G, hG, ⟨ag.ms, ag.ls, ag.tl⟩⟩
    intro e hx
    simp only [View.recorded] at hx ⊢
    split at hx
    · rename_i hc; exact ⟨by rw [hc], he e hx⟩
    · cases hx

theorem Failed.of_heard {v : View} {k : EClass} {cause : Cause} {exc : Option Exn} (h : Heard k cause exc v)
    (hr : cause = .result → exc = none) : Failed cause exc (v.recorded k cause exc) := by
  rcases h with h | ⟨h1, h2, h3⟩
  · exact Or.inl h
  · refine Or.inr ⟨⟨h1, h2, ?_⟩, rfl, ?_⟩
    · cases cause <;> simp_all [View.recorded]
    · cases cause <;> simp_all [View.recorded]

theorem Heard.classified {v : View} (e : Exn) (k : EClass) (h : v.esc = true ∨ v.mon.opExn = some e) :
    Heard k .exception (some e) (v.classified k .exception) := by
  rcases h with h | h
  · exact Or.inl h
  · exact Or.inr ⟨rfl, rfl, by simp [expErr, View.classified, h]⟩

theorem Heard.classifiedResult {v : View} (k : EClass) : Heard k .result none (v.classified k .result) :=
  Or.inr ⟨rfl, rfl, by simp [expErr, View.classified]⟩

end trans

section specs
variable (cfg : Cfg) (tl : Bool) (β : Brk)

@[simp] theorem obs_abortIf_bool (v : View) (b : Bool) (d : Nat) : obs cfg v .abortIf (.bool b d) = v := by
  simp [obs, step, loud, isReject, Mon.isOp, Mon.isAttemptHook, raisedExn]
@[simp] theorem obs_abortIf_raise (v : View) (e : Exn) : obs cfg v .abortIf (.raise e 0) = v.raised e true := by
  simp [obs, step, loud, isReject, Mon.isOp, Mon.isAttemptHook, raisedExn, View.raised]

theorem view_set_rs (w : World) (r : RState) :
    view cfg { w with rs := r } =
      ⟨(view cfg w).mon, (view cfg w).nz, (view cfg w).oz, (view cfg w).esc, (view cfg w).rej, (view cfg w).tl,
       r.lastStop, r.lastClass, r.lastCause, r.lastExc⟩ := rfl
@[simp] theorem view_rs_prevSleep (w : World) (x : Option Nat) :
    view cfg { w with rs := { w.rs with prevSleep := x } } = view cfg w := rfl
@[simp] theorem view_rs_unknown (w : World) (x : Nat) :
    view cfg { w with rs := { w.rs with unknownAttempts := x } } = view cfg w := rfl
@[simp] theorem view_rs_counts (w : World) (x : EClass → Nat) :
    view cfg { w with rs := { w.rs with perClassCounts := x } } = view cfg w := rfl
@[simp] theorem view_rs_lastStrategy (w : World) (x : Option SKey) :
    view cfg { w with rs := { w.rs with lastStrategy := x } } = view cfg w := rfl
@[simp] theorem view_set_as (w : World) (a : AState) : view cfg { w with as := a } = view cfg w := rfl
@[simp] theorem view_set_attempts (w : World) (a : Nat) : view cfg { w with attempts := a } = view cfg w := rfl

macro "vc_close" : tactic => `(tactic| all_goals (
  (try subst_vars) <;> (try intros) <;>
  first
    | (simp_all +zetaDelta; done)
    | skip))

theorem checkAbort_spec (n : Nat) (v : View) (h : Running cfg tl β n v) (a : Nat) :
    ⦃fun w => ⌜view cfg w = v⌝⦄ checkAbort cfg tl a
    ⦃post⟨fun _ w => ⌜view cfg w = v⌝,
          fun e w => ⌜e.isException = true → AbX cfg tl β e (view cfg w)⌝⟩⦄ := by
  have h1 := setStop_spec cfg
  have h2 := fun v => emit_spec cfg v tl .aborted a 0 none none (some .aborted) none none rfl
  mvcgen [checkAbort, ask_spec, h1, h2]
  vc_close
  all_goals (try simp_all +zetaDelta)
  · exact Or.inr ⟨rfl, h.aborted a⟩
  
theorem emitAbortedOnce_spec (v : View) (h : RunAny cfg tl β v ∨ Done cfg tl β .aborted v) (a : Nat) :
    ⦃fun w => ⌜view cfg w = v⌝⦄ emitAbortedOnce cfg tl a
    ⦃post⟨fun _ w => ⌜Done cfg tl β .aborted (view cfg w)⌝, fun e _ => ⌜e.isException = false⌝⟩⦄ := by
  have h1 := setStop_spec cfg
  have h2 := fun v => emit_spec cfg v tl .aborted a 0 none none (some .aborted) none none rfl
  have h3 := @abortedOnce cfg tl β
  mvcgen [emitAbortedOnce, getRS, h1, h2]
  vc_close
  all_goals (try simp_all +zetaDelta)
  · exact (h3 h a).1 (by simp_all [view])
  · exact (h3 h a).2 (by simp_all [view])

/-- what `_handle_failure` leaves behind -/
structure FailPost (n : Nat) (cause : Cause) (exc : Option Exn) (d : Decision) (v : View) : Prop where
  failed : Failed cause exc v
  done : d = .raise → Done cfg tl β .failure v
  running : d ≠ .raise → Running cfg tl β (n + 1) v

abbrev failPost (n : Nat) (cause : Cause) (exc : Option Exn) :
    PostCond Decision (.except Exn (.arg World .pure)) :=
  post⟨fun d w => ⌜FailPost cfg tl β n cause exc d (view cfg w)⌝,
       fun e w => ⌜e.isException = true → MidX cfg tl β e (view cfg w)⌝⟩

theorem stopWith_spec (n : Nat) (v : View) (k : EClass) (cause : Cause) (exc : Option Exn)
    (h : Running cfg tl β n v) (hf : Failed cause exc v) (hk : v.esc = true ∨ v.lastClass = some k)
    (s : StopReason) (ev : Event) (a : Nat)
    (h1 : ev ≠ .success) (h2 : ev ≠ .aborted) (h3 : ev ≠ .retry) (hb : isBreakerEvent ev = false) :
    ⦃fun w => ⌜view cfg w = v⌝⦄ stopWith cfg tl s ev a k exc cause ⦃failPost cfg tl β n cause exc⦄ := by
  have e1 := setStop_spec cfg
  have e2 := fun v => emit_spec cfg v tl ev a 0 (some k) exc (some s) (some cause) none hb
  mvcgen [stopWith, e1, e2]
  vc_close
  all_goals (try simp_all +zetaDelta)
  · exact ⟨hf.push _ _, fun _ => h.fail hf hk ev a 0 s h1 h2 h3, fun hd => absurd rfl hd⟩

theorem grantRetry_spec (n : Nat) (v : View) (c : Classification) (cause : Cause) (exc : Option Exn)
    (h : Running cfg tl β n v) (hf : Failed cause exc v) (hk : v.esc = true ∨ v.lastClass = some c.klass)
    (key : SKey) (kind : SKind) (rem : Nat) :
    ⦃fun w => ⌜view cfg w = v⌝⦄ grantRetry cfg tl c (n + 1) cause exc key kind rem
    ⦃failPost cfg tl β n cause exc⦄ := by
  have e1 := callStrategy_spec cfg
  have e2 := budgetConsume_spec cfg
  have e3 := fun v sl => emit_spec cfg v tl .retry (n + 1) sl (some c.klass) exc none (some cause) (some c) rfl
  have e4 := fun v (h : Running cfg tl β n v) (hf : Failed cause exc v) hk =>
    stopWith_spec cfg tl β n v c.klass cause exc h hf hk .budgetExhausted .budgetExhausted (n + 1)
      (by simp) (by simp) (by simp) rfl
  mvcgen [grantRetry, getRS, modifyRS, e1, e2, e3, e4]
  vc_close
  all_goals (try simp_all +zetaDelta)
  · exact ⟨hf.push' _, (fun hd => nomatch hd), fun _ => h.retryEv hf hk _⟩
  all_goals (first
    | exact MidX.raised h
    | skip)

theorem handleFailure2_spec (n : Nat) (v : View) (c : Classification) (cause : Cause) (exc : Option Exn)
    (h : Running cfg tl β n v) (hf : Failed cause exc v) (hk : v.esc = true ∨ v.lastClass = some c.klass) :
    ⦃fun w => ⌜view cfg w = v⌝⦄ handleFailure2 cfg tl c (n + 1) cause exc
    ⦃failPost cfg tl β n cause exc⦄ := by
  have e1 := stratRecordFailure_spec cfg
  have e2 := fun v (h : Running cfg tl β n v) (hf : Failed cause exc v) hk =>
    grantRetry_spec cfg tl β n v c cause exc h hf hk
  have e4 := fun v (h : Running cfg tl β n v) (hf : Failed cause exc v) hk s ev h1 h2 h3 hb =>
    stopWith_spec cfg tl β n v c.klass cause exc h hf hk s ev (n + 1) h1 h2 h3 hb
  mvcgen [handleFailure2, elapsed, modifyRS, e1, e2, e4]
  vc_close
  all_goals (try simp_all +zetaDelta)
  all_goals (first
    | exact MidX.raised h
    | skip)

theorem handleUnknown_spec (n : Nat) (v : View) (c : Classification) (cause : Cause) (exc : Option Exn)
    (h : Running cfg tl β n v) (hf : Failed cause exc v) (hk : v.esc = true ∨ v.lastClass = some c.klass) :
    ⦃fun w => ⌜view cfg w = v⌝⦄ handleUnknown cfg tl c (n + 1) cause exc
    ⦃failPost cfg tl β n cause exc⦄ := by
  have e2 := fun v (h : Running cfg tl β n v) (hf : Failed cause exc v) hk =>
    handleFailure2_spec cfg tl β n v c cause exc h hf hk
  have e4 := fun v (h : Running cfg tl β n v) (hf : Failed cause exc v) hk s ev h1 h2 h3 hb =>
    stopWith_spec cfg tl β n v c.klass cause exc h hf hk s ev (n + 1) h1 h2 h3 hb
  mvcgen [handleUnknown, getRS, modifyRS, e2, e4]
  vc_close

theorem handleFailure1_spec (n : Nat) (v : View) (c : Classification) (cause : Cause) (exc : Option Exn)
    (h : Running cfg tl β n v) (hf : Failed cause exc v) (hk : v.esc = true ∨ v.lastClass = some c.klass) :
    ⦃fun w => ⌜view cfg w = v⌝⦄ handleFailure1 cfg tl c (n + 1) cause exc
    ⦃failPost cfg tl β n cause exc⦄ := by
  have e2 := fun v (h : Running cfg tl β n v) (hf : Failed cause exc v) hk =>
    handleFailure2_spec cfg tl β n v c cause exc h hf hk
  have e3 := fun v (h : Running cfg tl β n v) (hf : Failed cause exc v) hk =>
    handleUnknown_spec cfg tl β n v c cause exc h hf hk
  have e4 := fun v (h : Running cfg tl β n v) (hf : Failed cause exc v) hk s ev h1 h2 h3 hb =>
    stopWith_spec cfg tl β n v c.klass cause exc h hf hk s ev (n + 1) h1 h2 h3 hb
  mvcgen [handleFailure1, getRS, e2, e3, e4]
  vc_close

theorem recordFailure_spec (v : View) (c : Classification) (cause : Cause) (exc : Option Exn) (r : Option Nat) :
    ⦃fun w => ⌜view cfg w = v⌝⦄ Retry.recordFailure c cause exc r
    ⦃post⟨fun _ w => ⌜view cfg w = v.recorded c.klass cause exc⌝, fun _ _ => ⌜False⌝⟩⦄ := by
  mvcgen [Retry.recordFailure, modifyRS]
  all_goals (subst_vars; rfl)

theorem handleFailure_spec (n : Nat) (v : View) (c : Classification) (cause : Cause) (exc : Option Exn)
    (r : Option Nat) (h : Running cfg tl β n v) (hh : Heard c.klass cause exc v)
    (hr : cause = .result → exc = none) (he : ∀ e, exc = some e → e.isAbort = false ∧ e.isExhausted = false) :
    ⦃fun w => ⌜view cfg w = v⌝⦄ handleFailure cfg tl c (n + 1) cause exc r
    ⦃failPost cfg tl β n cause exc⦄ := by
  have e1 := recordFailure_spec cfg
  have e2 := handleFailure1_spec cfg tl β n (v.recorded c.klass cause exc) c cause exc
    (h.recorded _ _ _ he) (Failed.of_heard hh hr) (Or.inr rfl)
  mvcgen [handleFailure, modifyRS, e1, e2]
  vc_close

theorem handleException_spec (n : Nat) (v : View) (e : Exn) (h : Running cfg tl β n v)
    (hop : v.esc = true ∨ v.mon.opExn = some e) (he : e.isAbort = false ∧ e.isExhausted = false) :
    ⦃fun w => ⌜view cfg w = v⌝⦄ handleException cfg tl e (n + 1)
    ⦃failPost cfg tl β n .exception (some e)⦄ := by
  have e1 := callClassifier_spec cfg
  have e2 := fun (c : Classification) => handleFailure_spec cfg tl β n (v.classified c.klass .exception) c .exception
    (some e) none (Running_classified.mpr h) (Heard.classified e c.klass hop) (by simp)
    (by intro x hx; cases hx; exact he)
  mvcgen [handleException, e1, e2]
  vc_close
  all_goals (try simp_all +zetaDelta)
  all_goals (first
    | exact MidX.raised h
    | skip)

end specs
section trans2
variable {cfg : Cfg} {tl : Bool} {β : Brk}

def SyncE (v : View) : Prop := v.esc = true ∨ Sync v

theorem Failed.syncE {cause : Cause} {exc : Option Exn} {v : View} (h : Failed cause exc v) :
    SyncE v := h.elim Or.inl (fun h => Or.inr h.1)

/-- a terminal failure event built from the retry state's own record -/
theorem Running.failSync {n : Nat} {v : View} (h : Running cfg tl β n v) (hs : SyncE v) (ev : Event)
    (a sl : Nat) (st : StopReason) (h1 : ev ≠ .success) (h2 : ev ≠ .aborted) (h3 : ev ≠ .retry) :
    Done cfg tl β .failure
      (push cfg tl (ev, a, sl, tagsOf cfg v.lastClass v.lastExc (some st) v.lastCause) { v with stop := some st }) := by
  rcases hs with hs | sy
  · exact Or.inl hs
  · exact h.terminal _ _ _ h3 (describes_fail _ _ _ _ _ _ _ _ h1 h2 h3 sy.klass sy.cause sy.err)
      (by simp [TermRel, tagsOf, h1])

/-- same, when the event is built from the attempt's own parameters -/
theorem Running.failParam {n : Nat} {v : View} {cause : Cause} {exc : Option Exn}
    (h : Running cfg tl β n v) (hf : Failed cause exc v) (ev : Event)
    (a sl : Nat) (st : StopReason) (h1 : ev ≠ .success) (h2 : ev ≠ .aborted) (h3 : ev ≠ .retry) :
    Done cfg tl β .failure
      (push cfg tl (ev, a, sl, tagsOf cfg v.lastClass exc (some st) (some cause)) { v with stop := some st }) := by
  rcases hf with hf | ⟨sy, hc, he⟩
  · exact Or.inl hf
  · obtain ⟨mon, nz, oz, esc, rej, tl', stop, lc, lca, le⟩ := v
    simp only at hc he
    subst hc he
    exact h.failSync (Or.inr sy) ev a sl st h1 h2 h3

end trans2

section specs2
variable (cfg : Cfg) (tl : Bool) (β : Brk)

/-- unfold the listed post-condition definitions everywhere, substitute, simplify -/
macro "vc_simp" "[" ts:Lean.Parser.Tactic.simpLemma,* "]" : tactic => `(tactic| all_goals (
  (try intros) <;> (try simp only [$ts,*] at *) <;> (try subst_vars) <;>
  (try simp_all +zetaDelta [$ts,*])))

def SleepPost (cause : Cause) (exc : Option Exn) (v : View) (action r : SleepDecision)
    (v' : View) : Prop :=
  action = r ∧ action ≠ .other ∧ (action ≠ .abort → Failed cause exc v') ∧ (action = .sleep → v' = v)
  ∧ (action = .defer → Done cfg tl β .failure v' ∧ v'.stop = some .scheduled)
  ∧ (action = .abort → Done cfg tl β .aborted v')

theorem handleSleepDecision_spec (n : Nat) (v : View) (cause : Cause) (exc : Option Exn)
    (h : Running cfg tl β n v) (hf : Failed cause exc v) (action : SleepDecision) (a sl : Nat) :
    ⦃fun w => ⌜view cfg w = v⌝⦄ handleSleepDecision cfg tl action a sl
    ⦃post⟨fun r w => ⌜SleepPost cfg tl β cause exc v action r (view cfg w)⌝,
          fun e w => ⌜e.isException = true → MidX cfg tl β e (view cfg w)⌝⟩⦄ := by
  have e1 := setStop_spec cfg
  have e2 := fun v k x c => emit_spec cfg v tl .scheduled a sl k x (some .scheduled) c none rfl
  have e3 := emitAbortedOnce_spec cfg tl β v (Or.inl ⟨n, h⟩) a
  mvcgen [handleSleepDecision, getRS, e1, e2, e3]
  all_goals (try clear e1 e2 e3)
  vc_simp [SleepPost]
  all_goals (first
    | exact Or.inr (Or.inl ⟨⟨n, h⟩, Or.inr rfl⟩)
    | exact ⟨hf.push _ _, h.failSync hf.syncE .scheduled a sl .scheduled (by simp) (by simp) (by simp)⟩
    | skip)
  
theorem sleepAction_spec (n : Nat) (v : View) (cause : Cause) (exc : Option Exn)
    (h : Running cfg tl β n v) (hf : Failed cause exc v) (a sl : Nat) (ctx : BackoffCtx) :
    ⦃fun w => ⌜view cfg w = v⌝⦄ sleepAction cfg tl a sl ctx
    ⦃post⟨fun r w => ⌜SleepPost cfg tl β cause exc v r r (view cfg w)⌝,
          fun e w => ⌜e.isException = true → MidX cfg tl β e (view cfg w)⌝⟩⦄ := by
  have e1 := callBeforeSleep_spec cfg
  have e2 := callSleeper_spec cfg
  have e3 := callSleepHandler_spec cfg
  have e4 := handleSleepDecision_spec cfg tl β n v cause exc h hf
  mvcgen [sleepAction, e1, e2, e3, e4]
  all_goals (try clear e1 e2 e3 e4)
  vc_simp [SleepPost]
  all_goals (first
    | exact MidX.raised h
    | (rename_i hh; obtain ⟨rfl, h2, h3, h4, h5, h6⟩ := hh; simp_all; done)
    | skip)

/-- what a failed attempt leaves behind, by the attempt's decision -/
def After (n : Nat) (cause : Cause) (exc : Option Exn) (o : AOutcome) (v : View) : Prop :=
  (o.decision ≠ .aborted → Failed cause exc v)
  ∧ (o.decision = .retry → Running cfg tl β (n + 1) v)
  ∧ (o.decision = .raise → Done cfg tl β .failure v ∧ o.stop = v.stop)
  ∧ (o.decision = .scheduled → Done cfg tl β .failure v ∧ o.stop = some .scheduled ∧ v.stop = some .scheduled)
  ∧ (o.decision = .aborted → Done cfg tl β .aborted v)
  ∧ o.decision ≠ .success

theorem finalize_fail {n : Nat} {cause : Cause} {exc : Option Exn} {r : SleepDecision}
    {v2 v3 : View} {sl : Nat} {ctx : BackoffCtx} (h1 : ¬ r = .defer) (h2 : ¬ r = .abort)
    (hh : ¬ r = .other ∧ Failed cause exc v2 ∧ (r = .sleep → v2 = v3))
    (hp : FailPost cfg tl β n cause exc (.retry sl ctx) v3) (ev : Event) (a : Nat) (st : StopReason)
    (e1 : ev ≠ .success) (e2 : ev ≠ .aborted) (e3 : ev ≠ .retry) :
    Failed cause exc
      (push cfg tl (ev, a, 0, tagsOf cfg v2.lastClass exc (some st) (some cause)) { v2 with stop := some st }) ∧
    Done cfg tl β .failure
      (push cfg tl (ev, a, 0, tagsOf cfg v2.lastClass exc (some st) (some cause)) { v2 with stop := some st }) := by
  obtain ⟨h3, hf, h4⟩ := hh
  have hs : r = .sleep := by cases r <;> simp_all
  have hv := h4 hs
  subst hv
  exact ⟨hf.push _ _, (hp.running (by simp)).failParam hf _ _ _ _ e1 e2 e3⟩

theorem finalize_retry {n : Nat} {cause : Cause} {exc : Option Exn} {r : SleepDecision}
    {v2 v3 : View} {sl : Nat} {ctx : BackoffCtx} (h1 : ¬ r = .defer) (h2 : ¬ r = .abort)
    (hh : ¬ r = .other ∧ Failed cause exc v2 ∧ (r = .sleep → v2 = v3))
    (hp : FailPost cfg tl β n cause exc (.retry sl ctx) v3) : Running cfg tl β (n + 1) v2 := by
  obtain ⟨h3, hf, h4⟩ := hh
  have hs : r = .sleep := by cases r <;> simp_all
  have hv := h4 hs
  subst hv
  exact hp.running (by simp)

theorem failureOutcome_spec (n : Nat) (v : View) (cause : Cause) (exc : Option Exn) (d : Decision)
    (hp : FailPost cfg tl β n cause exc d v) (cls : Option Classification) (res : Option Nat) :
    ⦃fun w => ⌜view cfg w = v⌝⦄ failureOutcome cfg tl (n + 1) d cls exc res (some cause)
    ⦃post⟨fun o w => ⌜After cfg tl β n cause exc o (view cfg w)⌝,
          fun e w => ⌜e.isException = true → MidX cfg tl β e (view cfg w)⌝⟩⦄ := by
  have e1 := setStop_spec cfg
  have e2 := fun v ev st kk => emit_spec cfg v tl ev (n + 1) 0 kk exc (some st) (some cause) none
  have e3 := fun (hd : d ≠ .raise) => sleepAction_spec cfg tl β (n + 1) v cause exc (hp.running hd) hp.failed
  mvcgen [failureOutcome, finalizeAttempt, getRS, elapsed, e1, e2, e3]
  all_goals (try clear e1 e2 e3)
  vc_simp [SleepPost, After]
  all_goals (first
    | exact ⟨hp.failed, hp.done rfl, rfl⟩
    | exact finalize_retry cfg tl β (by assumption) (by assumption) (by assumption) hp
    | exact finalize_fail cfg tl β (by assumption) (by assumption) (by assumption) hp _ _ _ (by simp) (by simp) (by simp)
    | skip)
  
end specs2
section fin
variable {cfg : Cfg} {tl : Bool} {β : Brk}

theorem Running.success {n : Nat} {v : View} (h : Running cfg tl β n v) (a : Nat) :
    Done cfg tl β .success (push cfg tl (.success, a, 0, tagsOf cfg none none none none) v) := by
  rcases h with h | ⟨b, hs, G, hG, ag⟩
  · exact Or.inl h
  · exact Or.inr ⟨b.push _ (by simp [describes, tagsOf]), _, n, G, by simp, hG, ag.push _,
      by simp [TermRel, tagsOf, hs]⟩

/-- from a `Done` state to `Final`, given that the terminal event fits the result -/
theorem Done.final {k : TKind} {v : View} {r : Res} (h : Done cfg tl β k v)
    (hr : ∀ t : EvRec, Base β v → TermRel k t v → terminalOk true t r = true) : Final cfg tl β r v := by
  rcases h with h | ⟨b, t, n, G, hne, hG, ag, ht⟩
  · exact Or.inl h
  · exact Or.inr ⟨b.tags, b.brk, b.rej, t, n, G, hne, hG, ag, hr t b ht⟩

theorem Done.final_ret {v : View} (h : Done cfg tl β .success v) (x : Nat) : Final cfg tl β (.ret x) v :=
  h.final (fun t _ ht => by simp_all [TermRel, terminalOk])

theorem Done.final_ok {v : View} {o : Outcome} (h : Done cfg tl β .success v) (ho : OutcomeOf v true o)
    (tl' : List TimelineEv) : Final cfg tl β (.outcome o tl') v :=
  h.final (fun t _ ht => by simp_all [TermRel, terminalOk, ho.ok])

theorem Done.final_fail {v : View} {o : Outcome} (h : Done cfg tl β .failure v) (ho : OutcomeOf v false o)
    (tl' : List TimelineEv) : Final cfg tl β (.outcome o tl') v :=
  h.final (fun t b ht => by
    obtain ⟨h1, h2, h3, h4, h5, h6⟩ := ht
    have hx := b.exc
    simp only [terminalOk, ho.ok, ho.stop, ho.lastClass, ho.cause, ho.lastExc]
    cases hl : v.lastExc with
    | none => simp_all
    | some e => have := (hx e hl).1; simp_all)

theorem Done.final_aborted {v : View} {o : Outcome} (h : Done cfg tl β .aborted v) (ho : OutcomeOf v false o)
    (tl' : List TimelineEv) : Final cfg tl β (.outcome o tl') v :=
  h.final (fun t _ ht => by
    obtain ⟨h1, h2, h3⟩ := ht
    simp_all [terminalOk, ho.ok, ho.stop])

theorem Done.final_abort {v : View} {e : Exn} (h : Done cfg tl β .aborted v) (he : e.isAbort = true) :
    Final cfg tl β (.raised e) v :=
  h.final (fun t _ ht => by
    obtain ⟨h1, h2, h3⟩ := ht
    cases e <;> simp_all [terminalOk, Exn.isAbort])

theorem Done.final_raise {v : View} {e : Exn} (h : Done cfg tl β .failure v)
    (hf : Failed .exception (some e) v) : Final cfg tl β (.raised e) v := by
  rcases hf with hf | ⟨_, _, hl⟩
  · exact Or.inl hf
  · exact h.final (fun t b ht => by
      obtain ⟨h1, h2, h3, h4, h5, h6⟩ := ht
      obtain ⟨_, ha, hx⟩ := b.exc e hl
      have hs : t.2.2.2.stop.isSome = true := by rw [h1]; exact h3
      cases e <;> simp_all [terminalOk, Exn.isAbort, Exn.isExhausted])

theorem Done.final_exhausted {v : View} {f : ExhaustedFields} (h : Done cfg tl β .failure v)
    (hs : v.stop = some f.stop) (hc : f.lastClass = v.lastClass) (he : f.lastExc.isSome = v.lastExc.isSome) :
    Final cfg tl β (.raised (.libExhausted f)) v :=
  h.final (fun t _ ht => by
    obtain ⟨h1, h2, h3, h4, h5, h6⟩ := ht
    simp_all [terminalOk])

end fin
section callmode
variable (cfg : Cfg) (β : Brk)

/-- how `call()` may end with an exception: the monitor is skipped, or the stream explains it -/
def CallX (x : Exn) (v : View) : Prop := Excused x v ∨ Final cfg false β (.raised x) v

variable {cfg β}

theorem CallX.of_mid {x : Exn} {v : View} (h : MidX cfg false β x v) : CallX cfg β x v := by
  rcases h with h | ⟨_, h⟩ | ⟨rfl, h⟩
  · exact Or.inl (Or.inl h)
  · exact Or.inl (Or.inr (h.elim Or.inl (fun h => Or.inr (Or.inl h))))
  · exact Or.inr (h.final_abort rfl)

@[simp] theorem CallX_hook {x e : Exn} {v : View} : CallX cfg β x (v.raised e true) := Or.inl (Or.inl rfl)

theorem CallX.raised {x : Exn} {v : View} : CallX cfg β x (v.raised x false) :=
  Or.inl (Or.inr (Or.inl (by simp [View.raised])))

variable (cfg β)

theorem handleSuccessAttemptEnd_spec (tl : Bool) (n : Nat) (v : View) (h : Running cfg tl β n v) (a x : Nat) :
    ⦃fun w => ⌜view cfg w = v⌝⦄ handleSuccessAttemptEnd cfg tl a x
    ⦃post⟨fun _ w => ⌜Done cfg tl β .success (view cfg w)⌝,
          fun e w => ⌜e.isException = true → MidX cfg tl β e (view cfg w)⌝⟩⦄ := by
  have e1 := recordStrategySuccess_spec cfg
  have e2 := fun v => emit_spec cfg v tl .success a 0 none none none none none rfl
  have e3 := callAttemptEnd_spec cfg
  mvcgen [handleSuccessAttemptEnd, e1, e2, e3]
  all_goals (try clear e1 e2 e3)
  vc_simp []
  all_goals (first
    | exact MidX.raised h
    | exact h.success a
    | skip)

theorem checkAbort_any (tl : Bool) (v : View) (h : RunAny cfg tl β v) (a : Nat) :
    ⦃fun w => ⌜view cfg w = v⌝⦄ checkAbort cfg tl a
    ⦃post⟨fun _ w => ⌜view cfg w = v⌝,
          fun e w => ⌜e.isException = true → AbX cfg tl β e (view cfg w)⌝⟩⦄ := by
  obtain ⟨n, h⟩ := h
  exact checkAbort_spec cfg tl β n v h a

variable {cfg β}

theorem isRaise_false {d : Decision} (h : d.isRaise = false) : d ≠ .raise := by
  cases d <;> simp_all [Decision.isRaise]

theorem Done.stop_some {tl : Bool} {v : View} (h : Done cfg tl β .failure v) : v.esc = true ∨ v.stop.isSome = true := by
  rcases h with h | ⟨_, t, n, G, _, _, _, ht⟩
  · exact Or.inl h
  · exact Or.inr ht.2.2.1

theorem deliver_continue {tl : Bool} {n : Nat} {cause : Cause} {exc : Option Exn} {o : AOutcome} {v : View}
    {r : RState} {a : Nat} {fr : Bool} (ha : After cfg tl β n cause exc o v)
    (hx : determineAction o r a fr = .continue_) : Running cfg tl β (n + 1) v ∧ SyncE v := by
  obtain ⟨h1, h2, h3, h4, h5, h6⟩ := ha
  have hd : o.decision = .retry := by
    unfold determineAction at hx
    cases hdec : o.decision <;> cases fr <;> simp_all
  exact ⟨h2 hd, (h1 (by simp [hd])).syncE⟩

theorem deliver_abort {n : Nat} {cause : Cause} {exc : Option Exn} {o : AOutcome} {v : View}
    {r : RState} {a : Nat} {fr : Bool} (ha : After cfg false β n cause exc o v)
    (hx : determineAction o r a fr = .abort) : CallX cfg β .libAbort v := by
  obtain ⟨h1, h2, h3, h4, h5, h6⟩ := ha
  have hd : o.decision = .aborted := by
    unfold determineAction at hx
    cases hdec : o.decision <;> cases fr <;> simp_all
  exact Or.inr ((h5 hd).final_abort rfl)

theorem deliver_sched {n : Nat} {cause : Cause} {exc : Option Exn} {o : AOutcome} {v : View}
    {w : World} {a : Nat} {fr : Bool} {f : ExhaustedFields} (ha : After cfg false β n cause exc o v)
    (hv : view cfg w = v) (hfr : fr = true → exc = none)
    (hx : determineAction o w.rs a fr = .scheduled f) : CallX cfg β (.libExhausted f) v := by
  obtain ⟨h1, h2, h3, h4, h5, h6⟩ := ha
  subst hv
  by_cases hesc : (view cfg w).esc = true
  · exact Or.inl (Or.inl hesc)
  unfold determineAction at hx
  cases hdec : o.decision <;> cases fr <;> simp_all
  all_goals subst hx
  · -- raise, for_result
    obtain ⟨hd, hs⟩ := h3
    rcases hd.stop_some with h' | h'
    · exact absurd h' (by simpa using hesc)
    · rcases h1 with h1 | ⟨_, _, hl⟩
      · exact absurd h1 (by simpa using hesc)
      · refine Or.inr (hd.final_exhausted ?_ rfl ?_)
        · cases hst : (view cfg w).stop <;> simp_all [view]
        · simp_all [view]
  · -- scheduled, exception
    obtain ⟨hd, hs, hs'⟩ := h4
    refine Or.inr (hd.final_exhausted ?_ rfl ?_)
    · simp [hs']
    · simp [view]
  · -- scheduled, for_result
    obtain ⟨hd, hs, hs'⟩ := h4
    rcases h1 with h1 | ⟨_, _, hl⟩
    · exact absurd h1 (by simpa using hesc)
    · refine Or.inr (hd.final_exhausted ?_ rfl ?_)
      · simp [hs']
      · simp_all [view]

theorem deliver_raise {n : Nat} {e : Exn} {o : AOutcome} {v : View}
    {r : RState} {a : Nat} (ha : After cfg false β n .exception (some e) o v)
    (hx : determineAction o r a false = .raise) : CallX cfg β e v := by
  obtain ⟨h1, h2, h3, h4, h5, h6⟩ := ha
  have hd : o.decision = .raise := by
    unfold determineAction at hx
    cases hdec : o.decision <;> simp_all
  exact Or.inr ((h3 hd).1.final_raise (h1 (by simp [hd])))

variable (cfg β)

abbrev callPost (n : Nat) : PostCond (Option Nat) (.except Exn (.arg World .pure)) :=
  post⟨fun r w => ⌜(r = none → Running cfg false β (n + 1) (view cfg w) ∧ SyncE (view cfg w))
                   ∧ (∀ x, r = some x → Final cfg false β (.ret x) (view cfg w))⌝,
       fun x w => ⌜x.isException = true → CallX cfg β x (view cfg w)⌝⟩

theorem callExceptionPath_spec (n : Nat) (v : View) (e : Exn) (h : Running cfg false β n v)
    (hop : v.esc = true ∨ v.mon.opExn = some e) (he : e.isAbort = false ∧ e.isExhausted = false) :
    ⦃fun w => ⌜view cfg w = v⌝⦄ callExceptionPath cfg (n + 1) e ⦃callPost cfg β n⦄ := by
  have e1 := fun v h => checkAbort_any cfg β false v h (n + 1)
  have e2 := handleException_spec cfg false β n v e h hop he
  have e3 := fun v d hp => failureOutcome_spec cfg false β n v .exception (some e) d hp
  have e4 := callAttemptEndFromOutcome_spec cfg
  mvcgen [callExceptionPath, getRS, modifyAS, deliverCall, e1, e2, e3, e4]
  all_goals (try clear e1 e2 e3 e4)
  vc_simp []
  all_goals (first
    | exact ⟨_, h⟩
    | exact CallX.of_mid (by assumption)
    | exact CallX.of_mid (MidX.of_ab (by assumption))
    | exact deliver_continue (by assumption) (by assumption)
    | exact deliver_abort (by assumption) (by assumption)
    | exact deliver_sched (fr := false) (by assumption) (by assumption) (by simp) (by assumption)
    | exact ⟨_, FailPost.running (by assumption) (isRaise_false (by assumption))⟩
    | exact deliver_raise (by assumption) (by assumption)
    | skip)

@[simp] theorem cancelled_isException : Exn.cancelled.isException = false := rfl
theorem isKiSe_not_exception {e : Exn} (h : e.isKiSe = true) : e.isException = false := by
  cases e <;> simp_all [Exn.isKiSe, Exn.isException]

theorem emitAbortedOnce_run (tl : Bool) (n : Nat) (v : View) (h : Running cfg tl β n v) (a : Nat) :
    ⦃fun w => ⌜view cfg w = v⌝⦄ emitAbortedOnce cfg tl a
    ⦃post⟨fun _ w => ⌜Done cfg tl β .aborted (view cfg w)⌝, fun e _ => ⌜e.isException = false⌝⟩⦄ :=
  emitAbortedOnce_spec cfg tl β v (Or.inl ⟨n, h⟩) a

theorem callOpHandler_spec (n : Nat) (v : View) (e : Exn) (h : Running cfg false β n v)
    (hop : v.esc = true ∨ (v.mon.opExn = some e ∧ e ∈ v.oz)) :
    ⦃fun w => ⌜view cfg w = v⌝⦄ callOpHandler cfg (n + 1) e ⦃callPost cfg β n⦄ := by
  have e1 := handleAbortAttemptEnd_spec cfg
  have e2 := fun v h => emitAbortedOnce_run cfg β false n v h (n + 1)
  have e3 := fun (he : e.isAbort = false ∧ e.isExhausted = false) =>
    callExceptionPath_spec cfg β n v e h (hop.elim Or.inl (fun h => Or.inr h.1)) he
  mvcgen [callOpHandler, e1, e2, e3]
  all_goals (try clear e1 e2 e3)
  vc_simp []
  all_goals (first
    | exact Or.inr (Done.final_abort (by assumption) (by assumption))
    | (have := isKiSe_not_exception (e := e) (by assumption); simp_all; done)
    | exact Or.inl (hop.elim Or.inl (fun h => Or.inr (Or.inr (Or.inr ⟨by assumption, h.2⟩))))
    | skip)

theorem determineAction_true_ne_raise (o : AOutcome) (r : RState) (a : Nat) :
    determineAction o r a true ≠ .raise := by
  unfold determineAction
  cases o.decision <;> simp

theorem isException_of_isExhausted {e : Exn} (h : e.isExhausted = true) : e.isException = true := by
  cases e <;> simp_all [Exn.isExhausted, Exn.isException]

/-- the handler proper: for a non-`Exception` nothing is known about the state, and nothing is needed -/
theorem callOpHandler_spec' (n : Nat) (v : View) (e : Exn) (h : Running cfg false β n v)
    (hop : v.esc = true ∨ (v.mon.opExn = some e ∧ e ∈ v.oz)) :
    ⦃fun w => ⌜e.isException = true → view cfg w = v⌝⦄ callOpHandler cfg (n + 1) e ⦃callPost cfg β n⦄ := by
  by_cases hx : e.isException = true
  · intro w hp
    exact callOpHandler_spec cfg β n v e h hop w (hp hx)
  · have h1 : e.isAbort = false := by
      cases hh : e.isAbort with
      | false => rfl
      | true => exact absurd (isException_of_isAbort e hh) hx
    have h2 : e.isExhausted = false := by
      cases hh : e.isExhausted with
      | false => rfl
      | true => exact absurd (isException_of_isExhausted hh) hx
    mvcgen [callOpHandler]
    all_goals simp_all

theorem callResultFailure_spec (n : Nat) (v : View) (x : Nat) (c : Classification)
    (h : Running cfg false β n v) (hh : Heard c.klass .result none v) :
    ⦃fun w => ⌜view cfg w = v⌝⦄ callResultFailure cfg (n + 1) x c ⦃callPost cfg β n⦄ := by
  have e1 := fun v h => checkAbort_any cfg β false v h (n + 1)
  have e2 := handleFailure_spec cfg false β n v c .result none (some x) h hh (by simp) (by simp)
  have e3 := fun v d hp => failureOutcome_spec cfg false β n v .result none d hp
  have e4 := callAttemptEndFromOutcome_spec cfg
  mvcgen [callResultFailure, getRS, modifyAS, deliverCall, e1, e2, e3, e4]
  all_goals (try clear e1 e2 e3 e4)
  vc_simp []
  all_goals (first
    | exact ⟨_, h⟩
    | exact CallX.of_mid (by assumption)
    | exact CallX.of_mid (MidX.of_ab (by assumption))
    | exact deliver_continue (by assumption) (by assumption)
    | exact deliver_abort (by assumption) (by assumption)
    | exact deliver_sched (fr := true) (by assumption) (by assumption) (by simp) (by assumption)
    | exact absurd (by assumption) (determineAction_true_ne_raise _ _ _)
    | exact ⟨_, FailPost.running (by assumption) (isRaise_false (by assumption))⟩
    | skip)

theorem callResultPath_spec (n : Nat) (v : View) (x : Nat) (h : Running cfg false β n v) :
    ⦃fun w => ⌜view cfg w = v⌝⦄ callResultPath cfg (n + 1) x ⦃callPost cfg β n⦄ := by
  have e1 := shouldClassifyResult_spec cfg
  have e2 := fun v h => handleSuccessAttemptEnd_spec cfg β false n v h (n + 1) x
  have e3 := fun (c : Classification) => callResultFailure_spec cfg β n (v.classified c.klass .result) x c
    (Running_classified.mpr h) (Heard.classifiedResult c.klass)
  mvcgen [callResultPath, e1, e2, e3]
  all_goals (try clear e1 e2 e3)
  vc_simp []
  all_goals (first
    | exact CallX.of_mid (by assumption)
    | exact CallX.of_mid (MidX.of_ab (by assumption))
    | exact CallX.raised
    | exact Done.final_ret (by assumption) _
    | skip)

theorem callAttempt_spec (n : Nat) (v : View) (h : Running cfg false β n v) :
    ⦃fun w => ⌜view cfg w = v⌝⦄ callAttempt cfg (n + 1) ⦃callPost cfg β n⦄ := by
  have e1 := checkAbort_spec cfg false β n v h n
  have e2 := callAttemptStart_spec cfg
  have e3 := invokeOp_spec cfg
  have e4 := fun e => callOpHandler_spec' cfg β n (v.opDone (some e)) e (Running_opDone.mpr h)
    (Or.inr ⟨rfl, by simp [View.opDone]⟩)
  have e5 := fun x => callResultPath_spec cfg β n (v.opDone none) x (Running_opDone.mpr h)
  mvcgen [callAttempt, modifyAS, e1, e2, e3, e4, e5]
  all_goals (try clear e1 e2 e3 e4 e5)
  vc_simp []
  all_goals (first
    | exact CallX.of_mid (by assumption)
    | exact CallX.of_mid (MidX.of_ab (by assumption))
    | exact CallX.raised
    | skip)

variable {cfg β}

theorem Done.final_raise' {tl : Bool} {v : View} {e : Exn} (h : Done cfg tl β .failure v) (hl : v.lastExc = some e) :
    Final cfg tl β (.raised e) v :=
  h.final (fun t b ht => by
    obtain ⟨h1, h2, h3, h4, h5, h6⟩ := ht
    obtain ⟨_, ha, hx⟩ := b.exc e hl
    have hs : t.2.2.2.stop.isSome = true := by rw [h1]; exact h3
    cases e <;> simp_all [terminalOk, Exn.isAbort, Exn.isExhausted])

theorem Done.final_exhausted_result {tl : Bool} {v : View} {f : ExhaustedFields} (h : Done cfg tl β .failure v)
    (hs : v.stop = some f.stop) (hc : f.lastClass = v.lastClass) (he : f.lastExc = none)
    (hr : v.lastCause = some .result) : Final cfg tl β (.raised (.libExhausted f)) v :=
  h.final (fun t b ht => by
    obtain ⟨h1, h2, h3, h4, h5, h6⟩ := ht
    have : v.lastExc = none := by
      cases hl : v.lastExc with
      | none => rfl
      | some e => have := (b.exc e hl).1; simp_all
    simp_all [terminalOk])

variable (cfg β)

theorem emitMaxAttemptsExceeded_spec (tl : Bool) (n : Nat) (v : View) (h : Running cfg tl β n v) (hs : SyncE v) :
    ⦃fun w => ⌜view cfg w = v⌝⦄ emitMaxAttemptsExceeded cfg tl
    ⦃post⟨fun _ w => ⌜Done cfg tl β .failure (view cfg w) ∧ (view cfg w).stop = some .maxAttemptsGlobal
                      ∧ (view cfg w).lastClass = v.lastClass ∧ (view cfg w).lastCause = v.lastCause
                      ∧ (view cfg w).lastExc = v.lastExc⌝,
          fun e _ => ⌜e.isException = false⌝⟩⦄ := by
  have e1 := setStop_spec cfg
  have e2 := fun v k x c => emit_spec cfg v tl .maxAttemptsExceeded cfg.maxAttempts 0 k x (some .maxAttemptsGlobal) c none rfl
  mvcgen [emitMaxAttemptsExceeded, getRS, e1, e2]
  all_goals (try clear e1 e2)
  vc_simp []
  · exact h.failSync hs .maxAttemptsExceeded cfg.maxAttempts 0 .maxAttemptsGlobal (by simp) (by simp) (by simp)

theorem raiseExhaustedCall_spec (n : Nat) (v : View) (h : Running cfg false β n v) (hs : SyncE v) :
    ⦃fun w => ⌜view cfg w = v⌝⦄ raiseExhaustedCall cfg
    ⦃post⟨fun _ _ => ⌜False⌝, fun x w => ⌜x.isException = true → CallX cfg β x (view cfg w)⌝⟩⦄ := by
  have e1 := emitMaxAttemptsExceeded_spec cfg β false n v h hs
  mvcgen [raiseExhaustedCall, getRS, e1]
  all_goals (try clear e1)
  vc_simp []
  all_goals (first
    | (rename_i hh; obtain ⟨hd, hst, -, -, -⟩ := hh
       exact Or.inr (Done.final_raise' hd (by assumption)))
    | (rename_i hh; obtain ⟨hd, hst, -, -, -⟩ := hh
       exact Or.inr (Done.final_exhausted_result hd hst rfl rfl (by assumption)))
    | exact Or.inl (Or.inr (Or.inr (Or.inl rfl)))
    | skip)

abbrev runPost : PostCond Nat (.except Exn (.arg World .pure)) :=
  post⟨fun x w => ⌜Final cfg false β (.ret x) (view cfg w)⌝,
       fun x w => ⌜x.isException = true → CallX cfg β x (view cfg w)⌝⟩

theorem callLoop_spec : ∀ (fuel n : Nat) (v : View), Running cfg false β n v → SyncE v →
    ⦃fun w => ⌜view cfg w = v⌝⦄ callLoop cfg fuel (n + 1) ⦃runPost cfg β⦄ := by
  intro fuel
  induction fuel with
  | zero =>
    intro n v h hs
    have e1 := raiseExhaustedCall_spec cfg β n v h hs
    mvcgen [callLoop, e1]
    all_goals (intro hf; exact hf.elim)
  | succ f ih =>
    intro n v h hs
    have e1 := callAttempt_spec cfg β n v h
    mvcgen [callLoop, e1]
    all_goals (try clear e1)
    vc_simp []
    · rename_i s h1 h2
      exact ih (n + 1) (view cfg s) h1 h2 s rfl

theorem initState_spec (v : View) :
    ⦃fun w => ⌜view cfg w = v⌝⦄ initState
    ⦃post⟨fun _ w => ⌜view cfg w = { v with stop := none, lastClass := none, lastCause := none, lastExc := none }⌝,
          fun _ _ => ⌜False⌝⟩⦄ := by
  mvcgen [initState]
  all_goals (subst_vars; rfl)

/-- the monitor has seen no retry-level event and no classifier answer yet -/
structure Fresh (v : View) : Prop where
  ms : v.mon.ms = []
  ls : v.mon.ls = []
  tags : v.mon.tagsBad = false
  brk : brkOf v.mon = β
  klass : v.mon.klass = none
  cause : v.mon.cause = none
  rej : v.rej = false

variable {cfg β}

theorem Fresh.running {tl : Bool} {v : View} (h : Fresh β v) (htl : tl = true → v.tl = []) :
    Running cfg tl β 0 { v with stop := none, lastClass := none, lastCause := none, lastExc := none } :=
  Or.inr ⟨⟨h.tags, h.brk, h.rej, by simp⟩, rfl, [], rfl, ⟨by simp [h.ms], by simp [h.ls], by simpa using htl⟩⟩

theorem Fresh.syncE {v : View} (h : Fresh β v) :
    SyncE { v with stop := none, lastClass := none, lastCause := none, lastExc := none } :=
  Or.inr ⟨h.klass, h.cause, by simp [expErr, h.cause]⟩

variable (cfg β)

theorem runCall_spec (v : View) (hf : Fresh β v) :
    ⦃fun w => ⌜view cfg w = v⌝⦄ runCall cfg ⦃runPost cfg β⦄ := by
  have e1 := initState_spec cfg
  have e2 := callLoop_spec cfg β cfg.maxAttempts 0 _ (hf.running (tl := false) (by simp)) hf.syncE
  mvcgen [runCall, e1, e2]
  all_goals (try clear e1 e2)
  vc_simp []

end callmode
section execmode
variable (cfg : Cfg) (tl : Bool) (β : Brk)

/-- the outcome `execute()` returns is explained by the stream, whatever timeline is attached -/
def FinalO (o : Outcome) (v : View) : Prop := ∀ tl' : List TimelineEv, Final cfg tl β (.outcome o tl') v

abbrev execPost (n : Nat) : PostCond (Option Outcome) (.except Exn (.arg World .pure)) :=
  post⟨fun r w => ⌜(r = none → Running cfg tl β (n + 1) (view cfg w) ∧ SyncE (view cfg w))
                   ∧ (∀ o, r = some o → FinalO cfg tl β o (view cfg w))⌝,
       fun _ _ => ⌜True⌝⟩

theorem abortOutcome_spec (v : View) (h : RunAny cfg tl β v ∨ Done cfg tl β .aborted v) (a : Nat) :
    ⦃fun w => ⌜view cfg w = v⌝⦄ abortOutcome cfg tl a
    ⦃post⟨fun o w => ⌜FinalO cfg tl β o (view cfg w)⌝, fun e _ => ⌜e.isException = false⌝⟩⦄ := by
  have e1 := emitAbortedOnce_spec cfg tl β v h a
  have e2 := buildOutcome_spec cfg
  mvcgen [abortOutcome, e1, e2]
  all_goals (try clear e1 e2)
  vc_simp []
  · intro tl'
    exact Done.final_aborted (by assumption) (by assumption) tl'

theorem execAbortExit_spec (v : View) (h : RunAny cfg tl β v ∨ Done cfg tl β .aborted v) (a : Nat) (e : Exn) :
    ⦃fun w => ⌜view cfg w = v⌝⦄ execAbortExit cfg tl a e
    ⦃post⟨fun r w => ⌜r ≠ none ∧ ∀ o, r = some o → FinalO cfg tl β o (view cfg w)⌝, fun _ _ => ⌜True⌝⟩⦄ := by
  have e1 := handleAbortAttemptEnd_spec cfg
  have e2 := fun a => abortOutcome_spec cfg tl β v h a
  mvcgen [execAbortExit, e1, e2]
  all_goals (try clear e1 e2)
  vc_simp []

theorem checkAbortCaught_spec (v : View) (h : RunAny cfg tl β v) (a : Nat) :
    ⦃fun w => ⌜view cfg w = v⌝⦄ checkAbortCaught cfg tl a
    ⦃post⟨fun b w => ⌜(b = false → view cfg w = v) ∧
                      (b = true → (view cfg w).esc = true ∨ Done cfg tl β .aborted (view cfg w))⌝,
          fun e w => ⌜e.isException = true → (view cfg w).esc = true⌝⟩⦄ := by
  have e1 := checkAbort_any cfg β tl v h a
  mvcgen [checkAbortCaught, abortToTrue, e1]
  all_goals (try clear e1)
  vc_simp [AbX]
  all_goals (obtain hh | ⟨rfl, hh⟩ := ‹_ ∨ _› <;> simp_all [Exn.isAbort])

variable {cfg tl β}

theorem exec_abort {n : Nat} {cause : Cause} {exc : Option Exn} {o : AOutcome} {v : View}
    {r : RState} {a : Nat} {fr : Bool} (ha : After cfg tl β n cause exc o v)
    (hx : determineAction o r a fr = .abort) : Done cfg tl β .aborted v := by
  obtain ⟨h1, h2, h3, h4, h5, h6⟩ := ha
  have hd : o.decision = .aborted := by
    unfold determineAction at hx
    cases hdec : o.decision <;> cases fr <;> simp_all
  exact h5 hd

theorem exec_other {n : Nat} {cause : Cause} {exc : Option Exn} {o : AOutcome} {v : View}
    {r : RState} {a : Nat} {fr : Bool} (ha : After cfg tl β n cause exc o v)
    (h1 : determineAction o r a fr ≠ .continue_) (h2 : determineAction o r a fr ≠ .abort) :
    Done cfg tl β .failure v := by
  obtain ⟨g1, g2, g3, g4, g5, g6⟩ := ha
  unfold determineAction at h1 h2
  cases hdec : o.decision <;> simp_all

variable (cfg tl β)

theorem execExceptionPath3_spec (n : Nat) (v : View) (e : Exn) (d : Decision)
    (hp : FailPost cfg tl β n .exception (some e) d v) :
    ⦃fun w => ⌜view cfg w = v⌝⦄ execExceptionPath3 cfg tl (n + 1) e d ⦃execPost cfg tl β n⦄ := by
  have e3 := failureOutcome_spec cfg tl β n v .exception (some e) d hp
  have e4 := callAttemptEndFromOutcome_spec cfg
  have e5 := fun v h a => abortOutcome_spec cfg tl β v h a
  have e6 := buildOutcome_spec cfg
  mvcgen [execExceptionPath3, deliverExecute, getRS, modifyAS, e3, e4, e5, e6]
  all_goals (try clear e3 e4 e5 e6)
  vc_simp []
  all_goals (first
    | exact deliver_continue (by assumption) (by assumption)
    | exact Or.inr (exec_abort (by assumption) (by assumption))
    | (obtain ⟨-, ho⟩ := ‹_ ∧ OutcomeOf _ _ _›
       exact fun tl' => Done.final_fail (exec_other (by assumption) (by assumption) (by assumption)) ho tl')
    | skip)

theorem execExceptionPath2_spec (n : Nat) (v : View) (e : Exn) (h : Running cfg tl β n v)
    (hop : v.esc = true ∨ v.mon.opExn = some e) (he : e.isAbort = false ∧ e.isExhausted = false) :
    ⦃fun w => ⌜view cfg w = v⌝⦄ execExceptionPath2 cfg tl (n + 1) e ⦃execPost cfg tl β n⦄ := by
  have e1 := handleException_spec cfg tl β n v e h hop he
  have e2 := fun v d hp => execExceptionPath3_spec cfg tl β n v e d hp
  have e3 := fun v h => checkAbortCaught_spec cfg tl β v h (n + 1)
  have e4 := fun v h => execAbortExit_spec cfg tl β v h (n + 1) e
  mvcgen [execExceptionPath2, getRS, modifyAS, e1, e2, e3, e4]
  all_goals (try clear e1 e2 e3 e4)
  vc_simp []
  all_goals (first
    | exact ⟨_, FailPost.running (by assumption) (isRaise_false (by assumption))⟩
    | exact (‹_ ∨ Done cfg tl β .aborted _›).elim (fun h => Or.inr (Or.inl h)) Or.inr
    | skip)

theorem execExceptionPath_spec (n : Nat) (v : View) (e : Exn) (h : Running cfg tl β n v)
    (hop : v.esc = true ∨ v.mon.opExn = some e) (he : e.isAbort = false ∧ e.isExhausted = false) :
    ⦃fun w => ⌜view cfg w = v⌝⦄ execExceptionPath cfg tl (n + 1) e ⦃execPost cfg tl β n⦄ := by
  have e1 := checkAbortCaught_spec cfg tl β v ⟨n, h⟩ (n + 1)
  have e2 := execExceptionPath2_spec cfg tl β n v e h hop he
  have e4 := fun v h => execAbortExit_spec cfg tl β v h (n + 1) e
  mvcgen [execExceptionPath, modifyAS, e1, e2, e4]
  all_goals (try clear e1 e2 e4)
  vc_simp []
  all_goals (first
    | exact (‹_ ∨ Done cfg tl β .aborted _›).elim (fun h => Or.inr (Or.inl h)) Or.inr
    | skip)

/-- what `execHandler` may assume about an `Exception` that left the first half of an attempt -/
def PreX (n : Nat) (e : Exn) (v : View) : Prop :=
  v.esc = true ∨ (e = .libAbort ∧ Done cfg tl β .aborted v) ∨ (Running cfg tl β n v ∧ v.mon.opExn = some e)

theorem execHandler_spec (n : Nat) (e : Exn) :
    ⦃fun w => ⌜e.isException = true → PreX cfg tl β n e (view cfg w)⌝⦄ execHandler cfg tl (n + 1) e
    ⦃execPost cfg tl β n⦄ := by
  by_cases hx : e.isException = true
  · intro w hp
    have hpre := hp hx
    by_cases hab : e.isAbort = true
    · have hh : RunAny cfg tl β (view cfg w) ∨ Done cfg tl β .aborted (view cfg w) := by
        rcases hpre with h | ⟨_, h⟩ | ⟨h, _⟩
        · exact Or.inr (Or.inl h)
        · exact Or.inr h
        · exact Or.inl ⟨n, h⟩
      have e4 := execAbortExit_spec cfg tl β (view cfg w) hh (n + 1) e
      have : ⦃fun w' => ⌜view cfg w' = view cfg w⌝⦄ execHandler cfg tl (n + 1) e ⦃execPost cfg tl β n⦄ := by
        mvcgen [execHandler, e4]
        all_goals (try clear e4)
        vc_simp []
      exact this w rfl
    · have hab' : e.isAbort = false := by simpa using hab
      by_cases hex : e.isExhausted = true
      · have : ⦃fun w' => ⌜view cfg w' = view cfg w⌝⦄ execHandler cfg tl (n + 1) e ⦃execPost cfg tl β n⦄ := by
          mvcgen [execHandler]
          all_goals simp_all
        exact this w rfl
      · have hex' : e.isExhausted = false := by simpa using hex
        have hrun : Running cfg tl β n (view cfg w) ∧ ((view cfg w).esc = true ∨ (view cfg w).mon.opExn = some e) := by
          rcases hpre with h | ⟨rfl, _⟩ | ⟨h, h'⟩
          · exact ⟨Or.inl h, Or.inl h⟩
          · simp [Exn.isAbort] at hab
          · exact ⟨h, Or.inr h'⟩
        have e2 := execExceptionPath_spec cfg tl β n (view cfg w) e hrun.1 hrun.2 ⟨hab', hex'⟩
        have : ⦃fun w' => ⌜view cfg w' = view cfg w⌝⦄ execHandler cfg tl (n + 1) e ⦃execPost cfg tl β n⦄ := by
          mvcgen [execHandler, e2]
          all_goals (try clear e2)
          vc_simp []
        exact this w rfl
  · have h1 : e.isAbort = false := by
      cases hh : e.isAbort with
      | false => rfl
      | true => exact absurd (isException_of_isAbort e hh) hx
    have h2 : e.isExhausted = false := by
      cases hh : e.isExhausted with
      | false => rfl
      | true => exact absurd (isException_of_isExhausted hh) hx
    mvcgen [execHandler]
    all_goals simp_all

abbrev execResultPost (n : Nat) : PostCond (Option Outcome) (.except Exn (.arg World .pure)) :=
  post⟨fun r w => ⌜(r = none → Running cfg tl β (n + 1) (view cfg w) ∧ SyncE (view cfg w))
                   ∧ (∀ o, r = some o → FinalO cfg tl β o (view cfg w))⌝,
       fun e w => ⌜e.isException = true → MidX cfg tl β e (view cfg w)⌝⟩

theorem execResultFailure_spec (n : Nat) (v : View) (x : Nat) (c : Classification)
    (h : Running cfg tl β n v) (hh : Heard c.klass .result none v) :
    ⦃fun w => ⌜view cfg w = v⌝⦄ execResultFailure cfg tl (n + 1) x c ⦃execResultPost cfg tl β n⦄ := by
  have e1 := fun v h => checkAbort_any cfg β tl v h (n + 1)
  have e2 := handleFailure_spec cfg tl β n v c .result none (some x) h hh (by simp) (by simp)
  have e3 := fun v d hp => failureOutcome_spec cfg tl β n v .result none d hp
  have e4 := callAttemptEndFromOutcome_spec cfg
  have e5 := fun v h a => abortOutcome_spec cfg tl β v h a
  have e6 := buildOutcome_spec cfg
  mvcgen [execResultFailure, deliverExecute, getRS, modifyAS, e1, e2, e3, e4, e5, e6]
  all_goals (try clear e1 e2 e3 e4 e5 e6)
  vc_simp []
  all_goals (first
    | exact ⟨_, h⟩
    | exact MidX.of_ab (by assumption)
    | exact deliver_continue (by assumption) (by assumption)
    | exact Or.inr (exec_abort (by assumption) (by assumption))
    | exact ⟨_, FailPost.running (by assumption) (isRaise_false (by assumption))⟩
    | (obtain ⟨-, ho⟩ := ‹_ ∧ OutcomeOf _ _ _›
       exact fun tl' => Done.final_fail (exec_other (by assumption) (by assumption) (by assumption)) ho tl')
    | skip)

theorem execResultPath_spec (n : Nat) (v : View) (x : Nat) (h : Running cfg tl β n v) :
    ⦃fun w => ⌜view cfg w = v⌝⦄ execResultPath cfg tl (n + 1) x ⦃execResultPost cfg tl β n⦄ := by
  have e1 := shouldClassifyResult_spec cfg
  have e2 := fun v h => handleSuccessAttemptEnd_spec cfg β tl n v h (n + 1) x
  have e3 := fun (c : Classification) => execResultFailure_spec cfg tl β n (v.classified c.klass .result) x c
    (Running_classified.mpr h) (Heard.classifiedResult c.klass)
  have e6 := buildOutcome_spec cfg
  mvcgen [execResultPath, e1, e2, e3, e6]
  all_goals (try clear e1 e2 e3 e6)
  vc_simp []
  all_goals (first
    | exact MidX.raised h
    | (obtain ⟨-, ho⟩ := ‹_ ∧ OutcomeOf _ _ _›
       exact fun tl' => Done.final_ok (by assumption) ho tl')
    | skip)

theorem execReturnedHandler_spec (n : Nat) (e : Exn) :
    ⦃fun w => ⌜e.isException = true → MidX cfg tl β e (view cfg w)⌝⦄ execReturnedHandler cfg tl (n + 1) e
    ⦃execPost cfg tl β n⦄ := by
  by_cases hab : e.isAbort = true
  · intro w hp
    have hh : RunAny cfg tl β (view cfg w) ∨ Done cfg tl β .aborted (view cfg w) := by
      rcases hp (isException_of_isAbort e hab) with h | ⟨h, _⟩ | ⟨_, h⟩
      · exact Or.inr (Or.inl h)
      · exact Or.inl h
      · exact Or.inr h
    have e4 := execAbortExit_spec cfg tl β (view cfg w) hh (n + 1) e
    have : ⦃fun w' => ⌜view cfg w' = view cfg w⌝⦄ execReturnedHandler cfg tl (n + 1) e ⦃execPost cfg tl β n⦄ := by
      mvcgen [execReturnedHandler, e4]
      all_goals (try clear e4)
      vc_simp []
    exact this w rfl
  · mvcgen [execReturnedHandler]
    all_goals simp_all

@[simp] theorem view_frame (w : World) (a : AState) (n oc : Nat) (bud : Budget.St) (br : Breaker.St) (xc : XCtx) :
    view cfg { w with as := a, attempts := n, opCalls := oc, budget := bud, breaker := br, xc := xc } = view cfg w := rfl

theorem execPre_spec (n : Nat) (v : View) (h : Running cfg tl β n v) :
    ⦃fun w => ⌜view cfg w = v⌝⦄ execPre cfg tl (n + 1)
    ⦃post⟨fun _ w => ⌜view cfg w = v.opDone none⌝,
          fun e w => ⌜e.isException = true → PreX cfg tl β n e (view cfg w)⌝⟩⦄ := by
  have e1 := checkAbort_spec cfg tl β n v h n
  have e2 := callAttemptStart_spec cfg
  have e3 := invokeOp_spec cfg
  mvcgen [execPre, modifyAS, e1, e2, e3]
  all_goals (try clear e1 e2 e3)
  vc_simp [PreX, AbX]
  all_goals (first
    | exact Or.inr (Or.inr ⟨Running_opDone.mpr h, rfl⟩)
    | exact Or.inr (Or.inr rfl)
    | exact (‹_ ∨ _›).elim Or.inl (fun h => Or.inr (Or.inl h))
    | skip)

theorem execAttempt_spec (n : Nat) (v : View) (h : Running cfg tl β n v) :
    ⦃fun w => ⌜view cfg w = v⌝⦄ execAttempt cfg tl (n + 1) ⦃execPost cfg tl β n⦄ := by
  have e1 := execPre_spec cfg tl β n v h
  have e2 := execHandler_spec cfg tl β n
  have e3 := fun x => execResultPath_spec cfg tl β n (v.opDone none) x (Running_opDone.mpr h)
  have e4 := execReturnedHandler_spec cfg tl β n
  mvcgen [execAttempt, e1, e2, e3, e4]
  all_goals (try clear e1 e2 e3 e4)
  vc_simp []

theorem buildExhaustedOutcome_spec (n : Nat) (v : View) (h : Running cfg tl β n v) (hs : SyncE v) :
    ⦃fun w => ⌜view cfg w = v⌝⦄ buildExhaustedOutcome cfg tl
    ⦃post⟨fun o w => ⌜FinalO cfg tl β o (view cfg w)⌝, fun _ _ => ⌜True⌝⟩⦄ := by
  have e1 := emitMaxAttemptsExceeded_spec cfg β tl n v h hs
  have e2 := buildOutcome_spec cfg
  mvcgen [buildExhaustedOutcome, e1, e2]
  all_goals (try clear e1 e2)
  vc_simp []
  all_goals (first
    | (obtain ⟨hd, -⟩ := ‹Done cfg tl β .failure _ ∧ _›
       exact fun tl' => Done.final_fail hd (by assumption) tl')
    | skip)

abbrev execRunPost : PostCond Outcome (.except Exn (.arg World .pure)) :=
  post⟨fun o w => ⌜FinalO cfg tl β o (view cfg w)⌝, fun _ _ => ⌜True⌝⟩

theorem execLoop_spec : ∀ (fuel n : Nat) (v : View), Running cfg tl β n v → SyncE v →
    ⦃fun w => ⌜view cfg w = v⌝⦄ execLoop cfg tl fuel (n + 1) ⦃execRunPost cfg tl β⦄ := by
  intro fuel
  induction fuel with
  | zero =>
    intro n v h hs
    have e1 := buildExhaustedOutcome_spec cfg tl β n v h hs
    mvcgen [execLoop, e1]
  | succ f ih =>
    intro n v h hs
    have e1 := execAttempt_spec cfg tl β n v h
    mvcgen [execLoop, e1]
    all_goals (try clear e1)
    vc_simp []
    · rename_i s h1 h2
      exact ih (n + 1) (view cfg s) h1 h2 s rfl

theorem runExecute_spec (v : View) (hf : Fresh β v) :
    ⦃fun w => ⌜view cfg w = v⌝⦄ runExecute cfg ⦃execRunPost cfg cfg.timeline β⦄ := by
  have e1 := initState_spec cfg
  have hf' : Fresh β { v with tl := [] } := ⟨hf.ms, hf.ls, hf.tags, hf.brk, hf.klass, hf.cause, hf.rej⟩
  have e2 := execLoop_spec cfg cfg.timeline β cfg.maxAttempts 0 _
    (hf'.running (cfg := cfg) (tl := cfg.timeline) (by simp)) hf'.syncE
  mvcgen [runExecute, e1, e2]
  all_goals (try clear e1 e2)
  vc_simp []
  all_goals (simp [view])

end execmode
section assembly

theorem retries_proj : ∀ {n : Nat} {G : List EvRec}, Retries n G → Retries n (G.map proj)
  | 0, _, h => by simp_all [Retries]
  | n + 1, _, ⟨x, R, hG, h1, h2, hR⟩ => ⟨proj x, R.map proj, by simp [hG], h1, h2, retries_proj hR⟩

theorem shapeOk_append : ∀ {n : Nat} {G : List EvRec}, Retries n G → ∀ (y : EvRec) (rest : List EvRec),
    shapeOk (G.reverse ++ y :: rest) 1 = shapeOk (y :: rest) (n + 1)
  | 0, _, h, y, rest => by simp_all [Retries]
  | n + 1, _, ⟨x, R, hG, h1, h2, hR⟩, y, rest => by
    subst hG
    rw [List.reverse_cons, List.append_assoc, List.singleton_append, shapeOk_append hR x (y :: rest)]
    simp [shapeOk, h1, h2]

theorem shapeOk_done {n : Nat} {G : List EvRec} {t : EvRec} (h : Retries n G) (ht : t.1 ≠ .retry) :
    shapeOk (t :: G).reverse 1 = true := by
  rw [List.reverse_cons, shapeOk_append h t []]
  simp [shapeOk, ht]

theorem terminalOk_proj {t : EvRec} {r : Res} (h : terminalOk true t r = true) : terminalOk false (proj t) r = true := by
  unfold terminalOk at *
  cases r with
  | ret v => simpa [proj] using h
  | outcome o tl =>
    simp only [proj, projTags] at *
    split <;> simp_all
    rcases h.2 with h' | h'
    · exact Or.inl h'
    · exact Or.inr h'.1
  | raised x => cases x <;> simp_all [proj, projTags]

/-- the breaker part is quiet: nothing announced is still unreported -/
abbrev quiet : Brk := (none, none, false)

/-- how the result's timeline relates to the view's, by entry point -/
def TlLink (cfg : Cfg) (e : Entry) (r : Res) (tlf : Bool) (v : View) : Prop :=
  timelineOf cfg e r = if tlf then some v.tl.reverse else none

theorem four_of_final {cfg : Cfg} {e : Entry} {r : Res} {tlf : Bool} {v : View}
    (hf : Final cfg tlf quiet r v) (hesc : v.esc = false) (hl : TlLink cfg e r tlf v) :
    streamShape cfg e v.mon r = true ∧ terminalTags cfg e v.mon r = true ∧ sinksAgree cfg e v.mon r = true
    ∧ breakerEventsShape v.mon = true ∧ v.rej = false := by
  rcases hf with hf | ⟨h1, h2, h3, t, n, G, hne, hG, ag, ht⟩
  · simp [hesc] at hf
  have hms := ag.ms
  have hls := ag.ls
  have htl := ag.tl
  have hshape := shapeOk_done hG hne
  have hshape' := shapeOk_done (retries_proj hG) (t := proj t) (by simpa [proj] using hne)
  have hbrk : v.mon.bm = none ∧ v.mon.bl = none ∧ v.mon.brkBad = false := by
    simpa [brkOf, quiet] using h2
  refine ⟨?_, ?_, ?_, ?_, h3⟩
  · -- stream shape
    unfold streamShape
    rw [hl]
    cases hm : cfg.metric <;> cases hlg : cfg.log <;> cases tlf <;>
      simp_all
  · unfold terminalTags
    rw [hl]
    cases hm : cfg.metric <;> cases hlg : cfg.log <;> cases tlf <;>
      simp_all [lastOk, terminalOk_proj ht]
  · unfold sinksAgree
    rw [hl]
    cases hm : cfg.metric <;> cases hlg : cfg.log <;> cases tlf <;> simp_all
  · simp [breakerEventsShape, hbrk]

theorem hookFault_reverse (t : List (Req × Ans)) : Mon.attemptHookFault t.reverse = Mon.attemptHookFault t := by
  simp [Mon.attemptHookFault]

theorem rejected_reverse (t : List (Req × Ans)) : Mon.rejected t.reverse = Mon.rejected t := by
  simp [Mon.rejected]

theorem mem_nz_raisedBy (cfg : Cfg) (w : World) (x : Exn) (h : x ∈ (view cfg w).nz) :
    Mon.raisedBy isNonOp w.trace x = true := by
  rw [raisedBy_iff]
  simp only [view, raisedOf, List.mem_filterMap] at h ⊢
  obtain ⟨a, ha, hx⟩ := h
  refine ⟨a, ha, ?_⟩
  split at hx
  · rename_i hl; simp [isNonOp_of_loud _ hl, hx]
  · cases hx

theorem mem_oz_raisedBy (cfg : Cfg) (w : World) (x : Exn) (h : x ∈ (view cfg w).oz) :
    Mon.raisedBy Mon.isOp w.trace x = true := by
  rw [raisedBy_iff]; exact h

/-- when the guard accepts a raised result, the exception is an `Exception` and none of the excuses applies -/
theorem guard_raised (cfg : Cfg) (w : World) (e : Entry) (x : Exn)
    (hn : endsNormally e w.trace.reverse (.raised x) = true)
    (hh : Mon.attemptHookFault w.trace.reverse = false) :
    x.isException = true ∧ ¬ Excused x (view cfg w) ∧ e.isExecute = false := by
  simp only [endsNormally, raisedBy_reverse, rejected_reverse, Bool.and_eq_true,
    Bool.not_eq_eq_eq_not, Bool.not_true] at hn
  obtain ⟨⟨he, hnz⟩, hk⟩ := hn
  rw [hookFault_reverse] at hh
  refine ⟨?_, ?_, he⟩
  · cases x <;> simp_all [Exn.isException]
  · rintro (h | h | h | ⟨h1, h2⟩)
    · simp [view, hh] at h
    · rw [mem_nz_raisedBy cfg w x h] at hnz; cases hnz
    · cases x <;> simp_all [badKind]
    · have := mem_oz_raisedBy cfg w x h2
      cases x <;> simp_all [Exn.isExhausted]

/-- what the monitor asserts about one call -/
def Holds (cfg : Cfg) (e : Entry) (t : Trace) (r : Res) : Prop :=
  guard cfg e t r = true →
    (Mon.rejected t = false →
      streamShape cfg e (run cfg t) r = true ∧ terminalTags cfg e (run cfg t) r = true
      ∧ sinksAgree cfg e (run cfg t) r = true ∧ breakerEventsShape (run cfg t) = true)
    ∧ (Mon.rejected t = true → noRetryEvents cfg e (run cfg t) r = true ∧ breakerEventsShape (run cfg t) = true)

theorem Holds.ok {cfg : Cfg} {e : Entry} {t : Trace} {r : Res} (h : Holds cfg e t r) :
    Mon.C14.ok cfg e t r = true := by
  unfold Mon.C14.ok
  split
  · rename_i hg
    obtain ⟨h1, h2⟩ := h hg
    unfold verdict
    cases hr : Mon.rejected t
    · simp [h1 hr]
    · simp [h2 hr]
  · rfl

theorem guard_esc {cfg : Cfg} {e : Entry} {w : World} {r : Res} (hg : guard cfg e w.trace.reverse r = true) :
    (view cfg w).esc = false := by
  simp only [Mon.C14.guard, Bool.and_eq_true, Bool.not_eq_true', hookFault_reverse] at hg
  exact hg.2

theorem guard_normal {cfg : Cfg} {e : Entry} {t : Trace} {r : Res} (hg : guard cfg e t r = true) :
    endsNormally e t r = true ∧ Mon.attemptHookFault t = false ∧ hasLoop cfg e = true := by
  simp only [Mon.C14.guard, Bool.and_eq_true, Bool.not_eq_true'] at hg
  exact ⟨hg.1.2, hg.2, hg.1.1⟩

theorem holds_of_final {cfg : Cfg} {e : Entry} {r : Res} {tlf : Bool} {w : World}
    (h : guard cfg e w.trace.reverse r = true →
      Final cfg tlf quiet r (view cfg w) ∧ TlLink cfg e r tlf (view cfg w)) :
    Holds cfg e w.trace.reverse r := by
  intro hg
  obtain ⟨hf, hl⟩ := h hg
  have h4 := four_of_final hf (guard_esc hg) hl
  have hrej : Mon.rejected w.trace.reverse = false := by
    rw [rejected_reverse]; exact h4.2.2.2.2
  rw [run_reverse]
  exact ⟨fun _ => ⟨h4.1, h4.2.1, h4.2.2.1, h4.2.2.2.1⟩, fun h => by rw [hrej] at h; cases h⟩

/-- the world `runEntry` starts a call from -/
def startWorld (w : World) : World := { w with trace := [], timeline := [], opCalls := 0 }

theorem fresh_start (cfg : Cfg) (w : World) : Fresh quiet (view cfg (startWorld w)) :=
  ⟨rfl, rfl, rfl, rfl, rfl, rfl, rfl⟩

theorem tlLink_call (cfg : Cfg) (e : Entry) (r : Res) (v : View) (he : e.isExecute = false) :
    TlLink cfg e r false v := by
  unfold TlLink timelineOf
  cases r <;> simp [he]

theorem call_holds (cfg : Cfg) (w : World) :
    Holds cfg .call (runEntry cfg .call w).2.trace.reverse (runEntry cfg .call w).1 := by
  have := adequacy (runCall_spec cfg quiet _ (fresh_start cfg w)) (startWorld w) rfl
  simp only [runEntry, startWorld] at this ⊢
  split at this <;> rename_i heq <;> simp only [heq, toRes]
  · exact holds_of_final (tlf := false) (fun _ => ⟨this, tlLink_call _ _ _ _ rfl⟩)
  · refine holds_of_final (tlf := false) (fun hg => ⟨?_, tlLink_call _ _ _ _ rfl⟩)
    obtain ⟨hn, hh, _⟩ := guard_normal hg
    obtain ⟨hx, hne, _⟩ := guard_raised cfg _ _ _ hn hh
    exact (this hx).resolve_left hne

theorem holds_of_not_guard {cfg : Cfg} {e : Entry} {t : Trace} {r : Res} (h : Mon.C14.guard cfg e t r = false) :
    Holds cfg e t r := by
  intro hg; rw [h] at hg; cases hg

theorem guard_execute_raised (cfg : Cfg) (e : Entry) (t : Trace) (x : Exn) (he : e.isExecute = true) :
    Mon.C14.guard cfg e t (.raised x) = false := by
  simp [Mon.C14.guard, endsNormally, he]

theorem tlLink_execute (cfg : Cfg) (e : Entry) (o : Outcome) (w : World) (tlf : Bool) (he : e.isExecute = true)
    (ht : tlf = cfg.timeline) :
    TlLink cfg e (.outcome o (if tlf then w.timeline.reverse else [])) tlf (view cfg w) := by
  subst ht
  unfold TlLink timelineOf
  cases h : cfg.timeline <;> simp [he, view, List.map_reverse]

theorem execute_holds (cfg : Cfg) (w : World) :
    Holds cfg .execute (runEntry cfg .execute w).2.trace.reverse (runEntry cfg .execute w).1 := by
  have := adequacy (runExecute_spec cfg quiet _ (fresh_start cfg w)) (startWorld w) rfl
  simp only [runEntry, startWorld] at this ⊢
  split at this <;> rename_i heq <;> simp only [heq, toResO]
  · exact holds_of_final (tlf := cfg.timeline) (fun _ => ⟨this _, tlLink_execute _ _ _ _ _ rfl rfl⟩)
  · exact holds_of_not_guard (guard_execute_raised _ _ _ _ rfl)

end assembly
open Redress.Policy

section bookkeeping
variable (cfg : Cfg)

/-- logging an exchange with an embedded component (or anything else that leaves `rs` and the timeline alone) -/
theorem view_log2 (w : World) (r : Req) (a : Ans) (ans : List Ans) (now : Nat) (as : AState) (att oc : Nat)
    (bud : Budget.St) (br : Breaker.St) (xc : XCtx) :
    view cfg { w with answers := ans, now := now, trace := (r, a) :: w.trace, as := as, attempts := att,
                      opCalls := oc, budget := bud, breaker := br, xc := xc } = obs cfg (view cfg w) r a := by
  simp [view, obs, attemptHookFault_cons, rejected_cons, raisedOf_cons]

/-- `v'` arises from `v` by the policy wrapper's bookkeeping: breaker interactions and their events,
    a second classifier call; nothing the retry-level stream or the guard's facts depend on is lost -/
structure Bk (v v' : View) : Prop where
  ms : v'.mon.ms = v.mon.ms
  ls : v'.mon.ls = v.mon.ls
  tags : v'.mon.tagsBad = v.mon.tagsBad
  brk : brkOf v.mon = quiet → brkOf v'.mon = quiet
  tl : v'.tl = v.tl
  stop : v'.stop = v.stop
  lastClass : v'.lastClass = v.lastClass
  lastCause : v'.lastCause = v.lastCause
  lastExc : v'.lastExc = v.lastExc
  esc : v'.esc = v.esc
  rej : v'.rej = v.rej
  nz : ∀ x, x ∈ v.nz → x ∈ v'.nz
  oz : ∀ x, x ∈ v.oz → x ∈ v'.oz

theorem Bk.refl (v : View) : Bk v v := ⟨rfl, rfl, rfl, id, rfl, rfl, rfl, rfl, rfl, rfl, rfl, fun _ h => h, fun _ h => h⟩

theorem Bk.trans {v1 v2 v3 : View} (h1 : Bk v1 v2) (h2 : Bk v2 v3) : Bk v1 v3 :=
  ⟨h2.ms.trans h1.ms, h2.ls.trans h1.ls, h2.tags.trans h1.tags, fun h => h2.brk (h1.brk h), h2.tl.trans h1.tl,
   h2.stop.trans h1.stop, h2.lastClass.trans h1.lastClass, h2.lastCause.trans h1.lastCause,
   h2.lastExc.trans h1.lastExc, h2.esc.trans h1.esc, h2.rej.trans h1.rej,
   fun x h => h2.nz x (h1.nz x h), fun x h => h2.oz x (h1.oz x h)⟩

variable {cfg}

theorem Final.bk {tlf : Bool} {r : Res} {v v' : View} (h : Bk v v') (f : Final cfg tlf quiet r v) :
    Final cfg tlf quiet r v' := by
  rcases f with f | ⟨h1, h2, h3, t, n, G, hr, hG, ag, ht⟩
  · exact Or.inl (h.esc ▸ f)
  · exact Or.inr ⟨h.tags ▸ h1, h.brk h2, h.rej ▸ h3, t, n, G, hr, hG,
      ⟨h.ms ▸ ag.ms, h.ls ▸ ag.ls, by rw [h.tl]; exact ag.tl⟩, ht⟩

theorem Excused.bk {x : Exn} {v v' : View} (h : Bk v v') (f : Excused x v) : Excused x v' := by
  rcases f with f | f | f | ⟨f1, f2⟩
  · exact Or.inl (h.esc ▸ f)
  · exact Or.inr (Or.inl (h.nz x f))
  · exact Or.inr (Or.inr (Or.inl f))
  · exact Or.inr (Or.inr (Or.inr ⟨f1, h.oz x f2⟩))

theorem CallX.bk {x : Exn} {v v' : View} (h : Bk v v') (f : CallX cfg quiet x v) : CallX cfg quiet x v' :=
  f.elim (fun f => Or.inl (f.bk h)) (fun f => Or.inr (f.bk h))

theorem FinalO.bk {tlf : Bool} {o : Outcome} {v v' : View} (h : Bk v v') (f : FinalO cfg tlf quiet o v) :
    FinalO cfg tlf quiet o v' := fun tl' => (f tl').bk h

/-- what reporting a breaker event does to the monitor state -/
def brkEmit (cfg : Cfg) (s : St) (ev : Event) (st : CState) (k : Option EClass) : St :=
  let tags : Tags := { state := some st, klass := k, operation := cfg.opTag }
  let s1 := if cfg.metric then onMetric cfg s ev 0 0 tags else s
  if cfg.log then onLog cfg s1 ev 0 0 tags else s1

/-- the monitor state after a breaker interaction announcing `ev` and the report of `ev` -/
def brkPair (cfg : Cfg) (s : St) (ev : Option Event) (st : CState) (k : Option EClass) : St :=
  match ev with
  | none => s
  | some e => brkEmit cfg (expect cfg s (e, st, k)) e st k

theorem brkPair_bk (v : View) (ev : Option Event) (st : CState) (k : Option EClass)
    (hb : ∀ e, ev = some e → isBreakerEvent e = true) :
    Bk v { v with mon := brkPair cfg v.mon ev st k } := by
  cases ev with
  | none => exact Bk.refl v
  | some e =>
    have he := hb e rfl
    constructor <;> try rfl
    all_goals (cases hm : cfg.metric <;> cases hl : cfg.log <;>
      simp_all [brkPair, brkEmit, expect, onMetric, onLog, brkOf, brkTagsOk, quiet])
    all_goals (try (intro h; exact h))

variable (cfg)

theorem emitBreakerEvent_spec (v : View) (ev : Option Event) (st : CState) (k : Option EClass) :
    ⦃fun w => ⌜view cfg w = v⌝⦄ emitBreakerEvent cfg ev st k
    ⦃post⟨fun _ w => ⌜view cfg w = { v with mon := match ev with
                                                   | none => v.mon
                                                   | some e => brkEmit cfg v.mon e st k }⌝,
          fun e _ => ⌜e.isException = false⌝⟩⦄ := by
  have e1 := askMetric_spec cfg
  have e2 := askLog_spec cfg
  mvcgen [emitBreakerEvent, swallowException, e1, e2]
  all_goals (try clear e1 e2)
  vc_simp [brkEmit]

theorem allow_event (bc : Breaker.Cfg) (s : Breaker.St) (now : Nat) (e : Event)
    (h : (Breaker.allow bc s now).1.2.2 = some e) : isBreakerEvent e = true := by
  unfold Breaker.allow at h
  cases hs : s.state <;> simp only [hs] at h
  · simp at h
  · split at h <;> simp at h <;> subst h <;> rfl
  · split at h <;> simp at h <;> subst h <;> rfl

theorem recordSuccess_event (s : Breaker.St) (e : Event) (h : (Breaker.recordSuccess s).1 = some e) :
    isBreakerEvent e = true := by
  unfold Breaker.recordSuccess at h
  cases hs : s.state <;> simp [hs] at h <;> subst h <;> rfl

theorem recordFailure_event (bc : Breaker.Cfg) (s : Breaker.St) (k : EClass) (now : Nat) (e : Event)
    (h : (Breaker.recordFailure bc s k now).1 = some e) : isBreakerEvent e = true := by
  unfold Breaker.recordFailure at h
  cases hs : s.state <;> simp only [hs] at h
  · split at h
    · split at h <;> simp at h
      subst h; rfl
    · simp at h
  · simp at h
  · simp at h; subst h; rfl

@[simp] theorem obs_breakerSuccess (v : View) (ev : Option Event) (st : CState) :
    obs cfg v .breakerSuccess (.recorded ev st) =
      { v with mon := match ev with | some e => expect cfg v.mon (e, st, none) | none => v.mon } := by
  cases ev <;> simp [obs, step, loud, isReject, Mon.isOp, Mon.isAttemptHook, raisedExn]

@[simp] theorem obs_breakerFailure (v : View) (k : EClass) (ev : Option Event) (st : CState) :
    obs cfg v (.breakerFailure k) (.recorded ev st) =
      { v with mon := match ev with | some e => expect cfg v.mon (e, st, some k) | none => v.mon } := by
  cases ev <;> simp [obs, step, loud, isReject, Mon.isOp, Mon.isAttemptHook, raisedExn]

@[simp] theorem obs_breakerCancel (v : View) (ev : Option Event) (st : CState) :
    obs cfg v .breakerCancel (.recorded ev st) = v := by
  simp [obs, step, loud, isReject, Mon.isOp, Mon.isAttemptHook, raisedExn]

@[simp] theorem obs_breakerAllow (v : View) (b : Bool) (ev : Option Event) (st : CState) :
    obs cfg v .breakerAllow (.admit b st ev) =
      { v with mon := (match ev with | some e => expect cfg v.mon (e, st, none) | none => v.mon),
               rej := !b || v.rej } := by
  cases ev <;> cases b <;> simp [obs, step, loud, isReject, Mon.isOp, Mon.isAttemptHook, raisedExn]

theorem bk_of_pair (v : View) (ev : Option Event) (st : CState) (k : Option EClass) :
    (∀ e, ev = some e → isBreakerEvent e = true) →
    Bk v { v with mon := match ev with
                         | none => (match ev with | some e => expect cfg v.mon (e, st, k) | none => v.mon)
                         | some e => brkEmit cfg (match ev with
                                                  | some e => expect cfg v.mon (e, st, k)
                                                  | none => v.mon) e st k } := by
  intro hb
  cases ev with
  | none => exact Bk.refl v
  | some e => exact brkPair_bk (cfg := cfg) v (some e) st k hb

abbrev bkPost (v : View) : PostCond α (.except Exn (.arg World .pure)) :=
  post⟨fun _ w => ⌜Bk v (view cfg w)⌝, fun e _ => ⌜e.isException = false⌝⟩

theorem recordSuccess_spec (v : View) :
    ⦃fun w => ⌜view cfg w = v⌝⦄ Policy.recordSuccess cfg ⦃bkPost cfg v⦄ := by
  have e1 := emitBreakerEvent_spec cfg
  mvcgen [Policy.recordSuccess, e1]
  all_goals (try clear e1)
  all_goals (try subst_vars)
  all_goals (try simp_all only [view_log2, obs_breakerSuccess])
  · exact Bk.refl _
  · exact fun _ => bk_of_pair cfg _ _ _ _ (fun e h => recordSuccess_event _ e h)

theorem recordFailure_spec' (v : View) (k : EClass) :
    ⦃fun w => ⌜view cfg w = v⌝⦄ Policy.recordFailure cfg k ⦃bkPost cfg v⦄ := by
  have e1 := emitBreakerEvent_spec cfg
  mvcgen [Policy.recordFailure, e1]
  all_goals (try clear e1)
  all_goals (try subst_vars)
  all_goals (try simp_all only [view_log2, obs_breakerFailure])
  · exact Bk.refl _
  · exact fun _ => bk_of_pair cfg _ _ _ _ (fun e h => recordFailure_event _ _ _ _ e h)

theorem recordCancel_spec (v : View) :
    ⦃fun w => ⌜view cfg w = v⌝⦄ Policy.recordCancel cfg
    ⦃post⟨fun _ w => ⌜view cfg w = v⌝, fun _ _ => ⌜False⌝⟩⦄ := by
  mvcgen [Policy.recordCancel]
  all_goals (try subst_vars)
  all_goals (try simp_all only [view_log2, obs_breakerCancel])

theorem ensureSettled_spec (v : View) :
    ⦃fun w => ⌜view cfg w = v⌝⦄ ensureSettled cfg
    ⦃post⟨fun _ w => ⌜view cfg w = v⌝, fun _ _ => ⌜False⌝⟩⦄ := by
  have e1 := recordCancel_spec cfg
  mvcgen [ensureSettled, e1]

theorem initCtx_spec (v : View) :
    ⦃fun w => ⌜view cfg w = v⌝⦄ initCtx
    ⦃post⟨fun _ w => ⌜view cfg w = v⌝, fun _ _ => ⌜False⌝⟩⦄ := by
  mvcgen [initCtx]
  all_goals (subst_vars; rfl)

theorem breakerAllow_spec (v : View) (bc : Breaker.Cfg) :
    ⦃fun w => ⌜view cfg w = v⌝⦄ breakerAllow bc
    ⦃post⟨fun d w => ⌜view cfg w = obs cfg v .breakerAllow (.admit d.1 d.2.1 d.2.2)
                      ∧ ∀ e, d.2.2 = some e → isBreakerEvent e = true⌝, fun _ _ => ⌜False⌝⟩⦄ := by
  mvcgen [breakerAllow]
  all_goals (try subst_vars)
  all_goals (try simp only [view_log2])
  all_goals (exact ⟨trivial, fun e h => allow_event _ _ _ e h⟩)

/-- the breaker rejected the call: nothing at retry level happened, and the rejection was reported -/
structure RejectedV (v : View) : Prop where
  rej : v.rej = true
  ms : v.mon.ms = []
  ls : v.mon.ls = []
  brk : brkOf v.mon = quiet
  tl : v.tl = []

/-- nothing at retry level has happened yet (before / without admission) -/
structure Idle (v : View) : Prop where
  fresh : Fresh quiet v
  tl : v.tl = []

theorem Idle.bk {v v' : View} (h : Bk v v') (i : Idle v) (hk : v'.mon.klass = none ∧ v'.mon.cause = none) : Idle v' :=
  ⟨⟨h.ms ▸ i.fresh.ms, h.ls ▸ i.fresh.ls, h.tags ▸ i.fresh.tags, h.brk i.fresh.brk, hk.1, hk.2, h.rej ▸ i.fresh.rej⟩,
   h.tl ▸ i.tl⟩

theorem pair_klass (s : St) (ev : Option Event) (st : CState) (k : Option EClass) :
    (match ev with
     | none => (match ev with | some e => expect cfg s (e, st, k) | none => s)
     | some e => brkEmit cfg (match ev with
                              | some e => expect cfg s (e, st, k)
                              | none => s) e st k).klass = s.klass ∧
    (match ev with
     | none => (match ev with | some e => expect cfg s (e, st, k) | none => s)
     | some e => brkEmit cfg (match ev with
                              | some e => expect cfg s (e, st, k)
                              | none => s) e st k).cause = s.cause := by
  cases ev with
  | none => exact ⟨rfl, rfl⟩
  | some e =>
    cases hm : cfg.metric <;> cases hl : cfg.log <;> cases hb : isBreakerEvent e <;>
      simp [brkEmit, expect, onMetric, onLog, hm, hl, hb]

theorem pair_idle (v : View) (hi : Idle v) (ev : Option Event) (st : CState) (k : Option EClass) (r : Bool) :
    (∀ e, ev = some e → isBreakerEvent e = true) →
    (r = v.rej → Idle { v with mon := match ev with
                         | none => (match ev with | some e => expect cfg v.mon (e, st, k) | none => v.mon)
                         | some e => brkEmit cfg (match ev with
                                                  | some e => expect cfg v.mon (e, st, k)
                                                  | none => v.mon) e st k, rej := r }) ∧
    (r = true → RejectedV { v with mon := match ev with
                         | none => (match ev with | some e => expect cfg v.mon (e, st, k) | none => v.mon)
                         | some e => brkEmit cfg (match ev with
                                                  | some e => expect cfg v.mon (e, st, k)
                                                  | none => v.mon) e st k, rej := r }) := by
  intro hb
  have hbk := bk_of_pair cfg v ev st k hb
  have hk := pair_klass cfg v.mon ev st k
  constructor
  · intro hr
    subst hr
    exact hi.bk hbk ⟨hk.1.trans hi.fresh.klass, hk.2.trans hi.fresh.cause⟩
  · intro hr
    subst hr
    exact ⟨rfl, hbk.ms.trans hi.fresh.ms, hbk.ls.trans hi.fresh.ls, hbk.brk hi.fresh.brk, hi.tl⟩

theorem checkBreaker_spec (v : View) (hi : Idle v) :
    ⦃fun w => ⌜view cfg w = v⌝⦄ checkBreaker cfg
    ⦃post⟨fun _ w => ⌜Idle (view cfg w)⌝,
          fun x w => ⌜x.isException = true → (∃ st, x = .libCircuitOpen st) ∧ RejectedV (view cfg w)⌝⟩⦄ := by
  have e1 := breakerAllow_spec cfg
  have e2 := emitBreakerEvent_spec cfg
  mvcgen [checkBreaker, e1, e2]
  all_goals (try clear e1 e2)
  all_goals (try subst_vars)
  all_goals (try simp_all only [obs_breakerAllow])
  all_goals (first
    | exact hi
    | exact (pair_idle cfg _ hi _ _ _ _ (‹_ ∧ ∀ (e : Event), _›).2).1 (by simp)
    | exact fun _ => ⟨⟨_, rfl⟩, (pair_idle cfg _ hi _ _ _ _ (‹_ ∧ ∀ (e : Event), _›).2).2 (by simp)⟩
    | (simp_all; done))

variable {cfg}

@[simp] theorem Excused_classified {x : Exn} {v : View} {k : EClass} {c : Cause} :
    Excused x (v.classified k c) ↔ Excused x v := by
  simp [Excused, View.classified]

@[simp] theorem CallX_classified {x : Exn} {v : View} {k : EClass} {c : Cause} :
    CallX cfg quiet x (v.classified k c) ↔ CallX cfg quiet x v := by
  simp [CallX]

theorem bk_classified (v : View) (k : EClass) (c : Cause) : Bk v (v.classified k c) := by
  constructor <;> simp [View.classified, brkOf]

theorem bk_raised (v : View) (e : Exn) : Bk v (v.raised e false) := by
  constructor <;> simp [View.raised, brkOf]
  intro x hx; exact Or.inr hx

variable (cfg)

/-- `_handle_exception_call` for a policy with a retry component: classify once more, record the failure -/
theorem handleExceptionCall_spec (hret : cfg.hasRetry = true) (v : View) (e : Exn) (onEnd : Bool) :
    ⦃fun w => ⌜view cfg w = v⌝⦄ handleExceptionCall cfg e onEnd
    ⦃post⟨fun _ w => ⌜Bk v (view cfg w)⌝,
          fun x w => ⌜x.isException = true → Bk v (view cfg w) ∧ x ∈ (view cfg w).nz⌝⟩⦄ := by
  have e1 := callClassifier_spec cfg
  have e2 := recordFailure_spec' cfg
  unfold handleExceptionCall classifyForBreaker
  simp only [hret, Bool.not_true, Bool.false_and, Bool.false_eq_true, if_false, if_true]
  mvcgen [e1, e2]
  all_goals (try clear e1 e2)
  vc_simp []
  all_goals (first
    | exact Bk.refl _
    | exact (bk_classified _ _ _).trans (by assumption)
    | exact ⟨bk_raised _ _, by simp [View.raised]⟩
    | skip)

theorem handleAbortCall_spec (hret : cfg.hasRetry = true) (v : View) (e : Exn) :
    ⦃fun w => ⌜view cfg w = v⌝⦄ handleAbortCall cfg e
    ⦃post⟨fun _ w => ⌜view cfg w = v⌝, fun _ _ => ⌜False⌝⟩⦄ := by
  have e1 := recordCancel_spec cfg
  unfold handleAbortCall
  simp only [hret, Bool.not_true, Bool.false_eq_true, if_false]
  mvcgen [e1]

theorem handleExhaustedCall_spec (v : View) (e : Exn) :
    ⦃fun w => ⌜view cfg w = v⌝⦄ handleExhaustedCall cfg e ⦃bkPost cfg v⦄ := by
  have e2 := recordFailure_spec' cfg
  mvcgen [handleExhaustedCall, e2]

theorem callLadder_spec (hret : cfg.hasRetry = true) (e : Exn) :
    ⦃fun w => ⌜e.isException = true → CallX cfg quiet e (view cfg w)⌝⦄ callLadder cfg e
    ⦃post⟨fun _ _ => ⌜False⌝, fun x w => ⌜x.isException = true → CallX cfg quiet x (view cfg w)⌝⟩⦄ := by
  intro w hp
  have e1 := recordCancel_spec cfg (view cfg w)
  have e2 := handleAbortCall_spec cfg hret (view cfg w) e
  have e3 := handleExhaustedCall_spec cfg (view cfg w) e
  have e4 := handleExceptionCall_spec cfg hret (view cfg w) e true
  have : ⦃fun w' => ⌜view cfg w' = view cfg w⌝⦄ callLadder cfg e
      ⦃post⟨fun _ _ => ⌜False⌝, fun x w' => ⌜x.isException = true → CallX cfg quiet x (view cfg w')⌝⟩⦄ := by
    mvcgen [callLadder, e1, e2, e3, e4]
    all_goals (try clear e1 e2 e3 e4)
    vc_simp []
    all_goals (first
      | exact (hp (by assumption)).bk (by assumption)
      | exact CallX.bk (by assumption) hp
      | exact Or.inl (Or.inr (Or.inl (‹Bk _ _ ∧ _›).2))
      | (have := isKiSe_not_exception (e := e) (by assumption); simp_all; done)
      | skip)
  exact this w rfl

/-- how `Policy.call` may end with an `Exception` -/
def PCallX (x : Exn) (v : View) : Prop :=
  CallX cfg quiet x v ∨ ((∃ st, x = .libCircuitOpen st) ∧ RejectedV v)

abbrev pcallPost : PostCond Nat (.except Exn (.arg World .pure)) :=
  post⟨fun x w => ⌜Final cfg false quiet (.ret x) (view cfg w)⌝,
       fun x w => ⌜x.isException = true → PCallX cfg x (view cfg w)⌝⟩

theorem callAdmitted_spec (hret : cfg.hasRetry = true) (v : View) (hi : Idle v) :
    ⦃fun w => ⌜view cfg w = v⌝⦄ callAdmitted cfg ⦃pcallPost cfg⦄ := by
  have e1 := checkBreaker_spec cfg v hi
  have e2 := fun v (hi : Idle v) => runCall_spec cfg quiet v hi.fresh
  have e3 := recordSuccess_spec cfg
  have e4 := callLadder_spec cfg hret
  unfold callAdmitted
  simp only [hret, if_true]
  mvcgen [e1, e2, e3, e4]
  all_goals (try clear e1 e2 e3 e4)
  vc_simp [PCallX]
  all_goals (first
    | exact Final.bk (by assumption) (by assumption)
    | skip)

theorem policyCall_spec (hret : cfg.hasRetry = true) (v : View) (hi : Idle v) :
    ⦃fun w => ⌜view cfg w = v⌝⦄ Policy.call cfg ⦃pcallPost cfg⦄ := by
  have e1 := initCtx_spec cfg
  have e2 := callAdmitted_spec cfg hret v hi
  have e3 := ensureSettled_spec cfg
  mvcgen [Policy.call, withFinally, e1, e2, e3]
  all_goals (try clear e1 e2 e3)
  vc_simp []

/-- how `Policy.execute` ends with an outcome -/
def PExecO (o : Outcome) (v : View) : Prop := FinalO cfg cfg.timeline quiet o v ∨ RejectedV v

abbrev pexecPost : PostCond Outcome (.except Exn (.arg World .pure)) :=
  post⟨fun o w => ⌜PExecO cfg o (view cfg w)⌝, fun _ _ => ⌜True⌝⟩

theorem executeLadder_spec (hret : cfg.hasRetry = true) (e : Exn) :
    ⦃fun _ => ⌜True⌝⦄ executeLadder cfg e ⦃post⟨fun _ _ => ⌜False⌝, fun _ _ => ⌜True⌝⟩⦄ := by
  intro w _
  have e1 := recordCancel_spec cfg (view cfg w)
  have e3 := handleExhaustedCall_spec cfg (view cfg w) e
  have e4 := handleExceptionCall_spec cfg hret (view cfg w) e false
  have : ⦃fun w' => ⌜view cfg w' = view cfg w⌝⦄ executeLadder cfg e
      ⦃post⟨fun _ _ => ⌜False⌝, fun _ _ => ⌜True⌝⟩⦄ := by
    mvcgen [executeLadder, e1, e3, e4]
  exact this w rfl

theorem executeWithRetry_spec (hret : cfg.hasRetry = true) (v : View) (hi : Idle v) :
    ⦃fun w => ⌜view cfg w = v⌝⦄ executeWithRetry cfg ⦃pexecPost cfg⦄ := by
  have e1 := runExecute_spec cfg quiet v hi.fresh
  have e2 := executeLadder_spec cfg hret
  have e3 := recordSuccess_spec cfg
  have e4 := recordCancel_spec cfg
  have e5 := recordFailure_spec' cfg
  mvcgen [executeWithRetry, e1, e2, e3, e4, e5]
  all_goals (try clear e1 e2 e3 e4 e5)
  vc_simp [PExecO]
  all_goals (first
    | exact Or.inl (FinalO.bk (by assumption) (by assumption))
    | skip)

theorem policyOutcome_spec (v : View) (ok : Bool) (value : Option Nat) (stop : Option StopReason) (attempts : Nat)
    (lc : Option EClass) (le : Option String) (cause : Option Cause) :
    ⦃fun w => ⌜view cfg w = v⌝⦄ policyOutcome ok value stop attempts lc le cause
    ⦃post⟨fun _ w => ⌜view cfg w = v⌝, fun _ _ => ⌜False⌝⟩⦄ := by
  mvcgen [policyOutcome, xElapsed]

theorem executeAdmitted2_spec (hret : cfg.hasRetry = true) (v : View) (hi : Idle v) :
    ⦃fun w => ⌜view cfg w = v⌝⦄ executeAdmitted2 cfg ⦃pexecPost cfg⦄ := by
  have e1 := executeWithRetry_spec cfg hret v hi
  unfold executeAdmitted2
  simp only [hret, if_true]
  mvcgen [e1]
  all_goals (try clear e1)
  vc_simp []

theorem executeAdmitted_spec (hret : cfg.hasRetry = true) (v : View) (hi : Idle v) :
    ⦃fun w => ⌜view cfg w = v⌝⦄ executeAdmitted cfg ⦃pexecPost cfg⦄ := by
  have e1 := breakerAllow_spec cfg
  have e2 := emitBreakerEvent_spec cfg
  have e3 := fun v hi => executeAdmitted2_spec cfg hret v hi
  have e4 := policyOutcome_spec cfg
  mvcgen [executeAdmitted, e1, e2, e3, e4]
  all_goals (try clear e1 e2 e3 e4)
  all_goals (try subst_vars)
  all_goals (try simp_all only [obs_breakerAllow])
  all_goals (first
    | exact hi
    | exact (pair_idle cfg _ hi _ _ _ _ (‹_ ∧ ∀ (e : Event), _›).2).1 (by simp)
    | exact Or.inr ((pair_idle cfg _ hi _ _ _ _ (‹_ ∧ ∀ (e : Event), _›).2).2 (by simp))
    | exact fun _ _ => (pair_idle cfg _ hi _ _ _ _ (‹_ ∧ ∀ (e : Event), _›).2).1 (by simp)
    | exact fun _ => Or.inr ((pair_idle cfg _ hi _ _ _ _ (‹_ ∧ ∀ (e : Event), _›).2).2 (by simp))
    | (simp_all; done)
    | skip)

theorem policyExecute_spec (hret : cfg.hasRetry = true) (v : View) (hi : Idle v) :
    ⦃fun w => ⌜view cfg w = v⌝⦄ Policy.execute cfg ⦃pexecPost cfg⦄ := by
  have e1 := initCtx_spec cfg
  have e2 := executeAdmitted_spec cfg hret v hi
  have e3 := ensureSettled_spec cfg
  mvcgen [Policy.execute, withFinally, e1, e2, e3]
  all_goals (try clear e1 e2 e3)
  vc_simp []

end bookkeeping

section theorems

theorem idle_start (cfg : Cfg) (w : World) : Idle (view cfg (startWorld w)) := ⟨fresh_start cfg w, rfl⟩

/-- a rejected call: nothing at retry level, and the rejection reported -/
theorem holds_of_rejected {cfg : Cfg} {e : Entry} {r : Res} {w : World} (h : RejectedV (view cfg w))
    (htl : ∀ tl, timelineOf cfg e r = some tl → tl = []) :
    Holds cfg e w.trace.reverse r := by
  intro _
  have hrej : Mon.rejected w.trace.reverse = true := by rw [rejected_reverse]; exact h.rej
  rw [run_reverse]
  refine ⟨fun hh => absurd (hrej.symm.trans hh) (by simp), fun _ => ⟨?_, ?_⟩⟩
  · have hms := h.ms
    have hls := h.ls
    simp only [view] at hms hls
    unfold noRetryEvents
    cases ht : timelineOf cfg e r with
    | none => simp [hms, hls]
    | some tl => simp [hms, hls, htl tl ht]
  · have := h.brk
    simp only [brkOf, quiet, Prod.mk.injEq, view] at this
    simp [breakerEventsShape, this.1, this.2.1, this.2.2]

theorem guard_no_loop (cfg : Cfg) (e : Entry) (t : Trace) (r : Res) (h : hasLoop cfg e = false) :
    Mon.C14.guard cfg e t r = false := by
  simp [Mon.C14.guard, h]

theorem pcall_holds (cfg : Cfg) (w : World) :
    Holds cfg .pcall (runEntry cfg .pcall w).2.trace.reverse (runEntry cfg .pcall w).1 := by
  cases hret : cfg.hasRetry with
  | false => exact holds_of_not_guard (guard_no_loop _ _ _ _ (by simp [hasLoop, hret, Entry.isPolicy]))
  | true =>
    have := adequacy (policyCall_spec cfg hret _ (idle_start cfg w)) (startWorld w) rfl
    simp only [runEntry, startWorld] at this ⊢
    split at this <;> rename_i heq <;> simp only [heq, toRes]
    · exact holds_of_final (tlf := false) (fun _ => ⟨this, tlLink_call _ _ _ _ rfl⟩)
    · intro hg
      obtain ⟨hn, hh, _⟩ := guard_normal hg
      obtain ⟨hx, hne, _⟩ := guard_raised cfg _ _ _ hn hh
      rcases this hx with hc | ⟨_, hr⟩
      · exact holds_of_final (tlf := false) (fun _ => ⟨hc.resolve_left hne, tlLink_call _ _ _ _ rfl⟩) hg
      · exact holds_of_rejected hr (by simp [timelineOf]) hg

theorem pexecute_holds (cfg : Cfg) (w : World) :
    Holds cfg .pexecute (runEntry cfg .pexecute w).2.trace.reverse (runEntry cfg .pexecute w).1 := by
  cases hret : cfg.hasRetry with
  | false => exact holds_of_not_guard (guard_no_loop _ _ _ _ (by simp [hasLoop, hret, Entry.isPolicy]))
  | true =>
    have := adequacy (policyExecute_spec cfg hret _ (idle_start cfg w)) (startWorld w) rfl
    simp only [runEntry, startWorld] at this ⊢
    split at this <;> rename_i heq <;> simp only [heq, toResO, hret, Bool.and_true]
    · rcases this with hf | hr
      · exact holds_of_final (tlf := cfg.timeline) (fun _ => ⟨hf _, tlLink_execute _ _ _ _ _ rfl rfl⟩)
      · refine holds_of_rejected hr ?_
        intro tl ht
        have htl := hr.tl
        simp only [view, List.map_eq_nil_iff] at htl
        simp only [timelineOf] at ht
        split at ht
        · cases ht; simp [htl]
        · cases ht
    · exact holds_of_not_guard (guard_execute_raised _ _ _ _ rfl)

end theorems

/-! ### the theorems -/
section main

/-- Every conjunct of C14 at once, for one call from any world. -/
theorem holds (cfg : Cfg) (e : Entry) (w : World) :
    Holds cfg e (runEntry cfg e w).2.trace.reverse (runEntry cfg e w).1 := by
  cases e with
  | call => exact call_holds cfg w
  | execute => exact execute_holds cfg w
  | pcall => exact pcall_holds cfg w
  | pexecute => exact pexecute_holds cfg w

/--
**C14, conjunct 1 (`stream_shape`).**  For every configuration, entry point and world: if the run ends
normally (the monitor's guard) and was not rejected by the breaker, then the REQUESTS to the metric hook,
those to the log hook and the captured timeline are each `retry(1,·) … retry(n,·)` followed by exactly
one terminal event.
-/
theorem stream_shape (cfg : Cfg) (e : Entry) (w : World)
    (hg : Mon.C14.guard cfg e (runEntry cfg e w).2.trace.reverse (runEntry cfg e w).1 = true)
    (hr : Mon.rejected (runEntry cfg e w).2.trace.reverse = false) :
    streamShape cfg e (run cfg (runEntry cfg e w).2.trace.reverse) (runEntry cfg e w).1 = true :=
  ((holds cfg e w hg).1 hr).1

/--
**C14, conjunct 2 (`terminal_tags`).**  Every retry-level event's tags describe the failure in progress
(class and cause as the classifier announced them, `err` the type name of what the operation raised,
`operation`; `success` carries nothing, `aborted` only its reason), and the terminal event agrees with the
delivered result (`success` ⇔ success; `stop_reason` = the delivered stop reason; class / cause / err of the
final failure).
-/
theorem terminal_tags (cfg : Cfg) (e : Entry) (w : World)
    (hg : Mon.C14.guard cfg e (runEntry cfg e w).2.trace.reverse (runEntry cfg e w).1 = true)
    (hr : Mon.rejected (runEntry cfg e w).2.trace.reverse = false) :
    terminalTags cfg e (run cfg (runEntry cfg e w).2.trace.reverse) (runEntry cfg e w).1 = true :=
  ((holds cfg e w hg).1 hr).2.1

/--
**C14, conjunct 3 (`sinks_agree`).**  The log hook is asked exactly what the metric hook is asked, and the
captured timeline is the projection of that stream (also when a hook raises an `Exception`: the composite
hook records before it calls `on_metric`).
-/
theorem sinks_agree (cfg : Cfg) (e : Entry) (w : World)
    (hg : Mon.C14.guard cfg e (runEntry cfg e w).2.trace.reverse (runEntry cfg e w).1 = true)
    (hr : Mon.rejected (runEntry cfg e w).2.trace.reverse = false) :
    sinksAgree cfg e (run cfg (runEntry cfg e w).2.trace.reverse) (runEntry cfg e w).1 = true :=
  ((holds cfg e w hg).1 hr).2.2.1

/--
**C14, conjunct 4 (`breaker_events_shape`).**  Every transition / rejection the breaker announced is
reported to each configured hook, once, with attempt 0, sleep 0, the breaker's state (and the failure class
for `record_failure`) and `operation`; no other breaker event is reported.  Also for rejected calls.
-/
theorem breaker_events_shape (cfg : Cfg) (e : Entry) (w : World)
    (hg : Mon.C14.guard cfg e (runEntry cfg e w).2.trace.reverse (runEntry cfg e w).1 = true) :
    breakerEventsShape (run cfg (runEntry cfg e w).2.trace.reverse) = true := by
  cases hr : Mon.rejected (runEntry cfg e w).2.trace.reverse
  · exact ((holds cfg e w hg).1 hr).2.2.2
  · exact ((holds cfg e w hg).2 hr).2

/-- A call the breaker rejected produces no retry-level event at all, in any sink. -/
theorem rejected_silent (cfg : Cfg) (e : Entry) (w : World)
    (hg : Mon.C14.guard cfg e (runEntry cfg e w).2.trace.reverse (runEntry cfg e w).1 = true)
    (hr : Mon.rejected (runEntry cfg e w).2.trace.reverse = true) :
    noRetryEvents cfg e (run cfg (runEntry cfg e w).2.trace.reverse) (runEntry cfg e w).1 = true :=
  ((holds cfg e w hg).2 hr).1

/--
**C14.**  For every configuration, every entry point (`Retry`/`Policy` × `call`/`execute`) and every world —
every answer stream, clock value and state of a shared budget or breaker — the run satisfies the
event-stream monitor `Mon.C14.ok` (the same function the driver evaluates on the implementation's log).
-/
theorem events_hold (cfg : Cfg) (e : Entry) (w : World) :
    Mon.C14.ok cfg e (runEntry cfg e w).2.trace.reverse (runEntry cfg e w).1 = true :=
  (holds cfg e w).ok

/-- …and therefore of every call in every script of calls and clock advances on ONE policy object. -/
theorem events_hold_script (cfg : Cfg) : ∀ (steps : List Step) (w : World),
    ∀ l ∈ (runScript cfg steps w).1, Mon.C14.ok cfg l.entry l.trace l.res = true := by
  intro steps
  induction steps with
  | nil => intro w l hl; simp [runScript] at hl
  | cons st rest ih =>
    intro w l hl
    cases st with
    | advance d => exact ih _ l (by simpa [runScript] using hl)
    | run e =>
      simp only [runScript, List.mem_cons] at hl
      rcases hl with rfl | hl
      · exact events_hold cfg e w
      · exact ih _ l hl

/-! Non-vacuity of the guard (tests on concrete LOGS, not runs of the model): a call that succeeds at the
    second attempt, and a call that re-raises the operation's exception; the guard holds and the monitor
    accepts. -/
example :
    let t : Trace :=
      [(.op 1, .raise (.ordinary 1 .transient) 0), (.classify "o1", .klass ⟨.transient, none⟩ 0),
       (.metric .retry 1 3 { klass := some .transient, err := some "XTRANSIENT", cause := some .exception }, .unit 0),
       (.op 2, .value 7 0), (.metric .success 2 0 {}, .unit 0)]
    Mon.C14.guard { metric := true } .call t (.ret 7) = true ∧ Mon.C14.ok { metric := true } .call t (.ret 7) = true := by
  decide

example :
    let x : Exn := .ordinary 1 .permanent
    let t : Trace :=
      [(.op 1, .raise x 0), (.classify "o1", .klass ⟨.permanent, none⟩ 0),
       (.metric .permanentFail 1 0 (Tags.mk (some .permanent) (some "XGEN") (some .nonRetryableClass)
          (some .exception) none none), .unit 0)]
    Mon.C14.guard { metric := true } .call t (.raised x) = true ∧ Mon.C14.ok { metric := true } .call t (.raised x) = true := by
  decide

/-- a rejected call (hypotheses of `rejected_silent` / `breaker_events_shape`) -/
example :
    let t : Trace :=
      [(.breakerAllow, .admit false .opened (some .circuitRejected)),
       (.metric .circuitRejected 0 0 { state := some .opened }, .unit 0)]
    Mon.C14.guard { metric := true } .pcall t (.raised (.libCircuitOpen .opened)) = true
    ∧ Mon.rejected t = true
    ∧ Mon.C14.ok { metric := true } .pcall t (.raised (.libCircuitOpen .opened)) = true := by
  decide

/-- …and teeth: a second terminal event is rejected. -/
example :
    let t : Trace :=
      [(.op 1, .value 7 0), (.metric .success 1 0 {}, .unit 0), (.metric .success 1 0 {}, .unit 0)]
    Mon.C14.ok { metric := true } .call t (.ret 7) = false := by
  decide

end main
end Redress.Props.C14
