/-
  C04 for a `Policy` WITHOUT a retry component — `Policy.call` surfaces exactly the single attempt.

  `Mon.C04NR.ok` (Redress/MonitorsNR.lean) is true of EVERY run of the model: every configuration, every
  entry point, every world (answer stream, clock, breaker state).  `Mon.C04` is guarded by `hasLoop`, i.e.
  silent when `retry is None`; this file closes that gap for `call()`, `Props/C11NR.lean` for `execute()`.

  The programs have no loop.  The monitor's fold state `cur w.trace` only moves at the (one) `op` exchange
  and at the abort poll; every other procedure of the policy layer is *inert*: it only appends exchanges the
  fold ignores, and when it fails it says where the exception came from (`HSrc`: an attempt hook;
  `OSrc`: a metric / log hook, and then the exception is not an `Exception` — those are swallowed).

  The first half (everything up to `### C04NR`) is shared with `Props/C11NR.lean`.
-/
import Redress.Lemmas.Hoare
import Redress.MonitorsNR

open Std.Do

namespace Redress.Props.C04NR
open Redress Redress.Retry Redress.Policy Redress.Mon Redress.Mon.C04NR

/-! ### the fold state as a function of the world's (newest-first) log -/

def cur (tr : List (Req × Ans)) : St := tr.foldr (fun x s => step s x) {}

@[simp] theorem cur_nil : cur [] = {} := rfl
@[simp] theorem cur_cons (x : Req × Ans) (t : List (Req × Ans)) : cur (x :: t) = step (cur t) x := rfl

theorem run_reverse (t : List (Req × Ans)) : run t.reverse = cur t := by
  simp [run, cur, List.foldl_reverse]

/-- requests the fold does not look at: everything but the operation and the abort poll -/
def inertR : Req → Bool
  | .op _ | .abortIf => false
  | _ => true

theorem step_inert (s : St) (x : Req × Ans) (h : inertR x.1 = true) : step s x = s := by
  obtain ⟨r, a⟩ := x
  cases r <;> simp_all [inertR, step]

/-- a predicate on logs that survives every exchange the fold does not look at -/
def Stable (P : List (Req × Ans) → Prop) : Prop := ∀ x t, inertR x.1 = true → P t → P (x :: t)

/-- a predicate on logs that survives every exchange -/
def Mono (P : List (Req × Ans) → Prop) : Prop := ∀ x t, P t → P (x :: t)

theorem Mono.stable {P : List (Req × Ans) → Prop} (h : Mono P) : Stable P := fun x t _ hp => h x t hp

theorem stable_cur (S : St → Prop) : Stable (fun t => S (cur t)) := by
  intro x t hx hp
  simpa [step_inert _ x hx] using hp

theorem Stable.and {P Q : List (Req × Ans) → Prop} (hp : Stable P) (hq : Stable Q) :
    Stable (fun t => P t ∧ Q t) := fun x t hx h => ⟨hp x t hx h.1, hq x t hx h.2⟩

theorem Stable.or {P Q : List (Req × Ans) → Prop} (hp : Stable P) (hq : Stable Q) :
    Stable (fun t => P t ∨ Q t) := fun x t hx h => h.imp (hp x t hx) (hq x t hx)

theorem Mono.or {P Q : List (Req × Ans) → Prop} (hp : Mono P) (hq : Mono Q) :
    Mono (fun t => P t ∨ Q t) := fun x t h => h.imp (hp x t) (hq x t)

theorem Mono.and {P Q : List (Req × Ans) → Prop} (hp : Mono P) (hq : Mono Q) :
    Mono (fun t => P t ∧ Q t) := fun x t h => ⟨hp x t h.1, hq x t h.2⟩

theorem Mono.const (p : Prop) : Mono (fun _ => p) := fun _ _ h => h

theorem mono_any (f : Req × Ans → Bool) : Mono (fun t => t.any f = true) := by
  intro x t h
  simp only [List.any_cons, h, Bool.or_true]

theorem mono_raisedBy (p : Req → Bool) (e : Exn) : Mono (fun t => Mon.raisedBy p t e = true) :=
  mono_any _

theorem mono_rejected : Mono (fun t => Mon.rejected t = true) := mono_any _

theorem mono_hookFault : Mono (fun t => Mon.attemptHookFault t = true) := mono_any _

theorem raisedBy_head (p : Req → Bool) (r : Req) (e : Exn) (d : Nat) (t : List (Req × Ans))
    (hp : p r = true) : Mon.raisedBy p ((r, .raise e d) :: t) e = true := by
  simp [Mon.raisedBy, hp]

theorem raisedBy_mono_pred {p q : Req → Bool} (h : ∀ r, p r = true → q r = true)
    {t : List (Req × Ans)} {e : Exn} (hr : Mon.raisedBy p t e = true) : Mon.raisedBy q t e = true := by
  simp only [Mon.raisedBy, List.any_eq_true, Bool.and_eq_true] at hr ⊢
  obtain ⟨x, hx, hpx, ha⟩ := hr
  exact ⟨x, hx, h _ hpx, ha⟩

theorem raisedBy_reverse (p : Req → Bool) (t : List (Req × Ans)) (e : Exn) :
    Mon.raisedBy p t.reverse e = Mon.raisedBy p t e := by
  simp [Mon.raisedBy, List.any_reverse]

theorem rejected_reverse (t : List (Req × Ans)) : Mon.rejected t.reverse = Mon.rejected t := by
  simp [Mon.rejected, List.any_reverse]

theorem hookFault_reverse (t : List (Req × Ans)) :
    Mon.attemptHookFault t.reverse = Mon.attemptHookFault t := by
  simp [Mon.attemptHookFault, List.any_reverse]

/-! ### where an exception that leaves an inert procedure comes from -/

/-- raised by an attempt hook or the abort predicate (or the model's `stuck`) -/
def HSrc (e : Exn) (t : List (Req × Ans)) : Prop := e = .stuck ∨ Mon.raisedBy Mon.isAttemptHook t e = true

/-- raised by a metric / log hook — and then not an `Exception`, those are swallowed (or `stuck`) -/
structure OSrc (e : Exn) (t : List (Req × Ans)) : Prop where
  nonExc : e.isException = false
  src : e = .stuck ∨ Mon.raisedBy C11NR.isObsHook t e = true

theorem OSrc_iff (e : Exn) (t : List (Req × Ans)) :
    OSrc e t ↔ (e.isException = false ∧ (e = .stuck ∨ Mon.raisedBy C11NR.isObsHook t e = true)) :=
  ⟨fun h => ⟨h.1, h.2⟩, fun h => ⟨h.1, h.2⟩⟩

theorem mono_HSrc (e : Exn) : Mono (HSrc e) := (Mono.const _).or (mono_raisedBy _ _)
theorem mono_OSrc (e : Exn) : Mono (OSrc e) := fun x t h =>
  ⟨h.1, h.2.imp id (mono_raisedBy _ _ x t)⟩

theorem HSrc.hookFault {e : Exn} {t : List (Req × Ans)} (h : HSrc e t) :
    e = .stuck ∨ Mon.attemptHookFault t = true := by
  rcases h with h | h
  · exact Or.inl h
  · right
    simp only [Mon.raisedBy, Mon.attemptHookFault, List.any_eq_true, Bool.and_eq_true] at h ⊢
    obtain ⟨x, hx, hpx, ha⟩ := h
    refine ⟨x, hx, hpx, ?_⟩
    split at ha <;> simp_all

/-! ### leaves -/

section leaves
variable (P : List (Req × Ans) → Prop) (hP : Stable P)
include hP

/-- one exchange with a callback the fold ignores; `p` is any set of requests containing it -/
theorem ask_st (r : Req) (hr : inertR r = true) (p : Req → Bool) (hp : p r = true) :
    ⦃fun w => ⌜P w.trace⌝⦄ ask r
    ⦃post⟨fun _ w => ⌜P w.trace⌝,
          fun e w => ⌜P w.trace ∧ (e = .stuck ∨ Mon.raisedBy p w.trace e = true)⌝⟩⦄ := by
  mvcgen [ask]
  all_goals (try subst_vars) <;> (try intros)
  all_goals first
    | exact hP (r, _) _ hr (by assumption)
    | exact ⟨hP (r, _) _ hr (by assumption), Or.inl rfl⟩
    | exact ⟨hP (r, _) _ hr (by assumption), Or.inr (raisedBy_head p r _ _ _ hp)⟩

theorem askHook_st (r : Req) (hr : inertR r = true) (p : Req → Bool) (hp : p r = true) :
    ⦃fun w => ⌜P w.trace⌝⦄ askHook r
    ⦃post⟨fun _ w => ⌜P w.trace⌝,
          fun e w => ⌜P w.trace ∧ (e = .stuck ∨ Mon.raisedBy p w.trace e = true)⌝⟩⦄ :=
  askHook_triple r (ask_st P hP r hr p hp) (fun w h => presil_cases (fun w => P w.trace) w (fun _ => h))

end leaves

macro "st_close" : tactic => `(tactic| all_goals (
  (try subst_vars) <;> (try intros) <;>
  first
    | assumption
    | rfl
    | (simp_all +zetaDelta [OSrc_iff, HSrc]; done)
    | skip))

section policyLeaves
variable (cfg : Cfg) (P : List (Req × Ans) → Prop) (hP : Stable P)
include hP

/-- `_emit_breaker_event`: only a BaseException-only kind raised by the metric / log hook gets out -/
theorem emitBreakerEvent_st (ev : Option Event) (st : CState) (k : Option EClass) :
    ⦃fun w => ⌜P w.trace⌝⦄ emitBreakerEvent cfg ev st k
    ⦃post⟨fun _ w => ⌜P w.trace⌝, fun e w => ⌜P w.trace ∧ OSrc e w.trace⌝⟩⦄ := by
  have h := fun r hr hp => askHook_st P hP r hr C11NR.isObsHook hp
  mvcgen [emitBreakerEvent, swallowException, askMetric, askLog, h]
  st_close

theorem noRetryStartHook_st :
    ⦃fun w => ⌜P w.trace⌝⦄ noRetryStartHook cfg
    ⦃post⟨fun _ w => ⌜P w.trace⌝, fun e w => ⌜P w.trace ∧ HSrc e w.trace⌝⟩⦄ := by
  have h := fun r hr hp => ask_st P hP r hr Mon.isAttemptHook hp
  mvcgen [noRetryStartHook, xElapsed, h]
  st_close

theorem noRetryEndHook_st (exc : Option Exn) (r : Option Nat) (d : AttemptDecision)
    (stop : Option StopReason) (cause : Option Cause) :
    ⦃fun w => ⌜P w.trace⌝⦄ noRetryEndHook cfg exc r d stop cause
    ⦃post⟨fun _ w => ⌜P w.trace⌝, fun e w => ⌜P w.trace ∧ HSrc e w.trace⌝⟩⦄ := by
  have h := fun r hr hp => ask_st P hP r hr Mon.isAttemptHook hp
  mvcgen [noRetryEndHook, xElapsed, h]
  st_close

omit hP in
/-- `_build_policy_outcome`: the fields, as given -/
theorem policyOutcome_st (ok : Bool) (value : Option Nat) (stop : Option StopReason) (attempts : Nat)
    (lc : Option EClass) (le : Option String) (cause : Option Cause) :
    ⦃fun w => ⌜P w.trace⌝⦄ policyOutcome ok value stop attempts lc le cause
    ⦃post⟨fun o w => ⌜P w.trace ∧ o.ok = ok ∧ o.value = (if ok then value else none) ∧ o.stop = stop ∧
            o.attempts = attempts ∧ o.lastClass = lc ∧ o.lastExc = le ∧ o.lastResult = none ∧
            o.cause = cause ∧ o.nextSleep = none⌝,
          fun _ _ => ⌜False⌝⟩⦄ := by
  mvcgen [policyOutcome, xElapsed]

omit hP in
theorem initCtx_st : ⦃fun w => ⌜P w.trace⌝⦄ initCtx ⦃post⟨fun _ w => ⌜P w.trace⌝, fun _ _ => ⌜False⌝⟩⦄ := by
  mvcgen [initCtx]
  st_close

/-- `breaker.allow()`: a refusal is visible in the log -/
theorem breakerAllow_st (bc : Breaker.Cfg) :
    ⦃fun w => ⌜P w.trace⌝⦄ breakerAllow bc
    ⦃post⟨fun d w => ⌜P w.trace ∧ (d.1 = false → Mon.rejected w.trace = true)⌝, fun _ _ => ⌜False⌝⟩⦄ := by
  mvcgen [breakerAllow]
  all_goals (try subst_vars) <;> (try intros)
  refine ⟨hP (_, _) _ rfl (by assumption), fun hd => ?_⟩
  simp [Mon.rejected, hd]

theorem recordCancel_st :
    ⦃fun w => ⌜P w.trace⌝⦄ Policy.recordCancel cfg ⦃post⟨fun _ w => ⌜P w.trace⌝, fun _ _ => ⌜False⌝⟩⦄ := by
  mvcgen [Policy.recordCancel]
  all_goals (try subst_vars) <;> (try intros)
  all_goals first
    | assumption
    | exact hP (_, _) _ rfl (by assumption)

theorem recordSuccess_st :
    ⦃fun w => ⌜P w.trace⌝⦄ Policy.recordSuccess cfg
    ⦃post⟨fun _ w => ⌜P w.trace⌝, fun e w => ⌜P w.trace ∧ OSrc e w.trace⌝⟩⦄ := by
  have h := emitBreakerEvent_st cfg P hP
  mvcgen [Policy.recordSuccess, h]
  all_goals (try subst_vars) <;> (try intros)
  all_goals first
    | assumption
    | exact hP (_, _) _ rfl (by assumption)

theorem recordFailure_st (k : EClass) :
    ⦃fun w => ⌜P w.trace⌝⦄ Policy.recordFailure cfg k
    ⦃post⟨fun _ w => ⌜P w.trace⌝, fun e w => ⌜P w.trace ∧ OSrc e w.trace⌝⟩⦄ := by
  have h := emitBreakerEvent_st cfg P hP
  mvcgen [Policy.recordFailure, h]
  all_goals (try subst_vars) <;> (try intros)
  all_goals first
    | assumption
    | exact hP (_, _) _ rfl (by assumption)

theorem ensureSettled_st :
    ⦃fun w => ⌜P w.trace⌝⦄ ensureSettled cfg ⦃post⟨fun _ w => ⌜P w.trace⌝, fun _ _ => ⌜False⌝⟩⦄ := by
  have h := recordCancel_st cfg P hP
  mvcgen [ensureSettled, h]

end policyLeaves

/-! ### the two exchanges the fold looks at -/

/-- the log says: fold state `s` -/
def Is (s : St) (t : List (Req × Ans)) : Prop := cur t = s

theorem stable_Is (s : St) : Stable (Is s) := stable_cur (fun s' => s' = s)

/-- after a pre-flight abort poll that answered True -/
def stAbort : St := { preAbort := true }

/-- after the invocation returned `v` -/
def stVal (v : Nat) : St := { ops := 1, opVal := some v }

/-- after the invocation raised `e` (`stuck` without a raise in the log: an ill-shaped answer) -/
structure ExcSt (e : Exn) (s : St) : Prop where
  ops : s.ops = 1
  opVal : s.opVal = none
  preAbort : s.preAbort = false
  opExc : s.opExc = some e ∨ (e = .stuck ∧ s.opExc = none)

theorem ExcSt_iff (e : Exn) (s : St) :
    ExcSt e s ↔ (s.ops = 1 ∧ s.opVal = none ∧ s.preAbort = false ∧
      (s.opExc = some e ∨ (e = .stuck ∧ s.opExc = none))) :=
  ⟨fun h => ⟨h.1, h.2, h.3, h.4⟩, fun h => ⟨h.1, h.2.1, h.2.2.1, h.2.2.2⟩⟩

/-- the (single) invocation of the operation -/
theorem invokeOp_st (n : Nat) :
    ⦃fun w => ⌜Is {} w.trace⌝⦄ invokeOp n
    ⦃post⟨fun v w => ⌜Is (stVal v) w.trace⌝, fun e w => ⌜ExcSt e (cur w.trace)⌝⟩⦄ := by
  mvcgen [invokeOp, ask]
  all_goals (try subst_vars) <;> (try intros)
  all_goals simp_all +zetaDelta [Is, step, stVal, ExcSt_iff]

theorem step_abortIf_init (a : Ans) :
    step {} (.abortIf, a) = (match a with | .bool true _ => stAbort | _ => {}) := by
  cases a with
  | bool b d => cases b <;> rfl
  | _ => rfl

/-- the abort poll, before any invocation -/
theorem askAbortIf_st :
    ⦃fun w => ⌜Is {} w.trace⌝⦄ ask .abortIf
    ⦃post⟨fun a w => ⌜Is (match a with | .bool true _ => stAbort | _ => {}) w.trace⌝,
          fun e w => ⌜Is {} w.trace ∧ HSrc e w.trace⌝⟩⦄ := by
  mvcgen [ask]
  all_goals (try subst_vars) <;> (try intros)
  all_goals simp_all +zetaDelta [Is, step_abortIf_init, HSrc, Mon.raisedBy, Mon.isAttemptHook]

/-- `check_abort_no_retry` -/
theorem checkAbortNoRetry_st (cfg : Cfg) :
    ⦃fun w => ⌜Is {} w.trace⌝⦄ checkAbortNoRetry cfg
    ⦃post⟨fun b w => ⌜Is (if b then stAbort else {}) w.trace⌝,
          fun e w => ⌜Is {} w.trace ∧ HSrc e w.trace⌝⟩⦄ := by
  have h1 := askAbortIf_st
  have h2 := recordCancel_st cfg (Is stAbort) (stable_Is _)
  mvcgen [checkAbortNoRetry, h1, h2]
  all_goals (try subst_vars) <;> (try intros)
  all_goals simp_all +zetaDelta [HSrc]

/-! ### C04NR — `Policy.call` without a retry component -/

/-- `call()` returned `v`: one invocation, and it answered `v` -/
def RetV (v : Nat) (t : List (Req × Ans)) : Prop := (cur t).ops = 1 ∧ (cur t).opVal = some v

/-- `call()` raised `e`: at most one invocation; `e` is the invocation's own exception, or was raised by an
    attempt hook / the abort predicate / a metric or log hook, or is the library's `AbortRetryError` for a
    pre-flight abort -/
def RaiseV (e : Exn) (t : List (Req × Ans)) : Prop :=
  (cur t).ops ≤ 1 ∧
    (((cur t).ops = 1 ∧ (cur t).opExc = some e) ∨ HSrc e t ∨ OSrc e t ∨
      (e = .libAbort ∧ (cur t).preAbort = true ∧ (cur t).ops = 0))

/-- the verdict on a result — unless the breaker refused the call -/
def G (r : Res) (t : List (Req × Ans)) : Prop :=
  Mon.rejected t = true ∨
    (match r with
     | .ret v => RetV v t
     | .raised e => RaiseV e t
     | .outcome .. => False)

theorem stable_RaiseV (e : Exn) : Stable (RaiseV e) :=
  (stable_cur (fun s => s.ops ≤ 1)).and
    ((stable_cur (fun s => s.ops = 1 ∧ s.opExc = some e)).or
      ((mono_HSrc e).stable.or ((mono_OSrc e).stable.or
        (stable_cur (fun s => e = .libAbort ∧ s.preAbort = true ∧ s.ops = 0)))))

theorem stable_G (r : Res) : Stable (G r) := by
  refine mono_rejected.stable.or ?_
  cases r with
  | ret v => exact stable_cur (fun s => s.ops = 1 ∧ s.opVal = some v)
  | raised e => exact stable_RaiseV e
  | outcome o tl => exact fun _ _ _ h => h

/-- an error of a hook replaces whatever was about to be raised -/
theorem G.src {e e' : Exn} {t : List (Req × Ans)} (h : G (.raised e) t) (hs : HSrc e' t ∨ OSrc e' t) :
    G (.raised e') t := by
  rcases h with h | h
  · exact Or.inl h
  · exact Or.inr ⟨h.1, Or.inr (by rcases hs with hs | hs; exact Or.inl hs; exact Or.inr (Or.inl hs))⟩

theorem G.hsrc {e e' : Exn} {t : List (Req × Ans)} (h : G (.raised e) t) (hs : HSrc e' t) : G (.raised e') t :=
  G.src h (Or.inl hs)

theorem G.osrc {e e' : Exn} {t : List (Req × Ans)} (h : G (.raised e) t) (hs : OSrc e' t) : G (.raised e') t :=
  G.src h (Or.inr hs)

/-- an error of a hook while the fold state is `s` -/
theorem G.of_is {s : St} {e : Exn} {t : List (Req × Ans)} (hs : s.ops ≤ 1)
    (h : Is s t) (hsrc : HSrc e t ∨ OSrc e t) : G (.raised e) t := by
  refine Or.inr ⟨by rw [h]; exact hs, Or.inr ?_⟩
  rcases hsrc with hs | hs
  · exact Or.inl hs
  · exact Or.inr (Or.inl hs)

theorem G.init_hsrc {e : Exn} {t : List (Req × Ans)} (h : Is {} t) (hs : HSrc e t) : G (.raised e) t :=
  G.of_is (s := {}) (by decide) h (Or.inl hs)

theorem G.init_osrc {e : Exn} {t : List (Req × Ans)} (h : Is {} t) (hs : OSrc e t) : G (.raised e) t :=
  G.of_is (s := {}) (by decide) h (Or.inr hs)

theorem G.val_hsrc {v : Nat} {e : Exn} {t : List (Req × Ans)} (h : Is (stVal v) t) (hs : HSrc e t) :
    G (.raised e) t :=
  G.of_is (s := stVal v) (by simp [stVal]) h (Or.inl hs)

theorem G.val_osrc {v : Nat} {e : Exn} {t : List (Req × Ans)} (h : Is (stVal v) t) (hs : OSrc e t) :
    G (.raised e) t :=
  G.of_is (s := stVal v) (by simp [stVal]) h (Or.inr hs)

/-- the operation's own exception -/
theorem G.of_exc {e : Exn} {t : List (Req × Ans)} (h : ExcSt e (cur t)) : G (.raised e) t := by
  obtain ⟨h1, _, _, h4⟩ := h
  refine Or.inr ⟨by omega, ?_⟩
  rcases h4 with h4 | ⟨h4, _⟩
  · exact Or.inl ⟨h1, h4⟩
  · exact Or.inr (Or.inl (Or.inl h4))

theorem G.of_val {v : Nat} {t : List (Req × Ans)} (h : Is (stVal v) t) : G (.ret v) t := by
  refine Or.inr ?_
  simp only [RetV]
  rw [h]
  simp [stVal]

/-- the pre-flight abort -/
theorem G.of_abort {t : List (Req × Ans)} (h : Is stAbort t) : G (.raised .libAbort) t := by
  refine Or.inr ⟨by rw [h]; simp [stAbort], Or.inr (Or.inr (Or.inr ⟨rfl, ?_, ?_⟩))⟩ <;> rw [h] <;> rfl

/-- split every hypothesis that is a conjunction -/
macro "split_conjs" : tactic => `(tactic| repeat (revert ‹_ ∧ _›; rintro ⟨_, _⟩))

/-- close the verification conditions of the structural procedures -/
macro "g_close" : tactic => `(tactic| all_goals (
  (try subst_vars) <;> (try intros) <;> (try split_conjs) <;>
  first
    | assumption
    | exact G.hsrc (by assumption) (by assumption)
    | exact G.osrc (by assumption) (by assumption)
    | exact G.init_hsrc (by assumption) (by assumption)
    | exact G.init_osrc (by assumption) (by assumption)
    | exact G.val_hsrc (by assumption) (by assumption)
    | exact G.val_osrc (by assumption) (by assumption)
    | exact G.of_exc (by assumption)
    | exact G.of_val (by assumption)
    | exact G.of_abort (by assumption)
    | exact Or.inl (by assumption)
    | (simp_all +zetaDelta; done)
    | skip))

section call
variable (cfg : Cfg)

/-- `_handle_abort_call` -/
theorem handleAbortCall_st (e : Exn) :
    ⦃fun w => ⌜G (.raised e) w.trace⌝⦄ handleAbortCall cfg e
    ⦃post⟨fun _ w => ⌜G (.raised e) w.trace⌝, fun e' w => ⌜G (.raised e') w.trace⌝⟩⦄ := by
  have h1 := noRetryEndHook_st cfg (G (.raised e)) (stable_G _)
  have h2 := recordCancel_st cfg (G (.raised e)) (stable_G _)
  mvcgen [handleAbortCall, h1, h2]
  g_close

/-- `_handle_exhausted_call` -/
theorem handleExhaustedCall_st (e : Exn) :
    ⦃fun w => ⌜G (.raised e) w.trace⌝⦄ handleExhaustedCall cfg e
    ⦃post⟨fun _ w => ⌜G (.raised e) w.trace⌝, fun e' w => ⌜G (.raised e') w.trace⌝⟩⦄ := by
  have h1 := recordFailure_st cfg (G (.raised e)) (stable_G _)
  mvcgen [handleExhaustedCall, h1]
  g_close

/-- `_handle_exception_call` without a retry component: `default_classifier`, no callback -/
theorem handleExceptionCall_st (hret : cfg.hasRetry = false) (e : Exn) (b : Bool) :
    ⦃fun w => ⌜G (.raised e) w.trace⌝⦄ handleExceptionCall cfg e b
    ⦃post⟨fun _ w => ⌜G (.raised e) w.trace⌝, fun e' w => ⌜G (.raised e') w.trace⌝⟩⦄ := by
  have h1 := noRetryEndHook_st cfg (G (.raised e)) (stable_G _)
  have h2 := recordFailure_st cfg (G (.raised e)) (stable_G _)
  unfold handleExceptionCall classifyForBreaker
  simp only [hret, Bool.not_false, Bool.true_and, Bool.false_eq_true, if_false]
  mvcgen [h1, h2]
  g_close

/-- the `except` ladder of `Policy.call`: what it re-raises is what it caught, unless a hook it runs on
    the way raises something else -/
theorem callLadder_st (hret : cfg.hasRetry = false) (e : Exn) :
    ⦃fun w => ⌜G (.raised e) w.trace⌝⦄ callLadder cfg e
    ⦃post⟨fun _ _ => ⌜False⌝, fun e' w => ⌜G (.raised e') w.trace⌝⟩⦄ := by
  have h1 := recordCancel_st cfg (G (.raised e)) (stable_G _)
  have h2 := handleAbortCall_st cfg e
  have h3 := handleExhaustedCall_st cfg e
  have h4 := fun b => handleExceptionCall_st cfg hret e b
  mvcgen [callLadder, h1, h2, h3, h4]
  g_close

/-- `_call_without_retry` -/
theorem callWithoutRetry_st :
    ⦃fun w => ⌜Is {} w.trace⌝⦄ callWithoutRetry cfg
    ⦃post⟨fun v w => ⌜Is (stVal v) w.trace⌝, fun e w => ⌜G (.raised e) w.trace⌝⟩⦄ := by
  have h1 := noRetryStartHook_st cfg (Is {}) (stable_Is _)
  have h2 := invokeOp_st
  have h3 := fun v => noRetryEndHook_st cfg (Is (stVal v)) (stable_Is _)
  mvcgen [callWithoutRetry, h1, h2, h3]
  g_close

/-- the breaker let the call in (`b`), or not: then the refusal is in the log -/
structure IsB (b : Bool) (t : List (Req × Ans)) : Prop where
  is : Is {} t
  rej : b = false → Mon.rejected t = true

theorem stable_IsB (b : Bool) : Stable (IsB b) := fun x t hx h =>
  ⟨stable_Is _ x t hx h.is, fun hb => mono_rejected x t (h.rej hb)⟩

/-- `breaker.allow()` from the initial state -/
theorem breakerAllow_b (bc : Breaker.Cfg) :
    ⦃fun w => ⌜Is {} w.trace⌝⦄ breakerAllow bc
    ⦃post⟨fun d w => ⌜IsB d.1 w.trace⌝, fun _ _ => ⌜False⌝⟩⦄ := by
  mvcgen [breakerAllow]
  all_goals (try subst_vars) <;> (try intros)
  refine ⟨stable_Is _ (_, _) _ rfl (by assumption), fun hd => ?_⟩
  simp [Mon.rejected, hd]

/-- `check_breaker` -/
theorem checkBreaker_st :
    ⦃fun w => ⌜Is {} w.trace⌝⦄ checkBreaker cfg
    ⦃post⟨fun _ w => ⌜Is {} w.trace⌝, fun e w => ⌜G (.raised e) w.trace⌝⟩⦄ := by
  have h1 := breakerAllow_b
  have h2 := fun b => emitBreakerEvent_st cfg (IsB b) (stable_IsB b)
  mvcgen [checkBreaker, h1, h2]
  all_goals (try subst_vars) <;> (try intros) <;> (try split_conjs)
  all_goals first
    | assumption
    | exact ⟨by assumption, by assumption⟩
    | exact IsB.is (by assumption)
    | exact G.init_osrc (IsB.is (by assumption)) (by assumption)
    | exact Or.inl (IsB.rej (by assumption) (by simp_all))
    | skip

theorem callAdmitted_st (hret : cfg.hasRetry = false) :
    ⦃fun w => ⌜Is {} w.trace⌝⦄ callAdmitted cfg
    ⦃post⟨fun v w => ⌜G (.ret v) w.trace⌝, fun e w => ⌜G (.raised e) w.trace⌝⟩⦄ := by
  have h0 := checkBreaker_st cfg
  have h1 := checkAbortNoRetry_st cfg
  have h2 := callWithoutRetry_st cfg
  have h3 := fun v => recordSuccess_st cfg (Is (stVal v)) (stable_Is _)
  have h4 := callLadder_st cfg hret
  unfold callAdmitted
  simp only [hret, Bool.false_eq_true, if_false]
  mvcgen [h0, h1, h2, h3, h4]
  g_close

/-- `Policy.call` / `AsyncPolicy.call` without a retry component -/
theorem call_st (hret : cfg.hasRetry = false) :
    ⦃fun w => ⌜Is {} w.trace⌝⦄ Policy.call cfg
    ⦃post⟨fun v w => ⌜G (.ret v) w.trace⌝, fun e w => ⌜G (.raised e) w.trace⌝⟩⦄ := by
  have h0 := initCtx_st (Is {})
  have h1 := callAdmitted_st cfg hret
  have h2 := fun r => ensureSettled_st cfg (G r) (stable_G r)
  mvcgen [Policy.call, withFinally, h0, h1, h2]
  g_close

end call

/-! ### the theorems -/

/-- the world a call starts from -/
def startWorld (w : World) : World := { w with trace := [], timeline := [], opCalls := 0 }

theorem HSrc.callback {e : Exn} {t : List (Req × Ans)} (h : HSrc e t) :
    e = .stuck ∨ raisedByCallback t.reverse e = true := by
  refine h.imp id fun h => ?_
  rw [raisedByCallback, raisedBy_reverse]
  exact raisedBy_mono_pred (fun r hr => by cases r <;> simp_all [Mon.isAttemptHook, Mon.isOp]) h

theorem OSrc.callback {e : Exn} {t : List (Req × Ans)} (h : OSrc e t) :
    e = .stuck ∨ raisedByCallback t.reverse e = true := by
  refine h.2.imp id fun h => ?_
  rw [raisedByCallback, raisedBy_reverse]
  exact raisedBy_mono_pred (fun r hr => by cases r <;> simp_all [C11NR.isObsHook, Mon.isOp]) h

/-- from the invariant to the monitor -/
theorem ok_of_G (cfg : Cfg) (e : Entry) (t : List (Req × Ans)) (r : Res) (h : G r t) :
    Mon.C04NR.ok cfg e t.reverse r = true := by
  unfold Mon.C04NR.ok onceOk returnOk raiseOk
  cases happ : applies cfg e t.reverse with
  | false => simp
  | true =>
    have hrej : Mon.rejected t = false := by
      simp only [applies, rejected_reverse, Bool.and_eq_true, Bool.not_eq_true'] at happ
      exact happ.2
    rcases h with h | h
    · rw [hrej] at h; cases h
    · simp only [run_reverse, if_true]
      cases r with
      | ret v =>
        obtain ⟨h1, h2⟩ := h
        simp [h1, h2]
      | outcome o tl => exact h.elim
      | raised x =>
        obtain ⟨h1, h2⟩ := h
        simp only [h1, decide_true, Bool.true_and, Bool.or_eq_true, ownException, preflightAbort,
          Bool.and_eq_true, beq_iff_eq]
        rcases h2 with h2 | h2 | h2 | h2
        · exact Or.inl (Or.inl (Or.inl h2))
        · rcases h2.callback with h3 | h3
          · exact Or.inr h3
          · exact Or.inl (Or.inl (Or.inr h3))
        · rcases h2.callback with h3 | h3
          · exact Or.inr h3
          · exact Or.inl (Or.inl (Or.inr h3))
        · exact Or.inl (Or.inr ⟨⟨h2.1, h2.2.1⟩, h2.2.2⟩)

/--
**C04, no retry component.**  For every configuration, every entry point and every world (answer stream,
clock, breaker state), the run satisfies `Mon.C04NR.ok`: in a `Policy.call` of a policy whose `retry` is
`None` that the breaker did not refuse, the operation is invoked at most once; a returned value is the very
object that invocation returned; a raised exception is that invocation's own exception object, or an error
of another of the caller's callbacks (attempt hook, abort predicate, metric / log hook of a breaker event),
or the library's `AbortRetryError` for an abort poll that answered True before the operation was invoked —
never a substitute or a wrapper.
-/
theorem no_retry_call_faithful (cfg : Cfg) (e : Entry) (w : World) :
    Mon.C04NR.ok cfg e (runEntry cfg e w).2.trace.reverse (runEntry cfg e w).1 = true := by
  cases e with
  | call => simp [Mon.C04NR.ok, onceOk, returnOk, raiseOk, applies, Entry.isPolicy]
  | execute => simp [Mon.C04NR.ok, onceOk, returnOk, raiseOk, applies, Entry.isPolicy]
  | pexecute => simp [Mon.C04NR.ok, onceOk, returnOk, raiseOk, applies, Entry.isExecute]
  | pcall =>
    cases hret : cfg.hasRetry with
    | true => simp [Mon.C04NR.ok, onceOk, returnOk, raiseOk, applies, hret]
    | false =>
      have := adequacy (call_st cfg hret) (startWorld w) rfl
      simp only [runEntry, startWorld] at this ⊢
      split at this <;> rename_i heq <;> simp only [heq, toRes] <;> exact ok_of_G _ _ _ _ this

/-- …and therefore of every call in every script of calls and clock advances on one policy object. -/
theorem no_retry_call_faithful_script (cfg : Cfg) : ∀ (steps : List Step) (w : World),
    ∀ l ∈ (runScript cfg steps w).1, Mon.C04NR.ok cfg l.entry l.trace l.res = true := by
  intro steps
  induction steps with
  | nil => intro w l hl; simp [runScript] at hl
  | cons st rest ih =>
    intro w l hl
    cases st with
    | advance d => exact ih _ l (by simpa [runScript] using hl)
    | run e =>
      simp only [runScript, List.mem_cons] at hl
      rcases hl with rfl | hl
      · exact no_retry_call_faithful cfg e w
      · exact ih _ l hl

/-! ### the conjuncts, one by one (corollaries of `no_retry_call_faithful`) -/

section conjuncts
variable (cfg : Cfg) (e : Entry) (w : World)

theorem conjuncts_nr :
    onceOk cfg e (runEntry cfg e w).2.trace.reverse (runEntry cfg e w).1 = true ∧
    returnOk cfg e (runEntry cfg e w).2.trace.reverse (runEntry cfg e w).1 = true ∧
    raiseOk cfg e (runEntry cfg e w).2.trace.reverse (runEntry cfg e w).1 = true := by
  have h := no_retry_call_faithful cfg e w
  simp only [Mon.C04NR.ok, Bool.and_eq_true] at h
  exact ⟨h.1.1, h.1.2, h.2⟩

/-- **invoked_at_most_once_nr.**  The operation is invoked at most once. -/
theorem invoked_at_most_once_nr
    (happ : applies cfg e (runEntry cfg e w).2.trace.reverse = true) :
    (run (runEntry cfg e w).2.trace.reverse).ops ≤ 1 := by
  have h := (conjuncts_nr cfg e w).1
  simpa [onceOk, happ] using h

/-- **returns_the_value_nr.**  A value returned by `call()` is the very object the (one) invocation of the
    operation returned. -/
theorem returns_the_value_nr (v : Nat)
    (happ : applies cfg e (runEntry cfg e w).2.trace.reverse = true)
    (hr : (runEntry cfg e w).1 = .ret v) :
    (run (runEntry cfg e w).2.trace.reverse).ops = 1 ∧
    (run (runEntry cfg e w).2.trace.reverse).opVal = some v := by
  have h := (conjuncts_nr cfg e w).2.1
  rw [hr] at h
  simpa [returnOk, happ] using h

/-- `call()` never returns an outcome -/
theorem never_outcome_nr (o : Outcome) (tl : List TimelineEv)
    (happ : applies cfg e (runEntry cfg e w).2.trace.reverse = true) :
    (runEntry cfg e w).1 ≠ .outcome o tl := by
  intro hr
  have h := (conjuncts_nr cfg e w).2.1
  rw [hr] at h
  simp [returnOk, happ] at h

/-- **raises_own_exception_nr.**  An exception raised by `call()` is the very exception object the (one)
    invocation raised, or was raised by another callback in the log, or is the library's `AbortRetryError`
    after an abort poll that answered True before any invocation (and then there was none), or the model's
    `stuck`. -/
theorem raises_own_exception_nr (x : Exn)
    (happ : applies cfg e (runEntry cfg e w).2.trace.reverse = true)
    (hr : (runEntry cfg e w).1 = .raised x) :
    let t := (runEntry cfg e w).2.trace.reverse
    ((run t).ops = 1 ∧ (run t).opExc = some x) ∨ raisedByCallback t x = true ∨
    (x = .libAbort ∧ (run t).preAbort = true ∧ (run t).ops = 0) ∨ x = .stuck := by
  have h := (conjuncts_nr cfg e w).2.2
  rw [hr] at h
  simp only [raiseOk, happ, if_true, Bool.or_eq_true, ownException, preflightAbort, Bool.and_eq_true,
    beq_iff_eq] at h
  rcases h with ((h | h) | h) | h
  · exact Or.inl h
  · exact Or.inr (Or.inl h)
  · exact Or.inr (Or.inr (Or.inl ⟨h.1.1, h.1.2, h.2⟩))
  · exact Or.inr (Or.inr (Or.inr h))

end conjuncts

/-! Non-vacuity and teeth, at the level of the monitor alone (runs of the model are exercised through the
    compiled driver, never by kernel reduction). -/

/-- the operation's own exception is accepted … -/
example : Mon.C04NR.ok { hasRetry := false } .pcall
    [(.op 1, .raise (.ordinary 1 .transient) 0)] (.raised (.ordinary 1 .transient)) = true := by decide

/-- … a substitute is not … -/
example : Mon.C04NR.ok { hasRetry := false } .pcall
    [(.op 1, .raise (.ordinary 1 .transient) 0)] (.raised (.ordinary 2 .transient)) = false := by decide

/-- … nor a wrapper made by the library … -/
example : Mon.C04NR.ok { hasRetry := false } .pcall
    [(.op 1, .raise (.ordinary 1 .transient) 0)]
    (.raised (.libExhausted ⟨.maxAttemptsGlobal, 1, some .transient, some "o1", none, none⟩)) = false := by decide

/-- … nor a second invocation … -/
example : Mon.C04NR.ok { hasRetry := false } .pcall
    [(.op 1, .raise (.ordinary 1 .transient) 0), (.op 2, .value 5 0)] (.ret 5) = false := by decide

/-- … nor another value … -/
example : Mon.C04NR.ok { hasRetry := false } .pcall [(.op 1, .value 5 0)] (.ret 6) = false := by decide

/-- … nor the library's `AbortRetryError` without a pre-flight abort … -/
example : Mon.C04NR.ok { hasRetry := false, abortIf := true } .pcall
    [(.abortIf, .bool false 0), (.op 1, .value 5 0)] (.raised .libAbort) = false := by decide

/-- … while a pre-flight abort is accepted exactly when the operation was not invoked. -/
example : Mon.C04NR.ok { hasRetry := false, abortIf := true } .pcall
    [(.abortIf, .bool true 0)] (.raised .libAbort) = true := by decide

end Redress.Props.C04NR
