/-
  Redress.Props.C19 — "Built-in classifiers are total and follow the documented table and
  precedence".

  Model: `Redress/Model/Classify.lean` (read its header for what is and is not represented).
  Every theorem below quantifies over ALL exception records `e : PyExc` (all marker combinations,
  all type names, all `PyVal`s in the four attributes, all `args` lists), ALL integers `z : Int`
  and ALL strings; nothing is bounded.

  Totality.  Every model function is a total Lean function into `EClass`, so "returns an ErrorClass
  and never raises" holds of the *model* by construction (`total`); that the *Python* never raises
  is what the correspondence family `classifiers` checks (and how finding F9 was found: `str()` of a
  `sqlstate` attribute holding an int of more than 4300 digits, or a too deeply nested list, used to
  escape from `sqlstate_classifier` / `pyodbc_classifier`; repaired by /repo commits 12f78ca,
  fec6c4b; the model has that step explicitly — `pyStr … = none` — and `str_failure_is_unknown`
  is the repaired behaviour).

  What "marker types win over numeric status/code" means per classifier (all proved below):
    * default / strict (`_classify`): markers first, then the int code, then (default only) names.
    * http: `_coerce_status` FIRST — an int status/status_code/code (or arg in 100..599) decides by
      the http table alone, markers and names are not consulted (`http_of_status`,
      `http_status_beats_marker`); only without any int status does it defer to default_classifier.
    * sqlstate: a found SQLSTATE decides before markers (`sqlstate_of_code`), else default.
    * pyodbc: never looks at markers, status or names (`pyodbc_fallback`).
-/
import Redress.Lemmas.ClassifyLemmas

namespace Redress.C19

open Redress Redress.Classify

/-! ## totality (free in Lean) and the `str()` step -/

/-- Every classifier of the model returns one of the eight `ErrorClass` members for every
exception record.  (Trivial: the functions are total and `EClass` has eight constructors.) -/
theorem total (cl : Classifier) (e : PyExc) : run cl e ∈ EClass.all := by
  cases run cl e <;> simp [EClass.all]

/-- F9, repaired behaviour: when `str(sqlstate)` raises, both SQLSTATE classifiers answer UNKNOWN
(whatever markers, status, name or args the exception has). -/
theorem str_failure_is_unknown (e : PyExc) (ht : e.sqlstate.truthy = true)
    (hs : pyStr e.sqlstate = none) : sqlstate e = .unknown ∧ pyodbc e = .unknown := by
  simp [sqlstate, pyodbc, findSqlstate, ht, hs]

/-- …in particular for every int beyond CPython's int→str digit limit. -/
theorem huge_int_sqlstate_is_unknown (e : PyExc) (z : Int) (hz : e.sqlstate = .int z)
    (hbig : intStrLimit ≤ z.natAbs) : sqlstate e = .unknown ∧ pyodbc e = .unknown := by
  apply str_failure_is_unknown
  · have : z ≠ 0 := by
      intro h; subst h
      have : 0 < intStrLimit := Nat.pow_pos (by decide)
      simp at hbig; omega
    simp [hz, PyVal.truthy, this]
  · simp [hz, pyStr, Nat.not_lt.mpr hbig]

/-- non-vacuity: `10 ** 4300` is such an int -/
example : intStrLimit ≤ ((10 : Int) ^ 4300).natAbs := by
  simp [intStrLimit, Int.natAbs_pow]

/-! ## markers -/

theorem markerClass_eq_none (e : PyExc) : markerClass e = none ↔ e.noMarker = true := by
  unfold markerClass PyExc.noMarker
  cases e.isTimeout <;> cases e.isPermanent <;> cases e.isRateLimit <;> cases e.isConcurrency <;>
    cases e.isServer <;> simp

/-- The order among markers: TimeoutError, PermanentError, RateLimitError, ConcurrencyError,
ServerError — the first base class present decides. -/
theorem marker_order (e : PyExc) :
    (e.isTimeout = true → markerClass e = some .transient) ∧
    (e.isTimeout = false → e.isPermanent = true → markerClass e = some .permanent) ∧
    (e.isTimeout = false → e.isPermanent = false → e.isRateLimit = true →
      markerClass e = some .rateLimit) ∧
    (e.isTimeout = false → e.isPermanent = false → e.isRateLimit = false →
      e.isConcurrency = true → markerClass e = some .concurrency) ∧
    (e.isTimeout = false → e.isPermanent = false → e.isRateLimit = false →
      e.isConcurrency = false → e.isServer = true → markerClass e = some .serverError) := by
  unfold markerClass
  refine ⟨?_, ?_, ?_, ?_, ?_⟩ <;> intros <;> simp [*]

/-- `marker_wins`: if a marker base class is present, `_classify` returns its class whatever the
type name, the four attributes and the args are replaced by (with or without name heuristics). -/
theorem marker_wins (u : Bool) (e : PyExc) (k : EClass) (h : markerClass e = some k)
    (tname : String) (status statusCode code sqlstate : PyVal) (args : List PyVal) :
    classify u { e with tname, status, statusCode, code, sqlstate, args } = k := by
  have : markerClass { e with tname, status, statusCode, code, sqlstate, args } = markerClass e := rfl
  simp [classify, this, h]

theorem marker_wins' (u : Bool) (e : PyExc) (k : EClass) (h : markerClass e = some k) :
    classify u e = k := by
  simp [classify, h]

/-- each marker, spelled out for `default_classifier` and `strict_classifier` -/
theorem marker_rows (u : Bool) (e : PyExc) :
    (e.isTimeout = true → classify u e = .transient) ∧
    (e.isTimeout = false → e.isPermanent = true → classify u e = .permanent) ∧
    (e.isTimeout = false → e.isPermanent = false → e.isRateLimit = true →
      classify u e = .rateLimit) ∧
    (e.isTimeout = false → e.isPermanent = false → e.isRateLimit = false →
      e.isConcurrency = true → classify u e = .concurrency) ∧
    (e.isTimeout = false → e.isPermanent = false → e.isRateLimit = false →
      e.isConcurrency = false → e.isServer = true → classify u e = .serverError) := by
  obtain ⟨h1, h2, h3, h4, h5⟩ := marker_order e
  exact ⟨fun a => marker_wins' u e _ (h1 a), fun a b => marker_wins' u e _ (h2 a b),
    fun a b c => marker_wins' u e _ (h3 a b c), fun a b c d => marker_wins' u e _ (h4 a b c d),
    fun a b c d f => marker_wins' u e _ (h5 a b c d f)⟩

/-- non-vacuity / precedence among markers: a class deriving from all five is TRANSIENT; a
`PermanentError` with status 429 and an "Auth…" name is PERMANENT. -/
example : Classify.default { isTimeout := true, isPermanent := true, isRateLimit := true, isConcurrency := true, isServer := true, status := .int 429 } = .transient := by decide +kernel
example : Classify.default { isPermanent := true, isServer := true, tname := "AuthError", status := .int 429 } = .permanent := by
  apply marker_wins'; decide +kernel

/-! ## numeric code: `status or code`, ints only, bools are ints -/

/-- an int code that is in the table decides, whatever the type name is -/
theorem code_wins_over_name (u : Bool) (e : PyExc) (z : Int) (k : EClass)
    (hm : markerClass e = none) (hz : (codeOf e).asInt = some z) (hk : codeTable z = some k)
    (tname : String) : classify u { e with tname } = k := by
  have h1 : markerClass { e with tname } = markerClass e := rfl
  have h2 : codeOf { e with tname } = codeOf e := rfl
  simp [classify, h1, h2, hm, hz, hk]

theorem classify_of_code (u : Bool) (e : PyExc) (z : Int) (k : EClass)
    (hm : markerClass e = none) (hz : (codeOf e).asInt = some z) (hk : codeTable z = some k) :
    classify u e = k := by
  simp [classify, hm, hz, hk]

/-- what `_classify` does when the markers and the numeric code do not decide -/
def afterCode (u : Bool) (e : PyExc) : EClass :=
  if u then (nameClass e.tname).getD .unknown else .unknown

theorem classify_of_no_code (u : Bool) (e : PyExc) (hm : markerClass e = none)
    (hz : (codeOf e).asInt.bind codeTable = none) : classify u e = afterCode u e := by
  unfold classify afterCode
  simp only [hm, hz]
  cases u <;> simp <;> cases nameClass e.tname <;> rfl

section rows
variable (u : Bool) (e : PyExc) (hm : markerClass e = none)
include hm

theorem row_401 (hz : (codeOf e).asInt = some 401) : classify u e = .auth :=
  classify_of_code u e 401 _ hm hz codeTable_401
theorem row_403 (hz : (codeOf e).asInt = some 403) : classify u e = .permission :=
  classify_of_code u e 403 _ hm hz codeTable_403
theorem row_400 (hz : (codeOf e).asInt = some 400) : classify u e = .permanent :=
  classify_of_code u e 400 _ hm hz codeTable_400
theorem row_404 (hz : (codeOf e).asInt = some 404) : classify u e = .permanent :=
  classify_of_code u e 404 _ hm hz codeTable_404
theorem row_422 (hz : (codeOf e).asInt = some 422) : classify u e = .permanent :=
  classify_of_code u e 422 _ hm hz codeTable_422
theorem row_409 (hz : (codeOf e).asInt = some 409) : classify u e = .concurrency :=
  classify_of_code u e 409 _ hm hz codeTable_409
theorem row_408 (hz : (codeOf e).asInt = some 408) : classify u e = .transient :=
  classify_of_code u e 408 _ hm hz codeTable_408
theorem row_429 (hz : (codeOf e).asInt = some 429) : classify u e = .rateLimit :=
  classify_of_code u e 429 _ hm hz codeTable_429

/-- every 5xx, for all integers -/
theorem row_5xx (z : Int) (hz : (codeOf e).asInt = some z) (h : 500 ≤ z ∧ z < 600) :
    classify u e = .serverError :=
  classify_of_code u e z _ hm hz (codeTable_5xx z h)

/-- …and nothing outside: an int code outside the table falls through to the name heuristics
(default) or straight to UNKNOWN (strict). -/
theorem row_outside (z : Int) (hz : (codeOf e).asInt = some z) (h : ¬ InCodeTable z) :
    classify u e = afterCode u e :=
  classify_of_no_code u e hm (by simp [hz, (codeTable_eq_none z).mpr h])

/-- a code that is not an int at all (None, float — even 500.0 —, str "500", bytes, container,
object) is ignored -/
theorem row_not_int (hz : (codeOf e).asInt = none) : classify u e = afterCode u e :=
  classify_of_no_code u e hm (by simp [hz])

end rows

/-- non-vacuity of the row hypotheses, and the boundaries 499 / 500 / 599 / 600 -/
example : markerClass { status := .int 503 } = none ∧
    (codeOf { status := .int 503 }).asInt = some 503 ∧ (500 ≤ (503 : Int) ∧ (503 : Int) < 600) := by
  decide +kernel
example : strict { status := .int 499 } = .unknown ∧ strict { status := .int 500 } = .serverError ∧
    strict { status := .int 599 } = .serverError ∧ strict { status := .int 600 } = .unknown ∧
    strict { status := .int (-500) } = .unknown ∧ strict { code := .int 422 } = .permanent := by
  decide +kernel
example : ¬ InCodeTable 600 ∧ ¬ InCodeTable 499 ∧ ¬ InCodeTable 0 ∧ ¬ InCodeTable 1 := by
  unfold InCodeTable; omega
example : (codeOf { status := .float (.fin "500.0") }).asInt = none := by decide +kernel

/-- `_classify` depends on the exception only through its markers, the integer value of
`status or code`, and the type name. -/
theorem classify_congr (u : Bool) (e e' : PyExc) (h1 : markerClass e = markerClass e')
    (h2 : (codeOf e).asInt = (codeOf e').asInt) (h3 : e.tname = e'.tname) :
    classify u e = classify u e' := by
  unfold classify; rw [h1, h2, h3]

/-- `http_classifier` depends on the exception only through `_coerce_status` and, when that is
None, through what default_classifier says. -/
theorem http_congr (e e' : PyExc) (h1 : coerceStatus e = coerceStatus e')
    (h2 : Classify.default e = Classify.default e') : http e = http e' := by
  unfold http; rw [h1, h2]

/-- `isinstance(True, int)`: a bool status / status_code / code behaves as the int 1 / 0, in
`_classify` and in `http_classifier`. -/
theorem bool_is_int (u : Bool) (e : PyExc) (b : Bool) :
    classify u { e with status := .bool b } = classify u { e with status := .int (if b then 1 else 0) }
    ∧ classify u { e with code := .bool b } = classify u { e with code := .int (if b then 1 else 0) }
    ∧ http { e with status := .bool b } = http { e with status := .int (if b then 1 else 0) }
    ∧ http { e with statusCode := .bool b } = http { e with statusCode := .int (if b then 1 else 0) }
    ∧ http { e with code := .bool b } = http { e with code := .int (if b then 1 else 0) } := by
  have c1 : ∀ u, classify u { e with status := .bool b }
      = classify u { e with status := .int (if b then 1 else 0) } := fun u =>
    classify_congr u _ _ rfl (by cases b <;> simp [codeOf, PyVal.or, PyVal.truthy, PyVal.asInt]) rfl
  have c2 : ∀ u, classify u { e with code := .bool b }
      = classify u { e with code := .int (if b then 1 else 0) } := fun u =>
    classify_congr u _ _ rfl
      (by cases b <;> cases h : e.status.truthy <;> simp [codeOf, PyVal.or, h, PyVal.asInt])
      rfl
  refine ⟨c1 u, c2 u, ?_, ?_, ?_⟩
  · exact http_congr _ _ (by cases b <;> simp [coerceStatus, PyVal.asInt]) (c1 true)
  · exact http_congr _ _ (by cases b <;> simp [coerceStatus, PyVal.asInt])
      (classify_congr true _ _ rfl rfl rfl)
  · exact http_congr _ _ (by cases b <;> simp [coerceStatus, PyVal.asInt]) (c2 true)

/-- so `status = True` is the code 1, which is in no row -/
example : strict { status := .bool true, code := .int 500 } = .unknown := by decide +kernel
example : http { status := .bool true, code := .int 500 } = .unknown := by decide +kernel

/-- The falsy values of Python: each of them in `status` makes `_classify` look at `code`. -/
theorem falsy_values :
    PyVal.none.truthy = false ∧ (PyVal.bool false).truthy = false ∧ (PyVal.int 0).truthy = false ∧
    (PyVal.float (.fin "0.0")).truthy = false ∧ (PyVal.float (.fin "-0.0")).truthy = false ∧
    (PyVal.str "").truthy = false ∧ (PyVal.bytes 0).truthy = false ∧
    (∀ ok, (PyVal.container 0 ok).truthy = false) ∧ (PyVal.obj false).truthy = false ∧
    -- and some truthy ones: NaN, ±inf, -1, a huge int, "0", b"\0", [0], object()
    (PyVal.float .nan).truthy = true ∧ (PyVal.float .inf).truthy = true ∧
    (PyVal.float .negInf).truthy = true ∧ (PyVal.int (-1)).truthy = true ∧
    (PyVal.str "0").truthy = true ∧ (PyVal.bytes 1).truthy = true ∧
    (∀ ok, (PyVal.container 1 ok).truthy = true) ∧ (PyVal.obj true).truthy = true := by
  refine ⟨by decide, by decide, by decide, by decide, by decide, by decide, by decide,
    fun ok => by cases ok <;> decide, by decide, by decide, by decide, by decide, by decide,
    by decide, by decide, fun ok => by cases ok <;> decide, by decide⟩

theorem int_truthy (z : Int) : (PyVal.int z).truthy = true ↔ z ≠ 0 := by simp [PyVal.truthy]

/-- `status or code`: a falsy `status` (None, False, 0, 0.0, "", b"", empty container) makes the
`code` attribute the code — the status is as good as absent. -/
theorem falsy_status_consults_code (u : Bool) (e : PyExc) (h : e.status.truthy = false) :
    codeOf e = e.code ∧ classify u e = classify u { e with status := .none } := by
  have h1 : codeOf e = e.code := by simp [codeOf, PyVal.or, h]
  have h2 : codeOf { e with status := .none } = e.code := by simp [codeOf, PyVal.or, PyVal.truthy]
  have h3 : markerClass { e with status := .none } = markerClass e := rfl
  exact ⟨h1, by simp [classify, h1, h2, h3]⟩

/-- …and a truthy `status` hides `code` completely, even when the status is not an int -/
theorem truthy_status_shadows_code (u : Bool) (e : PyExc) (c' : PyVal)
    (h : e.status.truthy = true) : classify u { e with code := c' } = classify u e := by
  have h1 : codeOf e = e.status := by simp [codeOf, PyVal.or, h]
  have h2 : codeOf { e with code := c' } = e.status := by simp [codeOf, PyVal.or, h]
  have h3 : markerClass { e with code := c' } = markerClass e := rfl
  simp [classify, h1, h2, h3]

example : strict { status := .int 0, code := .int 429 } = .rateLimit ∧
    strict { status := .str "", code := .int 429 } = .rateLimit ∧
    strict { status := .float (.fin "-0.0"), code := .int 429 } = .rateLimit ∧
    strict { status := .str "x", code := .int 429 } = .unknown ∧
    strict { status := .float .nan, code := .int 429 } = .unknown := by decide +kernel

/-! ## strict never looks at names -/

theorem strict_ignores_name (e : PyExc) (tname' : String) :
    strict { e with tname := tname' } = strict e := rfl

/-- the form of DESIGN §5: two exceptions that differ at most in their type name -/
theorem strict_ignores_name' (e e' : PyExc)
    (h : { e with tname := e'.tname } = e') : strict e = strict e' := by
  rw [← h]; rfl

example : strict { tname := "AuthTimeoutForbiddenConnection" } = .unknown := by decide +kernel

/-! ## name heuristics of default_classifier -/

/-- the lower-cased type name -/
def lname (e : PyExc) : List Char := asciiLower e.tname.toList

def NameAuth (n : List Char) : Prop :=
  "auth".toList <:+: n ∨ "unauthoriz".toList <:+: n ∨ "credential".toList <:+: n
def NamePermission (n : List Char) : Prop :=
  "forbid".toList <:+: n ∨ "permission".toList <:+: n
def NameTransient (n : List Char) : Prop :=
  "timeout".toList <:+: n ∨ "connection".toList <:+: n

theorem nameClass_spec (t : String) :
    let n := asciiLower t.toList
    (NameAuth n → nameClass t = some .auth) ∧
    (¬ NameAuth n → NamePermission n → nameClass t = some .permission) ∧
    (¬ NameAuth n → ¬ NamePermission n → NameTransient n → nameClass t = some .transient) ∧
    (¬ NameAuth n → ¬ NamePermission n → ¬ NameTransient n → nameClass t = none) := by
  intro n
  have ha : (hasInfix "auth".toList n || hasInfix "unauthoriz".toList n
      || hasInfix "credential".toList n) = true ↔ NameAuth n := by
    simp only [Bool.or_eq_true, hasInfix_iff, NameAuth, or_assoc]
  have hp : (hasInfix "forbid".toList n || hasInfix "permission".toList n) = true ↔
      NamePermission n := by
    simp only [Bool.or_eq_true, hasInfix_iff, NamePermission]
  have ht : (hasInfix "timeout".toList n || hasInfix "connection".toList n) = true ↔
      NameTransient n := by
    simp only [Bool.or_eq_true, hasInfix_iff, NameTransient]
  unfold nameClass
  refine ⟨fun h => ?_, fun h1 h2 => ?_, fun h1 h2 h3 => ?_, fun h1 h2 h3 => ?_⟩
  · rw [if_pos (ha.mpr h)]
  · rw [if_neg (mt ha.mp h1), if_pos (hp.mpr h2)]
  · rw [if_neg (mt ha.mp h1), if_neg (mt hp.mp h2), if_pos (ht.mpr h3)]
  · rw [if_neg (mt ha.mp h1), if_neg (mt hp.mp h2), if_neg (mt ht.mp h3)]

/-- `default_name_heuristics`: with no marker and no deciding int code, the (ASCII-)lower-cased
type name decides: auth/unauthoriz/credential → AUTH; else forbid/permission → PERMISSION; else
timeout/connection → TRANSIENT; else UNKNOWN.  Precedence AUTH > PERMISSION > TRANSIENT is the
absence of negative hypotheses in the earlier rows. -/
theorem default_name_heuristics (e : PyExc) (hm : markerClass e = none)
    (hc : (codeOf e).asInt.bind codeTable = none) :
    (NameAuth (lname e) → Classify.default e = .auth) ∧
    (¬ NameAuth (lname e) → NamePermission (lname e) → Classify.default e = .permission) ∧
    (¬ NameAuth (lname e) → ¬ NamePermission (lname e) → NameTransient (lname e) →
      Classify.default e = .transient) ∧
    (¬ NameAuth (lname e) → ¬ NamePermission (lname e) → ¬ NameTransient (lname e) →
      Classify.default e = .unknown) := by
  obtain ⟨h1, h2, h3, h4⟩ := nameClass_spec e.tname
  have hd : Classify.default e = (nameClass e.tname).getD .unknown := by
    rw [Classify.default, classify_of_no_code true e hm hc]; rfl
  refine ⟨fun a => ?_, fun a b => ?_, fun a b c => ?_, fun a b c => ?_⟩
  · rw [hd, h1 a]; rfl
  · rw [hd, h2 a b]; rfl
  · rw [hd, h3 a b c]; rfl
  · rw [hd, h4 a b c]; rfl

/-- case-insensitivity: only the lower-cased name matters … -/
theorem default_case_insensitive (e : PyExc) (t t' : String)
    (h : asciiLower t.toList = asciiLower t'.toList) :
    Classify.default { e with tname := t } = Classify.default { e with tname := t' } := by
  have hn : nameClass t = nameClass t' := by unfold nameClass; rw [h]
  have h1 : markerClass { e with tname := t } = markerClass { e with tname := t' } := rfl
  have h2 : codeOf { e with tname := t } = codeOf { e with tname := t' } := rfl
  simp [Classify.default, classify, h1, h2, hn]

/-- non-vacuity and precedence examples -/
example : NameAuth (lname { tname := "MyAUTHError" }) := Or.inl (by decide +kernel)
example : Classify.default { tname := "UnAuthorized" } = .auth ∧ Classify.default { tname := "CREDENTIALS" } = .auth ∧
    Classify.default { tname := "Forbidden" } = .permission ∧
    Classify.default { tname := "PermissionDenied" } = .permission ∧
    Classify.default { tname := "ReadTimeout" } = .transient ∧
    Classify.default { tname := "ConnectionResetError" } = .transient ∧
    -- several match: AUTH > PERMISSION > TRANSIENT
    Classify.default { tname := "TimeoutForbiddenAuth" } = .auth ∧
    Classify.default { tname := "ConnectionPermission" } = .permission ∧
    -- near misses
    Classify.default { tname := "Timeou" } = .unknown ∧ Classify.default { tname := "Time_out" } = .unknown ∧
    -- code beats name, marker beats code
    Classify.default { tname := "AuthError", status := .int 503 } = .serverError ∧
    Classify.default { tname := "AuthError", status := .int 503, isRateLimit := true } = .rateLimit ∧
    -- a code outside the table lets the name decide
    Classify.default { tname := "AuthError", status := .int 418 } = .auth := by decide +kernel

/-! ## http_classifier -/

/-- `http_coerce_precedence`: `status`, then `status_code`, then `code` — the first that is an int
(a bool or 0 included) wins; then the first int arg in 100..599. -/
theorem http_coerce_precedence (e : PyExc) :
    (∀ z, e.status.asInt = some z → coerceStatus e = some z) ∧
    (∀ z, e.status.asInt = none → e.statusCode.asInt = some z → coerceStatus e = some z) ∧
    (∀ z, e.status.asInt = none → e.statusCode.asInt = none → e.code.asInt = some z →
      coerceStatus e = some z) ∧
    (e.status.asInt = none → e.statusCode.asInt = none → e.code.asInt = none →
      coerceStatus e = firstStatusArg e.args) := by
  unfold coerceStatus
  refine ⟨fun z h => ?_, fun z h1 h2 => ?_, fun z h1 h2 h3 => ?_, fun h1 h2 h3 => ?_⟩
  · simp [h]
  · simp [h1, h2]
  · simp [h1, h2, h3]
  · simp [h1, h2, h3]

/-- the args scan: the first int (bools count) in 100..599; ints outside the range are skipped -/
theorem http_first_arg {args : List PyVal} {z : Int} :
    firstStatusArg args = some z ↔
      ∃ pre a post, args = pre ++ a :: post ∧ a.asInt = some z ∧ (100 ≤ z ∧ z ≤ 599) ∧
        ∀ b ∈ pre, ∀ w, b.asInt = some w → ¬ (100 ≤ w ∧ w ≤ 599) :=
  firstStatusArg_eq_some

theorem http_no_arg {args : List PyVal} :
    firstStatusArg args = none ↔ ∀ a ∈ args, ∀ w, a.asInt = some w → ¬ (100 ≤ w ∧ w ≤ 599) :=
  firstStatusArg_eq_none

/-- once an int status is found, the http table alone decides: markers, names and the other
attributes are not consulted -/
theorem http_of_status (e : PyExc) (z : Int) (h : coerceStatus e = some z) :
    http e = httpTable z := by
  simp [http, h]

/-- without any int status, `http_classifier` is `default_classifier` -/
theorem http_no_status (e : PyExc) (h : coerceStatus e = none) : http e = Classify.default e := by
  simp [http, h]

/-- `http_table`: all rows, for all integers -/
theorem http_table (e : PyExc) (z : Int) (h : coerceStatus e = some z) :
    (z = 401 → http e = .auth) ∧ (z = 403 → http e = .permission) ∧
    (z = 400 ∨ z = 404 → http e = .permanent) ∧ (z = 409 → http e = .concurrency) ∧
    (z = 408 → http e = .transient) ∧ (z = 429 → http e = .rateLimit) ∧
    (500 ≤ z ∧ z < 600 → http e = .serverError) ∧
    (¬ InHttpTable z → http e = .unknown) := by
  rw [http_of_status e z h]
  refine ⟨?_, ?_, ?_, ?_, ?_, ?_, httpTable_5xx z, httpTable_outside z⟩ <;> intro hz <;>
    unfold httpTable <;> grind

theorem http_401 (e : PyExc) (h : coerceStatus e = some 401) : http e = .auth :=
  (http_table e 401 h).1 rfl
theorem http_403 (e : PyExc) (h : coerceStatus e = some 403) : http e = .permission :=
  (http_table e 403 h).2.1 rfl
theorem http_400 (e : PyExc) (h : coerceStatus e = some 400) : http e = .permanent :=
  (http_table e 400 h).2.2.1 (Or.inl rfl)
theorem http_404 (e : PyExc) (h : coerceStatus e = some 404) : http e = .permanent :=
  (http_table e 404 h).2.2.1 (Or.inr rfl)
theorem http_409 (e : PyExc) (h : coerceStatus e = some 409) : http e = .concurrency :=
  (http_table e 409 h).2.2.2.1 rfl
theorem http_408 (e : PyExc) (h : coerceStatus e = some 408) : http e = .transient :=
  (http_table e 408 h).2.2.2.2.1 rfl
theorem http_429 (e : PyExc) (h : coerceStatus e = some 429) : http e = .rateLimit :=
  (http_table e 429 h).2.2.2.2.2.1 rfl
theorem http_5xx (e : PyExc) (z : Int) (h : coerceStatus e = some z) (hz : 500 ≤ z ∧ z < 600) :
    http e = .serverError :=
  (http_table e z h).2.2.2.2.2.2.1 hz

/-- an int status outside every row gives UNKNOWN *without* consulting default_classifier —
whatever markers and name the exception has -/
theorem http_outside_unknown (e : PyExc) (z : Int) (h : coerceStatus e = some z)
    (hz : ¬ InHttpTable z) : http e = .unknown :=
  (http_table e z h).2.2.2.2.2.2.2 hz

/-- 422 is PERMANENT for default_classifier but not a row of http_classifier -/
theorem http_422 (e : PyExc) (h : coerceStatus e = some 422) : http e = .unknown :=
  http_outside_unknown e 422 h (by unfold InHttpTable; omega)

/-- on its own rows http_classifier agrees with the table of `_classify` -/
theorem http_agrees_with_default_table (e : PyExc) (z : Int) (h : coerceStatus e = some z)
    (hz : InHttpTable z) : some (http e) = codeTable z := by
  rw [http_of_status e z h]; exact httpTable_eq_codeTable z hz

/-- `status = 0` / `status = False` is an int status: UNKNOWN, `code` is never looked at
(contrast `falsy_status_consults_code` for default_classifier) -/
theorem http_falsy_int_status_decides (e : PyExc)
    (h : e.status = .int 0 ∨ e.status = .bool false) : http e = .unknown := by
  have : coerceStatus e = some 0 := by
    rcases h with h | h <;> simp [coerceStatus, h, PyVal.asInt]
  exact http_outside_unknown e 0 this (by unfold InHttpTable; omega)

/-- non-vacuity; precedence; the marker does NOT win in http_classifier -/
example : coerceStatus { status := .str "x", statusCode := .int 404, code := .int 500 } = some 404 := by
  decide +kernel
example : http { status := .none, statusCode := .float .nan, code := .bool true, args := [.int 500] } = .unknown := by decide +kernel
example : http { args := [.bool true, .int 99, .int 600, .float (.fin "100.0"), .str "500", .int 599, .int 100] } = .serverError := by decide +kernel
example : http { tname := "AuthError", isPermanent := true, status := .int 422 } = .unknown ∧
    Classify.default { tname := "AuthError", isPermanent := true, status := .int 422 } = .permanent ∧
    Classify.default { tname := "AuthError", status := .int 422 } = .permanent := by decide +kernel
theorem http_status_beats_marker :
    http { isPermanent := true, status := .int 500 } = .serverError ∧
    Classify.default { isPermanent := true, status := .int 500 } = .permanent := by decide +kernel
example : http { status := .int 0, code := .int 500 } = .unknown ∧
    Classify.default { status := .int 0, code := .int 500 } = .serverError := by decide +kernel

/-! ## SQLSTATE: the table, for ALL strings -/

/-- `sqlstate_rows`: 40001, 40P01 → CONCURRENCY; HYT00, HYT01, 08S01 and every code starting with
"08" → TRANSIENT; every code starting with "28" → AUTH; 42000, 42P01 → PERMANENT; every other
string (of any length) → UNKNOWN. -/
theorem sqlstate_rows :
    sqlTable "40001".toList = .concurrency ∧ sqlTable "40P01".toList = .concurrency ∧
    sqlTable "HYT00".toList = .transient ∧ sqlTable "HYT01".toList = .transient ∧
    sqlTable "08S01".toList = .transient ∧
    (∀ rest, sqlTable ('0' :: '8' :: rest) = .transient) ∧
    (∀ rest, sqlTable ('2' :: '8' :: rest) = .auth) ∧
    sqlTable "42000".toList = .permanent ∧ sqlTable "42P01".toList = .permanent ∧
    (∀ code, code ≠ "40001".toList → code ≠ "40P01".toList → code ≠ "HYT00".toList →
      code ≠ "HYT01".toList → code ≠ "08S01".toList → code ≠ "42000".toList →
      code ≠ "42P01".toList → ¬ "08".toList <+: code → ¬ "28".toList <+: code →
      sqlTable code = .unknown) := by
  refine ⟨by decide, by decide, by decide, by decide, by decide, sqlTable_08, sqlTable_28,
    by decide, by decide, ?_⟩
  intro code h1 h2 h3 h4 h5 h6 h7 h8 h9
  exact sqlTable_other code ⟨h1, h2, h3, h4, h5, h6, h7⟩ h8 h9

/-- non-vacuity of the last row -/
example : sqlTable "40002".toList = .unknown ∧ sqlTable "HYT02".toList = .unknown ∧
    sqlTable "80001".toList = .unknown ∧ sqlTable "hyt00".toList = .unknown ∧
    sqlTable "0".toList = .unknown ∧ sqlTable "None".toList = .unknown := by decide +kernel

/-- a found SQLSTATE decides before anything else (markers included) -/
theorem sqlstate_of_code (e : PyExc) (c : List Char) (h : findSqlstate findWord e = .code c) :
    sqlstate e = sqlTable c := by
  simp [sqlstate, h]

theorem pyodbc_of_code (e : PyExc) (c : List Char) (h : findSqlstate findBracket e = .code c) :
    pyodbc e = sqlTable c := by
  simp [pyodbc, h]

/-- a truthy `sqlstate` attribute is used (through `str()`) by both, the args are not searched -/
theorem sqlstate_attr_wins (find : List Char → Option (List Char)) (e : PyExc) (c : List Char)
    (ht : e.sqlstate.truthy = true) (hs : pyStr e.sqlstate = some c) :
    findSqlstate find e = .code c := by
  simp [findSqlstate, ht, hs]

/-- a falsy `sqlstate` attribute (None, "", 0, …) makes both search the args -/
theorem sqlstate_falsy_attr_searches_args (find : List Char → Option (List Char)) (e : PyExc)
    (ht : e.sqlstate.truthy = false) :
    findSqlstate find e = (match extract find e.args with | some c => .code c | none => .none) := by
  unfold findSqlstate; rw [if_neg (by simp [ht])]
  cases extract find e.args <;> rfl

/-- `_extract_sqlstate`: non-strings are skipped, strings without a match are skipped, the first
string with a match decides -/
theorem extract_spec (find : List Char → Option (List Char)) (v : PyVal) (rest : List PyVal) :
    (∀ s m, v = .str s → find s.toList = some m → extract find (v :: rest) = some m) ∧
    (∀ s, v = .str s → find s.toList = none → extract find (v :: rest) = extract find rest) ∧
    ((∀ s, v ≠ .str s) → extract find (v :: rest) = extract find rest) := by
  refine ⟨fun s m hv hf => ?_, fun s hv hf => ?_, fun hv => ?_⟩
  · subst hv; simp [extract, hf]
  · subst hv; simp [extract, hf]
  · cases v <;> simp_all [extract]

/-- `sqlstate_vs_pyodbc_fallback`: the two classifiers agree whenever they look at the same
SQLSTATE — always when the attribute is truthy — and differ exactly in the fallback: no SQLSTATE
→ `default_classifier` for sqlstate_classifier, UNKNOWN for pyodbc_classifier. -/
theorem sqlstate_vs_pyodbc_fallback (e : PyExc) :
    (e.sqlstate.truthy = true → sqlstate e = pyodbc e) ∧
    (∀ c, findSqlstate findWord e = .code c → findSqlstate findBracket e = .code c →
      sqlstate e = pyodbc e) ∧
    (findSqlstate findWord e = .none → sqlstate e = Classify.default e) ∧
    (findSqlstate findBracket e = .none → pyodbc e = .unknown) ∧
    (findSqlstate findWord e = .none → findSqlstate findBracket e = .none →
      (sqlstate e = pyodbc e ↔ Classify.default e = .unknown)) := by
  refine ⟨fun ht => ?_, fun c h1 h2 => ?_, fun h => ?_, fun h => ?_, fun h1 h2 => ?_⟩
  · cases hs : pyStr e.sqlstate <;> simp [sqlstate, pyodbc, findSqlstate, ht, hs]
  · simp [sqlstate, pyodbc, h1, h2]
  · simp [sqlstate, h]
  · simp [pyodbc, h]
  · simp [sqlstate, pyodbc, h1, h2]

/-- non-vacuity: they do differ in the fallback, and the two regexes can pick different codes -/
example : sqlstate { tname := "ConnectionError" } = .transient ∧
    pyodbc { tname := "ConnectionError" } = .unknown := by decide +kernel
example : sqlstate { isTimeout := true, args := [.str "nothing"] } = .transient ∧
    pyodbc { isTimeout := true, args := [.str "nothing"] } = .unknown := by decide +kernel
example : sqlstate { args := [.str "ERROR [40001] serialization failure"] } = .unknown ∧
    pyodbc { args := [.str "ERROR [40001] serialization failure"] } = .concurrency := by decide +kernel
example : sqlstate { isPermanent := true, sqlstate := .str "08001" } = .transient := by decide +kernel
example : sqlstate { sqlstate := .int 40001 } = .concurrency ∧
    sqlstate { sqlstate := .int 28 } = .auth ∧
    sqlstate { sqlstate := .float (.fin "28.5") } = .auth ∧
    sqlstate { sqlstate := .bool true, args := [.str "40001"] } = .unknown ∧
    sqlstate { sqlstate := .bytes 5, args := [.str "40001"] } = .unknown ∧
    sqlstate { sqlstate := .int 0, args := [.str "40001"] } = .concurrency := by decide +kernel

/-! ## the two regexes -/

/-- a bare 5-character code is found by the `\b…\b` regex -/
theorem bare_code_found (m : List Char) (hl : m.length = 5) (hc : m.all isCode = true) :
    findWord m = some m := by
  have := searchWord_at_start (post := []) hl hc (by simp [RightB])
  simpa [findWord] using this

/-- `[HYT00]…` is found by both regexes -/
theorem bracketed_code_found_by_both (m post : List Char) (hl : m.length = 5)
    (hc : m.all isCode = true) :
    findBracket ('[' :: m ++ ']' :: post) = some m ∧
    (∃ m', findWord ('[' :: m ++ ']' :: post) = some m') := by
  refine ⟨searchBracket_at_start hl hc, ?_⟩
  have h := searchWord_complete (p := false) (pre := ['[']) (post := ']' :: post) hl hc
    (Or.inr ⟨[], '[', rfl, by decide⟩) (by simp [RightB]; decide)
  simp only [List.cons_append, List.nil_append] at h
  exact Option.isSome_iff_exists.mp (by simpa [findWord] using h)

/-- …and when the bracketed code comes first, both return *that* code -/
theorem bracketed_code_first (m post : List Char) (hl : m.length = 5) (hc : m.all isCode = true) :
    findBracket ('[' :: m ++ ']' :: post) = some m ∧
    findWord ('[' :: m ++ ']' :: post) = some m := by
  refine ⟨searchBracket_at_start hl hc, ?_⟩
  have h := searchWord_at_start (post := ']' :: post) hl hc (by simp [RightB]; decide)
  unfold findWord searchWord
  have h0 : wordMatchHere ('[' :: (m ++ ']' :: post)) = none := by
    unfold wordMatchHere
    match m, hl with
    | a :: t, _ => simp; intro _ hh; simp [isCode] at hh
  simp only [List.cons_append] at h0 ⊢
  simp [h0]
  have : isWord '[' = false := by decide +kernel
  rw [this]; exact h

/-- whatever the pyodbc regex finds, the sqlstate regex finds something too (`[` and `]` are word
boundaries) — possibly an earlier, different 5-character word -/
theorem bracket_found_implies_word_found (s : List Char) (h : (findBracket s).isSome = true) :
    (findWord s).isSome = true := by
  obtain ⟨m, hm⟩ := Option.isSome_iff_exists.mp h
  obtain ⟨pre, post, hs, hl, hc⟩ := searchBracket_sound hm
  have := searchWord_complete (p := false) (pre := pre ++ ['[']) (post := ']' :: post) hl hc
    (Or.inr ⟨pre, '[', rfl, by decide⟩) (by simp [RightB]; decide)
  rw [hs]
  simpa [findWord] using this

/-- soundness of both searches: what is returned is a 5-character `[0-9A-Z]` word that occurs in
the string, delimited as the regex demands -/
theorem word_regex_sound (s m : List Char) (h : findWord s = some m) :
    ∃ pre post, s = pre ++ m ++ post ∧ m.length = 5 ∧ m.all isCode = true ∧
      LeftB false pre ∧ RightB post :=
  searchWord_sound h

theorem bracket_regex_sound (s m : List Char) (h : findBracket s = some m) :
    ∃ pre post, s = pre ++ '[' :: m ++ ']' :: post ∧ m.length = 5 ∧ m.all isCode = true :=
  searchBracket_sound h

/-- completeness of both searches: a properly delimited code anywhere in the string is enough for a
match to be reported -/
theorem word_regex_complete (pre m post : List Char) (hl : m.length = 5)
    (hc : m.all isCode = true) (hL : LeftB false pre) (hr : RightB post) :
    (findWord (pre ++ m ++ post)).isSome = true :=
  searchWord_complete hl hc hL hr

theorem bracket_regex_complete (pre m post : List Char) (hl : m.length = 5)
    (hc : m.all isCode = true) : (findBracket (pre ++ '[' :: m ++ ']' :: post)).isSome = true :=
  searchBracket_complete hl hc

example : findWord "[HYT00] [Microsoft][ODBC] Login timeout".toList = some "HYT00".toList ∧
    findBracket "[HYT00] [Microsoft][ODBC] Login timeout".toList = some "HYT00".toList ∧
    findWord "xHYT00".toList = none ∧ findWord "HYT00_".toList = none ∧
    findWord "HYT000".toList = none ∧ findWord "(HYT00)".toList = some "HYT00".toList ∧
    findWord "hyt00".toList = none ∧ findBracket "[HYT0]".toList = none ∧
    findBracket "[[40001]]".toList = some "40001".toList ∧
    findWord "ab 12345 cd".toList = some "12345".toList := by decide +kernel
example : "HYT00".toList.length = 5 ∧ "HYT00".toList.all isCode = true := by decide +kernel

/-! ## optional-library classifiers with the library absent -/

/-- `absent_lib_is_default`: definitional in the model (`optionalAbsent` *is* `default`, because
each of the five modules begins `try: import_module(…) except Exception: return
default_classifier(exc)`); the content is in the correspondence, which calls the five real
functions with the libraries absent (and with `import_module` forced to raise). -/
theorem absent_lib_is_default (lib : Lib) (e : PyExc) :
    run (.optional lib) e = run .default e := rfl

/-! ## the model delivers everything the documented table promises -/

/-- `model_meets_spec`: for every classifier and every exception record, the model's answer
satisfies the Lean-side judge `Spec.ok` that the harness applies to the implementation's answers
(documented markers, status rows, name rows, SQLSTATE rows). -/
theorem model_meets_spec (cl : Classifier) (e : PyExc) : Spec.ok cl e (run cl e) = true := by
  unfold Spec.ok
  cases cl with
  | default => simp [Spec.expected, run, Spec.dflt_eq]
  | strict => simp [Spec.expected, run, Spec.strict_eq]
  | optional lib => simp [Spec.expected, run, optionalAbsent, Spec.dflt_eq]
  | http =>
    simp only [Spec.expected, run]
    cases hz : coerceStatus e with
    | none => simp
    | some z =>
      cases hk : Spec.statusRow z with
      | none => simp [hk]
      | some k => simp [hk, http_of_status e z hz, Spec.statusRow_http z k hk]
  | sqlstate =>
    simp only [Spec.expected, run]
    cases hc : Spec.sqlCode findWord e with
    | none => simp
    | some c =>
      cases hk : Spec.sqlRow c with
      | none => simp [hk]
      | some k =>
        simp [hk, sqlstate_of_code e c (Spec.sqlCode_found _ e c hc), Spec.sqlRow_sound c k hk]
  | pyodbc =>
    simp only [Spec.expected, run]
    cases hc : Spec.sqlCode findBracket e with
    | none => simp
    | some c =>
      cases hk : Spec.sqlRow c with
      | none => simp [hk]
      | some k =>
        simp [hk, pyodbc_of_code e c (Spec.sqlCode_found _ e c hc), Spec.sqlRow_sound c k hk]

end Redress.C19
