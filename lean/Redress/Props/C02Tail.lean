/-
  C02 (tail guard) — the deadline envelope under a WEAKER environment assumption than `Mon.C02.ok`'s.

  `Mon.C02.ok` judges a run only when it is `quiet`: every exchange other than the operation and the
  sleeper has duration 0.  The library, however, measures the time remaining AFTER the classifier, the
  result classifier and the strategy's `record_failure` hook have run (`handleFailure2` reads the clock
  a second time after `stratRecordFailure`, and `grantRetry` clamps the backoff to `deadline - el` of
  THAT reading).  So time may pass in those callbacks too.  `Mon.C02.okTail` is `Mon.C02.ok` with the
  guard `quietTail` (time passes only in `free` requests); this file proves it of every model run.

  The proof reuses the abstract part of Props/C02 (`Snap`, `Keep`, `CoreS`, `TopS` … `FinS` and the
  implications between them — none of which says what `Snap.quiet` is) and re-runs the chain of
  procedure specifications with `Snap.quiet := QuietT (log so far)`.  Two leaves change sides: the
  classifier and `strategy.record_failure` are no longer inert (the monitor's clock moves); they keep
  the mid-attempt invariant `MidS` instead, which is stable under the passage of time.
-/
import Redress.Props.C02
import Redress.MonitorsNR

open Std.Do

set_option linter.unusedSimpArgs false

-- (`Mon.C02.free`, `quietTail`, `okTail` are defined in Redress/MonitorsNR.lean)

namespace Redress.Props.C02Tail
open Redress Redress.Retry Redress.Mon Redress.Mon.C02 Redress.Props.C02

/-! ### the guards compared -/

theorem free_of_op_sleeper (r : Req) (h : isOp r = true ∨ isSleeper r = true) : free r = true := by
  cases r <;> simp_all [isOp, isSleeper, free]

/-- `quietTail` is the weaker guard … -/
theorem quietTail_of_quiet (t : Trace) (h : quiet t = true) : quietTail t = true := by
  simp only [quiet, quietTail, List.all_eq_true, Bool.or_eq_true, beq_iff_eq] at h ⊢
  intro x hx
  rcases h x hx with (h | h) | h
  · exact Or.inl (free_of_op_sleeper _ (Or.inl h))
  · exact Or.inl (free_of_op_sleeper _ (Or.inr h))
  · exact Or.inr h

/-- … so `okTail` is the stronger monitor -/
theorem ok_of_okTail (cfg : Cfg) (e : Entry) (t : Trace) (r : Res) (h : okTail cfg e t r = true) :
    Mon.C02.ok cfg e t r = true := by
  unfold Mon.C02.ok
  split
  · rename_i hc
    simp only [Bool.and_eq_true] at hc
    simpa [okTail, hc.1, quietTail_of_quiet t hc.2] using h
  · rfl

/-! ### tail-quietness on the newest-first log -/

/-- `quietTail`, as a proposition on the newest-first log -/
def QuietT (tr : List (Req × Ans)) : Prop := ∀ x ∈ tr, free x.1 = true ∨ x.2.dur = 0

theorem quietTail_iff (t : Trace) : quietTail t = true ↔ QuietT t.reverse := by
  simp [quietTail, QuietT]

@[simp] theorem quietT_cons (x : Req × Ans) (t : List (Req × Ans)) :
    QuietT (x :: t) ↔ (free x.1 = true ∨ x.2.dur = 0) ∧ QuietT t := by
  simp [QuietT]

/-- requests that move nothing of the C02 monitor when no time passes in them, and in which no time
    passes in a tail-quiet log -/
def inertT : Kind → Bool
  | .op | .resultClassify | .sleeper | .classify | .stratRecordFailure => false
  | _ => true

theorem inertT_sub : ∀ k, inertT k = true → inertK k = true := by
  intro k; cases k <;> simp [inertT, inertK]

theorem dur_of_inertT (x : Req × Ans) (h : inertT x.1.kind = true) (hq : free x.1 = true ∨ x.2.dur = 0) :
    x.2.dur = 0 := by
  obtain ⟨r, a⟩ := x
  cases r <;> simp_all [inertT, Req.kind, free]

theorem cur_append_inertT (cfg : Cfg) (δ t : List (Req × Ans)) (h : ∀ x ∈ δ, inertT x.1.kind = true)
    (hq : QuietT (δ ++ t)) : cur cfg (δ ++ t) = cur cfg t := by
  induction δ with
  | nil => rfl
  | cons x δ ih =>
    have hx := h x (by simp)
    have hq' : QuietT (δ ++ t) := fun y hy => hq y (by simp at hy ⊢; exact Or.inr hy)
    have := ih (fun y hy => h y (by simp [hy])) hq'
    have hd : x.2.dur = 0 := dur_of_inertT x hx (hq x (by simp))
    simp only [List.cons_append, cur_cons, this]
    exact step_inert _ _ _ (inertT_sub _ hx) hd

/-- the snapshot the C02 argument looks at, with tail-quietness as its `quiet` -/
def snapT (cfg : Cfg) (w : World) : Snap :=
  ⟨QuietT w.trace, HonestTr w.trace, cur cfg w.trace, w.rs.start, w.now⟩

theorem keep_of_footT (cfg : Cfg) (w w' : World) (h : Foot inertT w w') :
    Keep (snapT cfg w) (snapT cfg w') := by
  obtain ⟨δ, e, k⟩ := h.trace
  refine ⟨fun hh x hx => hh x (by simp [snapT, e, hx]), fun hq => ?_⟩
  have hq' : QuietT (δ ++ w.trace) := by simpa [snapT, e] using hq
  refine ⟨fun x hx => hq' x (by simp [hx]), ?_, ?_, h.now⟩
  · simp only [snapT, e]
    exact cur_append_inertT cfg δ _ k hq'
  · have := congrArg RState.start h.rs
    simpa [snapT] using this

/-- From a footprint lemma to "the snapshot is kept" (both exits). -/
theorem keep_of_foot_specT {α : Type} {x : M α} (cfg : Cfg)
    (hx : ∀ w0, ⦃fun w => ⌜Foot inertT w0 w⌝⦄ x ⦃footPost inertT w0⦄) (g : Snap) :
    ⦃fun w => ⌜snapT cfg w = g⌝⦄ x
    ⦃post⟨fun _ w => ⌜Keep g (snapT cfg w)⌝, fun _ w => ⌜Keep g (snapT cfg w)⌝⟩⦄ := by
  apply triple_of_run
  intro w hw
  have := adequacy (hx w) w (Foot.refl _ w)
  split <;> simp_all <;> (rw [← hw]; exact keep_of_footT cfg _ _ this)

/-- same, keeping what the footprint lemma says about the returned value -/
theorem keep_of_foot_specT' {α : Type} {x : M α} {R : α → Prop} (cfg : Cfg)
    (hx : ∀ w0, ⦃fun w => ⌜Foot inertT w0 w⌝⦄ x
      ⦃post⟨fun a w => ⌜R a ∧ Foot inertT w0 w⌝, fun _ w => ⌜Foot inertT w0 w⌝⟩⦄) (g : Snap) :
    ⦃fun w => ⌜snapT cfg w = g⌝⦄ x
    ⦃post⟨fun a w => ⌜R a ∧ Keep g (snapT cfg w)⌝, fun _ w => ⌜Keep g (snapT cfg w)⌝⟩⦄ := by
  apply triple_of_run
  intro w hw
  have := adequacy (hx w) w (Foot.refl _ w)
  split <;> simp_all <;> (rw [← hw]; first | exact keep_of_footT cfg _ _ this | exact keep_of_footT cfg _ _ this.2)

/-- "the snapshot `g` is kept" on both exits -/
abbrev keptT (cfg : Cfg) (g : Snap) : PostCond α (.except Exn (.arg World .pure)) :=
  post⟨fun _ w => ⌜Keep g (snapT cfg w)⌝, fun _ w => ⌜Keep g (snapT cfg w)⌝⟩

/-! ### leaf procedures that keep the snapshot (no time passes in them in a tail-quiet log) -/
section leaves
variable (g : Snap) (cfg : Cfg) (tl : Bool)

theorem emit_k (ev : Event) (a s : Nat) (k : Option EClass) (e : Option Exn) (st : Option StopReason)
    (c : Option Cause) (cl : Option Classification) :
    ⦃fun w => ⌜snapT cfg w = g⌝⦄ emit cfg tl ev a s k e st c cl ⦃keptT cfg g⦄ :=
  keep_of_foot_specT cfg (fun w0 => emit_foot inertT w0 rfl rfl cfg tl ev a s k e st c cl) g

theorem setStop_k (s : StopReason) : ⦃fun w => ⌜snapT cfg w = g⌝⦄ setStop s ⦃keptT cfg g⦄ :=
  keep_of_foot_specT cfg (fun w0 => setStop_foot inertT w0 s) g

theorem checkAbort_k (a : Nat) : ⦃fun w => ⌜snapT cfg w = g⌝⦄ checkAbort cfg tl a ⦃keptT cfg g⦄ :=
  keep_of_foot_specT cfg (fun w0 => checkAbort_foot inertT w0 rfl rfl rfl cfg tl a) g

theorem stopWith_k (s : StopReason) (ev : Event) (a : Nat) (k : EClass) (e : Option Exn) (c : Cause) :
    ⦃fun w => ⌜snapT cfg w = g⌝⦄ stopWith cfg tl s ev a k e c
    ⦃post⟨fun d w => ⌜d = .raise ∧ Keep g (snapT cfg w)⌝, fun _ w => ⌜Keep g (snapT cfg w)⌝⟩⦄ :=
  keep_of_foot_specT' cfg (fun w0 => stopWith_foot inertT w0 rfl rfl cfg tl s ev a k e c) g

theorem recordStrategySuccess_k : ⦃fun w => ⌜snapT cfg w = g⌝⦄ recordStrategySuccess cfg ⦃keptT cfg g⦄ :=
  keep_of_foot_specT cfg (fun w0 => recordStrategySuccess_foot inertT w0 rfl cfg) g

theorem callStrategy_k (key : SKey) (kind : SKind) (ctx : BackoffCtx) :
    ⦃fun w => ⌜snapT cfg w = g⌝⦄ callStrategy key kind ctx ⦃keptT cfg g⦄ :=
  keep_of_foot_specT cfg (fun w0 => callStrategy_foot inertT w0 rfl key kind ctx) g

theorem callAttemptStart_k (a : Nat) : ⦃fun w => ⌜snapT cfg w = g⌝⦄ callAttemptStart cfg a ⦃keptT cfg g⦄ :=
  keep_of_foot_specT cfg (fun w0 => callAttemptStart_foot inertT w0 rfl cfg a) g

theorem callAttemptEndFromOutcome_k (a : Nat) (o : AOutcome) :
    ⦃fun w => ⌜snapT cfg w = g⌝⦄ callAttemptEndFromOutcome cfg a o ⦃keptT cfg g⦄ :=
  keep_of_foot_specT cfg (fun w0 => callAttemptEndFromOutcome_foot inertT w0 rfl cfg a o) g

theorem callBeforeSleep_k (ctx : BackoffCtx) (s : Nat) :
    ⦃fun w => ⌜snapT cfg w = g⌝⦄ callBeforeSleep cfg ctx s ⦃keptT cfg g⦄ :=
  keep_of_foot_specT cfg (fun w0 => callBeforeSleep_foot inertT w0 rfl cfg ctx s) g

theorem callSleepHandler_k (lvl : Lvl) (ctx : BackoffCtx) (s : Nat) :
    ⦃fun w => ⌜snapT cfg w = g⌝⦄ callSleepHandler lvl ctx s ⦃keptT cfg g⦄ :=
  keep_of_foot_specT cfg (fun w0 => callSleepHandler_foot inertT w0 rfl lvl ctx s) g

theorem buildOutcome_k (ok : Bool) (value : Option Nat) (n : Nat) (ns : Option Nat) :
    ⦃fun w => ⌜snapT cfg w = g⌝⦄ buildOutcome ok value n ns ⦃keptT cfg g⦄ :=
  keep_of_foot_specT cfg (fun w0 => buildOutcome_foot inertT w0 ok value n ns) g

theorem emitAbortedOnce_k (a : Nat) : ⦃fun w => ⌜snapT cfg w = g⌝⦄ emitAbortedOnce cfg tl a ⦃keptT cfg g⦄ :=
  keep_of_foot_specT cfg (fun w0 => emitAbortedOnce_foot inertT w0 rfl rfl cfg tl a) g

theorem abortOutcome_k (a : Nat) : ⦃fun w => ⌜snapT cfg w = g⌝⦄ abortOutcome cfg tl a ⦃keptT cfg g⦄ :=
  keep_of_foot_specT cfg (fun w0 => abortOutcome_foot inertT w0 rfl rfl cfg tl a) g

theorem handleSleepDecision_k (act : SleepDecision) (a s : Nat) :
    ⦃fun w => ⌜snapT cfg w = g⌝⦄ handleSleepDecision cfg tl act a s
    ⦃post⟨fun r w => ⌜(r = act ∧ act ≠ .other) ∧ Keep g (snapT cfg w)⌝, fun _ w => ⌜Keep g (snapT cfg w)⌝⟩⦄ :=
  keep_of_foot_specT' cfg (fun w0 => handleSleepDecision_foot inertT w0 rfl rfl cfg tl act a s) g

theorem handleSuccessAttemptEnd_k (a x : Nat) :
    ⦃fun w => ⌜snapT cfg w = g⌝⦄ handleSuccessAttemptEnd cfg tl a x ⦃keptT cfg g⦄ :=
  keep_of_foot_specT cfg (fun w0 => handleSuccessAttemptEnd_foot inertT w0 rfl rfl rfl rfl cfg tl a x) g

theorem handleAbortAttemptEnd_k (a : Nat) (e : Exn) :
    ⦃fun w => ⌜snapT cfg w = g⌝⦄ handleAbortAttemptEnd cfg a e ⦃keptT cfg g⦄ :=
  keep_of_foot_specT cfg (fun w0 => handleAbortAttemptEnd_foot inertT w0 rfl cfg a e) g

theorem raiseExhaustedCall_k : ⦃fun w => ⌜snapT cfg w = g⌝⦄ raiseExhaustedCall cfg ⦃keptT cfg g⦄ :=
  keep_of_foot_specT cfg (fun w0 => raiseExhaustedCall_foot inertT w0 rfl rfl cfg) g

theorem buildExhaustedOutcome_k : ⦃fun w => ⌜snapT cfg w = g⌝⦄ buildExhaustedOutcome cfg tl ⦃keptT cfg g⦄ :=
  keep_of_foot_specT cfg (fun w0 => buildExhaustedOutcome_foot inertT w0 rfl rfl cfg tl) g

theorem deliverCall_k (act : Action) (orig : Option Exn) (fb : ExhaustedFields) :
    ⦃fun w => ⌜snapT cfg w = g⌝⦄ deliverCall act orig fb
    ⦃post⟨fun r w => ⌜(r = none ∧ act = .continue_) ∧ Keep g (snapT cfg w)⌝, fun _ w => ⌜Keep g (snapT cfg w)⌝⟩⦄ :=
  keep_of_foot_specT' cfg (fun w0 => deliverCall_foot inertT w0 act orig fb) g

theorem deliverExecute_k (act : Action) (o : AOutcome) :
    ⦃fun w => ⌜snapT cfg w = g⌝⦄ deliverExecute cfg tl act o
    ⦃post⟨fun r w => ⌜(r = none → act = .continue_) ∧ Keep g (snapT cfg w)⌝, fun _ w => ⌜Keep g (snapT cfg w)⌝⟩⦄ :=
  keep_of_foot_specT' cfg (fun w0 => deliverExecute_foot inertT w0 rfl rfl cfg tl act o) g

theorem budgetConsume_k : ⦃fun w => ⌜snapT cfg w = g⌝⦄ budgetConsume cfg ⦃keptT cfg g⦄ := by
  have hf : ∀ w0, ⦃fun w => ⌜Foot inertT w0 w⌝⦄ budgetConsume cfg ⦃footPost inertT w0⦄ := by
    intro w0
    mvcgen [budgetConsume]
    all_goals (try assumption)
    all_goals (rename_i h; exact Foot.trans h (Foot.internal _ _ _ _ _ _ rfl))
  exact keep_of_foot_specT cfg hf g

theorem checkAbortCaught_k (a : Nat) :
    ⦃fun w => ⌜snapT cfg w = g⌝⦄ checkAbortCaught cfg tl a ⦃keptT cfg g⦄ := by
  have hf : ∀ w0, ⦃fun w => ⌜Foot inertT w0 w⌝⦄ checkAbortCaught cfg tl a ⦃footPost inertT w0⦄ := by
    intro w0
    have h := checkAbort_foot inertT w0 rfl rfl rfl cfg tl a
    mvcgen [checkAbortCaught, abortToTrue, h]
    all_goals (try simp only [restore_dummy])
    all_goals (try intros)
    all_goals (try assumption)
  exact keep_of_foot_specT cfg hf g

end leaves

attribute [local spec] emit_k setStop_k checkAbort_k stopWith_k recordStrategySuccess_k
  callStrategy_k callAttemptStart_k callAttemptEndFromOutcome_k
  callBeforeSleep_k callSleepHandler_k buildOutcome_k emitAbortedOnce_k abortOutcome_k handleSleepDecision_k
  handleSuccessAttemptEnd_k handleAbortAttemptEnd_k raiseExhaustedCall_k buildExhaustedOutcome_k
  deliverCall_k deliverExecute_k budgetConsume_k checkAbortCaught_k

/-! ### the invariants of Props/C02, read with tail-quietness -/

abbrev TopT (cfg : Cfg) (w : World) : Prop := TopS cfg (snapT cfg w)
abbrev MidT (cfg : Cfg) (w : World) : Prop := MidS cfg (snapT cfg w)
abbrev GrantT (cfg : Cfg) (s : Nat) (w : World) : Prop := GrantS cfg s (snapT cfg w)
abbrev SleptT (cfg : Cfg) (w : World) : Prop := SleptS cfg (snapT cfg w)
abbrev FinT (cfg : Cfg) (w : World) : Prop := FinS cfg (snapT cfg w)

/-! ### the five requests that move the monitor -/

theorem invokeOp_spec (cfg : Cfg) (a : Nat) :
    ⦃fun w => ⌜TopT cfg w⌝⦄ invokeOp a
    ⦃post⟨fun _ w => ⌜MidT cfg w⌝, fun _ w => ⌜MidT cfg w⌝⟩⦄ := by
  mvcgen [invokeOp, ask]
  all_goals ((try subst_vars) <;> (try intros) <;> (try simp only [TopS, MidS, coreS_iff, snapT] at *))
  all_goals simp_all +zetaDelta [step, free, HonestX, Ans.dur]
  all_goals grind

theorem shouldClassifyResult_spec (cfg : Cfg) (x : Nat) :
    ⦃fun w => ⌜MidT cfg w⌝⦄ shouldClassifyResult cfg x
    ⦃post⟨fun _ w => ⌜MidT cfg w⌝, fun _ w => ⌜MidT cfg w⌝⟩⦄ := by
  mvcgen [shouldClassifyResult, ask]
  all_goals ((try subst_vars) <;> (try intros) <;> (try simp only [TopS, MidS, coreS_iff, snapT] at *))
  all_goals simp_all +zetaDelta [step, free, HonestX, Ans.dur]
  all_goals grind

/-- time may pass in the classifier: the mid-attempt invariant survives it -/
theorem callClassifier_spec (cfg : Cfg) (e : Exn) :
    ⦃fun w => ⌜MidT cfg w⌝⦄ callClassifier e
    ⦃post⟨fun _ w => ⌜MidT cfg w⌝, fun _ w => ⌜MidT cfg w⌝⟩⦄ := by
  mvcgen [callClassifier, ask]
  all_goals ((try subst_vars) <;> (try intros) <;> (try simp only [TopS, MidS, coreS_iff, snapT] at *))
  all_goals simp_all +zetaDelta [step, free, HonestX, Ans.dur]
  all_goals grind

/-- time may pass in `strategy.record_failure`: the mid-attempt invariant survives it -/
theorem stratRecordFailure_spec (cfg : Cfg) (key : SKey) (k : EClass) :
    ⦃fun w => ⌜MidT cfg w⌝⦄ stratRecordFailure cfg key k
    ⦃post⟨fun _ w => ⌜MidT cfg w⌝, fun _ w => ⌜MidT cfg w⌝⟩⦄ := by
  mvcgen [stratRecordFailure, ask]
  all_goals ((try subst_vars) <;> (try intros) <;> (try simp only [TopS, MidS, coreS_iff, snapT] at *))
  all_goals simp_all +zetaDelta [step, free, HonestX, Ans.dur]
  all_goals grind

theorem callSleeper_spec (cfg : Cfg) (s : Nat) :
    ⦃fun w => ⌜GrantT cfg s w⌝⦄ callSleeper cfg s
    ⦃post⟨fun _ w => ⌜SleptT cfg w⌝, fun _ w => ⌜FinT cfg w⌝⟩⦄ := by
  mvcgen [callSleeper, ask]
  all_goals ((try subst_vars) <;> (try intros) <;> (try simp only [GrantS, SleptS, FinS, coreS_iff, snapT] at *))
  all_goals simp_all +zetaDelta [step, free, HonestX, Ans.dur]
  all_goals grind

attribute [local spec] invokeOp_spec shouldClassifyResult_spec callClassifier_spec stratRecordFailure_spec
  callSleeper_spec

/-- unfold snapshots to tuples (so that worlds that differ in irrelevant fields coincide), keep the
    invariants opaque, and chain the stability lemmas -/
macro "c02t" : tactic => `(tactic| all_goals (
  (try subst_vars) <;> (try intros) <;>
  (try simp +zetaDelta only [TopT, MidT, GrantT, SleptT, FinT, snapT] at *) <;>
  first
    | (simp_all +zetaDelta; done)
    | grind [Keep.top, Keep.mid, Keep.grant, Keep.slept, Keep.fin, TopS.mid, GrantS.mid, SleptS.mid, MidS.fin,
        TopS.fin, GrantS.fin, SleptS.fin, MidS.grant, GrantS.le, SleptS.top, sanitize_le]
    | skip))

/-- what a failure decision promises: a granted retry comes with a backoff that fits -/
abbrev decPost (cfg : Cfg) : PostCond Decision (.except Exn (.arg World .pure)) :=
  post⟨fun d w => ⌜MidT cfg w ∧ ∀ s ctx, d = .retry s ctx → GrantT cfg s w⌝, fun _ w => ⌜MidT cfg w⌝⟩

theorem grantRetry_spec (cfg : Cfg) (tl : Bool) (c : Classification) (a : Nat) (cause : Cause)
    (e : Option Exn) (key : SKey) (kind : SKind) (rem : Nat) :
    ⦃fun w => ⌜GrantT cfg rem w⌝⦄ grantRetry cfg tl c a cause e key kind rem ⦃decPost cfg⦄ := by
  mvcgen [grantRetry, getRS, modifyRS]
  c02t

attribute [local spec] grantRetry_spec

theorem handleFailure2_spec (cfg : Cfg) (tl : Bool) (c : Classification) (a : Nat) (cause : Cause)
    (e : Option Exn) :
    ⦃fun w => ⌜MidT cfg w⌝⦄ handleFailure2 cfg tl c a cause e ⦃decPost cfg⦄ := by
  mvcgen [handleFailure2, elapsed, modifyRS]
  c02t

attribute [local spec] handleFailure2_spec

theorem handleUnknown_spec (cfg : Cfg) (tl : Bool) (c : Classification) (a : Nat) (cause : Cause)
    (e : Option Exn) :
    ⦃fun w => ⌜MidT cfg w⌝⦄ handleUnknown cfg tl c a cause e ⦃decPost cfg⦄ := by
  mvcgen [handleUnknown, getRS, modifyRS]
  c02t

attribute [local spec] handleUnknown_spec

theorem handleFailure1_spec (cfg : Cfg) (tl : Bool) (c : Classification) (a : Nat) (cause : Cause)
    (e : Option Exn) :
    ⦃fun w => ⌜MidT cfg w⌝⦄ handleFailure1 cfg tl c a cause e ⦃decPost cfg⦄ := by
  mvcgen [handleFailure1, getRS]
  c02t

attribute [local spec] handleFailure1_spec

theorem handleFailure_spec (cfg : Cfg) (tl : Bool) (c : Classification) (a : Nat) (cause : Cause)
    (e : Option Exn) (r : Option Nat) :
    ⦃fun w => ⌜MidT cfg w⌝⦄ handleFailure cfg tl c a cause e r ⦃decPost cfg⦄ := by
  mvcgen [handleFailure, Retry.recordFailure, modifyRS]
  c02t

attribute [local spec] handleFailure_spec

theorem handleException_spec (cfg : Cfg) (tl : Bool) (e : Exn) (a : Nat) :
    ⦃fun w => ⌜MidT cfg w⌝⦄ handleException cfg tl e a ⦃decPost cfg⦄ := by
  mvcgen [handleException]
  c02t

attribute [local spec] handleException_spec


attribute [local spec] invokeOp_spec shouldClassifyResult_spec callSleeper_spec grantRetry_spec
  handleFailure2_spec handleUnknown_spec handleFailure1_spec handleFailure_spec handleException_spec

/-! ### sleeping, and the check after the sleep -/

macro "c02ts" : tactic => `(tactic| all_goals (
  (try subst_vars) <;> (try intros) <;>
  (try simp +zetaDelta only [TopT, MidT, GrantT, SleptT, FinT, snapT] at *) <;>
  first
    | (simp_all +zetaDelta; done)
    | grind [Keep.top, Keep.mid, Keep.grant, Keep.slept, Keep.fin, TopS.mid, GrantS.mid, SleptS.mid, MidS.fin,
        TopS.fin, GrantS.fin, SleptS.fin, MidS.grant, GrantS.le, SleptS.top, sanitize_le, cases SleepDecision]
    | skip))


theorem sleepAction_spec (cfg : Cfg) (tl : Bool) (a s : Nat) (ctx : BackoffCtx) :
    ⦃fun w => ⌜GrantT cfg s w⌝⦄ sleepAction cfg tl a s ctx
    ⦃post⟨fun r w => ⌜MidT cfg w ∧ (r ≠ .defer → r ≠ .abort → SleptT cfg w)⌝, fun _ w => ⌜FinT cfg w⌝⟩⦄ := by
  mvcgen [sleepAction]
  c02ts

/-- what an attempt's failure handling leaves: the loop goes on only from a good loop-top state -/
abbrev outPostA (cfg : Cfg) : PostCond AOutcome (.except Exn (.arg World .pure)) :=
  post⟨fun o w => ⌜MidT cfg w ∧ (o.decision = .retry → TopT cfg w)⌝, fun _ w => ⌜FinT cfg w⌝⟩

theorem finalizeAttempt_spec (cfg : Cfg) (tl : Bool) (a : Nat) (d : Decision) (act : Option SleepDecision)
    (cls : Option Classification) (e : Option Exn) (r : Option Nat) (c : Option Cause) :
    ⦃fun w => ⌜MidT cfg w ∧ (d ≠ .raise → act ≠ some .defer → act ≠ some .abort → SleptT cfg w)⌝⦄
    finalizeAttempt cfg tl a d act cls e r c ⦃outPostA cfg⦄ := by
  mvcgen [finalizeAttempt, getRS, elapsed]
  c02t

attribute [local spec] sleepAction_spec finalizeAttempt_spec

theorem failureOutcome_spec (cfg : Cfg) (tl : Bool) (a : Nat) (d : Decision)
    (cls : Option Classification) (e : Option Exn) (r : Option Nat) (c : Option Cause) :
    ⦃fun w => ⌜MidT cfg w ∧ ∀ s ctx, d = .retry s ctx → GrantT cfg s w⌝⦄
    failureOutcome cfg tl a d cls e r c ⦃outPostA cfg⦄ := by
  mvcgen [failureOutcome]
  c02t

attribute [local spec] failureOutcome_spec

/-! ### the retry loop, `call` flavour -/

/-- one attempt: the verdict holds; and if the loop goes on, it does so from a good loop-top state -/
abbrev attemptPost (cfg : Cfg) : PostCond (Option α) (.except Exn (.arg World .pure)) :=
  post⟨fun r w => ⌜FinT cfg w ∧ (r = none → TopT cfg w)⌝, fun _ w => ⌜FinT cfg w⌝⟩

macro "c02ta" : tactic => `(tactic| all_goals (
  (try subst_vars) <;> (try intros) <;>
  (try simp +zetaDelta only [TopT, MidT, GrantT, SleptT, FinT, snapT, determineAction_continue_iff] at *) <;>
  first
    | (simp_all +zetaDelta; done)
    | grind [Keep.top, Keep.mid, Keep.grant, Keep.slept, Keep.fin, TopS.mid, GrantS.mid, SleptS.mid, MidS.fin,
        TopS.fin, GrantS.fin, SleptS.fin, MidS.grant, GrantS.le, SleptS.top, sanitize_le, cases SleepDecision]
    | skip))

theorem callExceptionPath_spec (cfg : Cfg) (a : Nat) (e : Exn) :
    ⦃fun w => ⌜MidT cfg w⌝⦄ callExceptionPath cfg a e ⦃attemptPost cfg⦄ := by
  mvcgen [callExceptionPath, getRS, modifyAS]
  c02ta

attribute [local spec] callExceptionPath_spec

theorem callOpHandler_spec (cfg : Cfg) (a : Nat) (e : Exn) :
    ⦃fun w => ⌜MidT cfg w⌝⦄ callOpHandler cfg a e ⦃attemptPost cfg⦄ := by
  mvcgen [callOpHandler]
  c02ta

theorem callResultFailure_spec (cfg : Cfg) (a x : Nat) (c : Classification) :
    ⦃fun w => ⌜MidT cfg w⌝⦄ callResultFailure cfg a x c ⦃attemptPost cfg⦄ := by
  mvcgen [callResultFailure, getRS, modifyAS]
  c02ta

attribute [local spec] callOpHandler_spec callResultFailure_spec

theorem callResultPath_spec (cfg : Cfg) (a x : Nat) :
    ⦃fun w => ⌜MidT cfg w⌝⦄ callResultPath cfg a x ⦃attemptPost cfg⦄ := by
  mvcgen [callResultPath]
  c02ta

attribute [local spec] callResultPath_spec

/-- one iteration of the loop of `call` -/
theorem callAttempt_spec (cfg : Cfg) (a : Nat) :
    ⦃fun w => ⌜TopT cfg w⌝⦄ callAttempt cfg a ⦃attemptPost cfg⦄ := by
  mvcgen [callAttempt, modifyAS]
  c02ta

abbrev finPost (cfg : Cfg) : PostCond α (.except Exn (.arg World .pure)) :=
  post⟨fun _ w => ⌜FinT cfg w⌝, fun _ w => ⌜FinT cfg w⌝⟩

theorem callLoop_spec (cfg : Cfg) : ∀ (fuel a : Nat),
    ⦃fun w => ⌜TopT cfg w⌝⦄ callLoop cfg fuel a ⦃finPost cfg⦄ := by
  intro fuel
  induction fuel with
  | zero =>
    intro a
    mvcgen [callLoop]
    c02ta
  | succ f ih =>
    intro a
    mvcgen [callLoop, callAttempt_spec, ih]
    c02ta

/-- at the start of a call: if the log so far (the breaker's admission) is quiet, the monitor is
    still in its initial state -/
def StartT (cfg : Cfg) (w : World) : Prop := QuietT w.trace → cur cfg w.trace = {}

theorem runCall_spec (cfg : Cfg) :
    ⦃fun w => ⌜StartT cfg w⌝⦄ runCall cfg ⦃finPost cfg⦄ := by
  have hl := callLoop_spec cfg cfg.maxAttempts 1
  mvcgen [runCall, initState, hl]
  c02ta
  all_goals (rename_i h _; exact top_of_start h)


attribute [local spec] sleepAction_spec finalizeAttempt_spec failureOutcome_spec

/-! ### the retry loop, `execute` flavour -/

macro "c02tx" : tactic => `(tactic| all_goals (
  (try subst_vars) <;> (try intros) <;>
  (try simp +zetaDelta only [TopT, MidT, GrantT, SleptT, FinT, snapT, determineAction_continue_iff,
    restore_dummy] at *) <;>
  first
    | (simp_all +zetaDelta; done)
    | grind [Keep.top, Keep.mid, Keep.grant, Keep.slept, Keep.fin, TopS.mid, GrantS.mid, SleptS.mid, MidS.fin,
        TopS.fin, GrantS.fin, SleptS.fin, MidS.grant, GrantS.le, SleptS.top, sanitize_le, cases SleepDecision]
    | skip))

theorem execResultFailure_spec (cfg : Cfg) (tl : Bool) (a x : Nat) (c : Classification) :
    ⦃fun w => ⌜MidT cfg w⌝⦄ execResultFailure cfg tl a x c ⦃attemptPost cfg⦄ := by
  mvcgen [execResultFailure, getRS, modifyAS]
  c02tx

attribute [local spec] execResultFailure_spec

theorem execResultPath_spec (cfg : Cfg) (tl : Bool) (a x : Nat) :
    ⦃fun w => ⌜MidT cfg w⌝⦄ execResultPath cfg tl a x ⦃attemptPost cfg⦄ := by
  mvcgen [execResultPath]
  c02tx

theorem execPre_spec (cfg : Cfg) (tl : Bool) (a : Nat) :
    ⦃fun w => ⌜TopT cfg w⌝⦄ execPre cfg tl a
    ⦃post⟨fun _ w => ⌜MidT cfg w⌝, fun _ w => ⌜MidT cfg w⌝⟩⦄ := by
  mvcgen [execPre, modifyAS]
  c02tx

theorem execAbortExit_spec (cfg : Cfg) (tl : Bool) (a : Nat) (e : Exn) :
    ⦃fun w => ⌜FinT cfg w⌝⦄ execAbortExit cfg tl a e
    ⦃post⟨fun r w => ⌜r ≠ none ∧ FinT cfg w⌝, fun _ w => ⌜FinT cfg w⌝⟩⦄ := by
  mvcgen [execAbortExit]
  c02tx

attribute [local spec] execAbortExit_spec checkAbortCaught_k

theorem execExceptionPath3_spec (cfg : Cfg) (tl : Bool) (a : Nat) (e : Exn) (d : Decision) :
    ⦃fun w => ⌜MidT cfg w ∧ ∀ s ctx, d = .retry s ctx → GrantT cfg s w⌝⦄
    execExceptionPath3 cfg tl a e d ⦃attemptPost cfg⦄ := by
  mvcgen [execExceptionPath3, getRS, modifyAS]
  c02tx

attribute [local spec] execExceptionPath3_spec

theorem execExceptionPath2_spec (cfg : Cfg) (tl : Bool) (a : Nat) (e : Exn) :
    ⦃fun w => ⌜MidT cfg w⌝⦄ execExceptionPath2 cfg tl a e ⦃attemptPost cfg⦄ := by
  mvcgen [execExceptionPath2, getRS, modifyAS]
  c02tx

attribute [local spec] execExceptionPath2_spec

theorem execExceptionPath_spec (cfg : Cfg) (tl : Bool) (a : Nat) (e : Exn) :
    ⦃fun w => ⌜MidT cfg w⌝⦄ execExceptionPath cfg tl a e ⦃attemptPost cfg⦄ := by
  mvcgen [execExceptionPath, modifyAS]
  c02tx

attribute [local spec] execExceptionPath_spec

theorem execHandler_spec (cfg : Cfg) (tl : Bool) (a : Nat) (e : Exn) :
    ⦃fun w => ⌜MidT cfg w⌝⦄ execHandler cfg tl a e ⦃attemptPost cfg⦄ := by
  mvcgen [execHandler]
  c02tx

theorem execReturnedHandler_spec (cfg : Cfg) (tl : Bool) (a : Nat) (e : Exn) :
    ⦃fun w => ⌜FinT cfg w⌝⦄ execReturnedHandler cfg tl a e ⦃attemptPost cfg⦄ := by
  mvcgen [execReturnedHandler]
  c02tx

theorem execAttempt_spec (cfg : Cfg) (tl : Bool) (a : Nat) :
    ⦃fun w => ⌜TopT cfg w⌝⦄ execAttempt cfg tl a ⦃attemptPost cfg⦄ := by
  mvcgen [execAttempt, execPre_spec, execHandler_spec, execResultPath_spec, execReturnedHandler_spec]
  c02tx

theorem execLoop_spec (cfg : Cfg) (tl : Bool) : ∀ (fuel a : Nat),
    ⦃fun w => ⌜TopT cfg w⌝⦄ execLoop cfg tl fuel a ⦃finPost cfg⦄ := by
  intro fuel
  induction fuel with
  | zero =>
    intro a
    mvcgen [execLoop]
    c02tx
  | succ f ih =>
    intro a
    mvcgen [execLoop, execAttempt_spec, ih]
    c02tx

theorem runExecute_spec (cfg : Cfg) :
    ⦃fun w => ⌜StartT cfg w⌝⦄ runExecute cfg ⦃finPost cfg⦄ := by
  have hl := execLoop_spec cfg cfg.timeline cfg.maxAttempts 1
  mvcgen [runExecute, initState, hl]
  c02tx
  all_goals (rename_i h _ _; exact top_of_start h)



/-! ### policy level: nothing outside the retry loop invokes the operation or sleeps -/
open Policy

/-- the verdict survives anything that neither invokes the operation nor sleeps (the classifier call
    for the breaker after the loop has ended may take time: neither `bad` nor `slept` moves) -/
theorem fin_footT (cfg : Cfg) (w w' : World) (h : Foot polK w w') (hf : FinT cfg w) : FinT cfg w' := by
  obtain ⟨δ, e, k⟩ := h.trace
  have hp := cur_append_pol cfg δ w.trace k
  intro hq
  have hq' : QuietT w.trace := fun x hx => hq x (by simp [snapT, e, hx])
  obtain ⟨h1, h2⟩ := hf hq'
  simp only [snapT, e] at h1 h2 ⊢
  refine ⟨hp.1.trans h1, fun hh => ?_⟩
  rw [hp.2]
  exact h2 (fun x hx => hh x (by simp [hx]))

theorem start_footT (cfg : Cfg) (w w' : World) (h : Foot inertT w w') (hs : StartT cfg w) : StartT cfg w' := by
  have k := keep_of_footT cfg w w' h
  intro hq
  obtain ⟨q, hm, _, _⟩ := k.quiet hq
  have : cur cfg w'.trace = cur cfg w.trace := hm
  rw [this]
  exact hs q

theorem StartT.fin {cfg : Cfg} {w : World} (h : StartT cfg w) : FinT cfg w := by
  intro hq
  have : cur cfg w.trace = {} := h hq
  simp [snapT, this]

/-- `Policy.call` with a retry component (also `RetryPolicy.call`, `@retry`, contexts, async twins) -/
theorem call_retry_spec (cfg : Cfg) (hret : cfg.hasRetry = true) :
    ⦃fun w => ⌜StartT cfg w⌝⦄ Policy.call cfg ⦃finPost cfg⦄ := by
  have hs := fin_footT cfg
  have h1 := recordSuccess_i cfg _ hs
  have h2 := recordCancel_i cfg _ hs
  have h3 := ensureSettled_i cfg _ hs
  have h4 := handleAbortCall_i cfg _ hs
  have h5 := handleExhaustedCall_i cfg _ hs
  have h6 := handleExceptionCall_i cfg _ hs
  have hrun := runCall_spec cfg
  have hic := inv_of_foot (StartT cfg) (fun w0 => initCtx_foot inertT w0) (start_footT cfg)
  have hcb := inv_of_foot (StartT cfg) (fun w0 => checkBreaker_foot inertT w0 rfl rfl rfl cfg) (start_footT cfg)
  mvcgen [Policy.call, withFinally, callAdmitted, callLadder, hic, hcb, hrun, h1, h2, h3, h4, h5, h6]
  all_goals (try intros)
  all_goals (try simp only [restore_dummy])
  all_goals (first | assumption | exact StartT.fin (by assumption) | skip)

/-- `Policy.execute` with a retry component -/
theorem execute_retry_spec (cfg : Cfg) (hret : cfg.hasRetry = true) :
    ⦃fun w => ⌜StartT cfg w⌝⦄ Policy.execute cfg ⦃finPost cfg⦄ := by
  have hs := fin_footT cfg
  have h1 := recordSuccess_i cfg _ hs
  have h2 := recordCancel_i cfg _ hs
  have h3 := ensureSettled_i cfg _ hs
  have h5 := handleExhaustedCall_i cfg _ hs
  have h6 := handleExceptionCall_i cfg _ hs
  have h7 := recordFailure_i cfg _ hs
  have hrun := runExecute_spec cfg
  have hic := inv_of_foot (StartT cfg) (fun w0 => initCtx_foot inertT w0) (start_footT cfg)
  have hba := fun bc => inv_of_foot (StartT cfg) (fun w0 => breakerAllow_foot inertT w0 rfl bc) (start_footT cfg)
  have hev := fun ev st k => inv_of_foot (StartT cfg)
    (fun w0 => emitBreakerEvent_foot inertT w0 rfl rfl cfg ev st k) (start_footT cfg)
  have hpo := fun a b c d e f g => inv_of_foot (StartT cfg)
    (fun w0 => policyOutcome_foot inertT w0 a b c d e f g) (start_footT cfg)
  mvcgen [Policy.execute, withFinally, executeAdmitted, executeAdmitted2, executeWithRetry, executeLadder,
    hic, hba, hev, hpo, hrun, h1, h2, h3, h5, h6, h7]
  all_goals (try intros)
  all_goals (try simp only [restore_dummy])
  all_goals (first | assumption | exact StartT.fin (by assumption) | (simp_all; done) | skip)

/-! ### the theorems -/

/-- the breaker prelude (admission, circuit events) is not `free`: in a tail-quiet log it takes no time,
    so the monitor's clock over the whole log is the retry loop's own -/
theorem run_retryTraceT (cfg : Cfg) (t : Trace) (hq : quietTail t = true) :
    run cfg (retryTrace t) = run cfg t := by
  unfold retryTrace run
  induction t with
  | nil => rfl
  | cons x t ih =>
    have hqt : quietTail t = true := by simp_all [quietTail]
    simp only [List.dropWhile_cons]
    split
    · rename_i hp
      have hd : x.2.dur = 0 := by
        obtain ⟨r, a⟩ := x
        cases r <;> simp_all [quietTail, isPrelude, free]
      have hs : step cfg {} x = {} := by
        obtain ⟨r, a⟩ := x
        cases r <;> simp_all [isPrelude, step]
      rw [List.foldl_cons, hs]
      exact ih hqt
    · rfl

theorem verdict_of_finT {cfg : Cfg} {e : Entry} {w : World} {r : Res} (h : FinT cfg w) :
    Mon.C02.okTail cfg e w.trace.reverse r = true := by
  unfold Mon.C02.okTail
  split
  · rename_i hc
    have hq : quietTail w.trace.reverse = true := by simp_all
    have hq' : QuietT w.trace := by simpa using (quietTail_iff _).mp hq
    obtain ⟨h1, h2⟩ := h hq'
    simp only [snapT] at h1 h2
    rw [run_retryTraceT cfg _ hq, run_reverse]
    simp only [h1, Bool.not_false, Bool.true_and, Bool.or_eq_true, Bool.not_eq_true', decide_eq_true_eq]
    cases hh : honestSleeper w.trace.reverse with
    | false => exact Or.inl rfl
    | true => exact Or.inr (h2 (by simpa using (honest_iff _).mp hh))
  · rfl

theorem start_startT (cfg : Cfg) (w : World) : StartT cfg (startWorld w) := fun _ => rfl

/--
**C02 under the tail guard.**  For every configuration, every entry point and every world (every
answer stream, clock value, state of a shared budget or breaker) the run satisfies `Mon.C02.okTail`:
measured on the monotonic clock from the start of the call, whenever time passes only in attempts,
sleeps, the classifier, the result classifier and `strategy.record_failure` (`quietTail`) —

* the operation is never invoked again once more than `deadline` has elapsed;
* every backoff sleep requested fits the time then remaining (`elapsed + d ≤ deadline`), where
  `elapsed` INCLUDES the time the classifier(s) and `record_failure` took;
* after a failure observed at `elapsed ≥ deadline` the operation is not invoked and no sleep is requested;
* if moreover every sleep lasts at least as long as requested (`honestSleeper`), the total sleep
  requested is at most `deadline`.
-/
theorem envelope_tail_hold (cfg : Cfg) (e : Entry) (w : World) :
    Mon.C02.okTail cfg e (runEntry cfg e w).2.trace.reverse (runEntry cfg e w).1 = true := by
  cases e with
  | call =>
    have := adequacy (runCall_spec cfg) (startWorld w) (start_startT cfg w)
    simp only [runEntry, startWorld] at this ⊢
    split at this <;> rename_i heq <;> simp only [heq, toRes] <;> exact verdict_of_finT this
  | execute =>
    have := adequacy (runExecute_spec cfg) (startWorld w) (start_startT cfg w)
    simp only [runEntry, startWorld] at this ⊢
    split at this <;> rename_i heq <;> simp only [heq, toResO] <;> exact verdict_of_finT this
  | pcall =>
    cases hret : cfg.hasRetry with
    | false => simp [Mon.C02.okTail, hasLoop, hret, Entry.isPolicy]
    | true =>
      have := adequacy (call_retry_spec cfg hret) (startWorld w) (start_startT cfg w)
      simp only [runEntry, startWorld] at this ⊢
      split at this <;> rename_i heq <;> simp only [heq, toRes] <;> exact verdict_of_finT this
  | pexecute =>
    cases hret : cfg.hasRetry with
    | false => simp [Mon.C02.okTail, hasLoop, hret, Entry.isPolicy]
    | true =>
      have := adequacy (execute_retry_spec cfg hret) (startWorld w) (start_startT cfg w)
      simp only [runEntry, startWorld] at this ⊢
      split at this <;> rename_i heq <;> simp only [heq, toResO] <;> exact verdict_of_finT this

/-- …and therefore of every call in every script of calls and clock advances on ONE policy object. -/
theorem envelope_tail_hold_script (cfg : Cfg) : ∀ (steps : List Step) (w : World),
    ∀ l ∈ (runScript cfg steps w).1, Mon.C02.okTail cfg l.entry l.trace l.res = true := by
  intro steps
  induction steps with
  | nil => intro w l hl; simp [runScript] at hl
  | cons st rest ih =>
    intro w l hl
    cases st with
    | advance d => exact ih _ l (by simpa [runScript] using hl)
    | run e =>
      simp only [runScript, List.mem_cons] at hl
      rcases hl with rfl | hl
      · exact envelope_tail_hold cfg e w
      · exact ih _ l hl

/-! ### what acceptance means, and that the weaker guard has teeth where `quiet` has none -/

/-- what acceptance by `okTail` means for a tail-quiet log of an entry point with a retry loop: the
    `Envelope` of Props/C02, whose conjuncts (`no_attempt_after_deadline`, `sleep_le_remaining`,
    `total_sleep_le_deadline`, `late_failure_not_retried`) are stated about the log alone -/
theorem envelope_of_okTail {cfg : Cfg} {e : Entry} {t : Trace} {r : Res} (h : Mon.C02.okTail cfg e t r = true)
    (hl : hasLoop cfg e = true) (hq : quietTail t = true) : Envelope cfg t := by
  unfold Mon.C02.okTail at h
  simp only [hl, hq, Bool.and_self, if_true, run_retryTraceT cfg t hq, Bool.and_eq_true, Bool.not_eq_true',
    Bool.or_eq_true, decide_eq_true_eq] at h
  refine ⟨h.1, fun hh => ?_⟩
  rw [← run_slept cfg]
  rcases h.2 with h2 | h2
  · simp [hh] at h2
  · exact h2

/-- every tail-quiet run of the model through an entry point with a retry loop is within the envelope -/
theorem run_envelope_tail (cfg : Cfg) (e : Entry) (w : World) (hl : hasLoop cfg e = true)
    (hq : quietTail (runEntry cfg e w).2.trace.reverse = true) :
    Envelope cfg (runEntry cfg e w).2.trace.reverse :=
  envelope_of_okTail (envelope_tail_hold cfg e w) hl hq

/-- `max_attempts=3 deadline=10`, a context strategy with `record_failure` / `record_success` -/
def recCfg : Cfg := { maxAttempts := 3, deadline := 10, stratRecords := fun _ => true }

/-- (a) `strategy.record_failure` takes 4: the first attempt fails at elapsed 1, the library measures
    `remaining = 10 - 5 = 5` AFTER the hook, the strategy asks for 9, the sleep is clamped to 5. -/
def slowRecordLog : Trace :=
  [(.op 1, .raise (.ordinary 1 .transient) 1),
   (.classify "o1", .klass ⟨.transient, none⟩ 0),
   (.stratRecordFailure .default .transient, .unit 4),
   (.strategy .default .ctx (ceCtx 1 none 5), .delay (.fin 9) 0),
   (.sleeper .dflt 5, .unit 5),
   (.op 2, .value 42 0),
   (.stratRecordSuccess .default, .unit 0)]

/-- the log is not `quiet` (so `Mon.C02.ok` does not look at it) but tail-quiet, and accepted -/
example : quiet slowRecordLog = false ∧ quietTail slowRecordLog = true ∧
    honestSleeper slowRecordLog = true ∧ (run recCfg (retryTrace slowRecordLog)).bad = false ∧
    Mon.C02.okTail recCfg .call slowRecordLog (.ret 42) = true := by decide

/-- …and it is the model's own run on these answers (kernel evaluation of `runEntry`) -/
def slowRecordWorld : World :=
  { answers := [.raise (.ordinary 1 .transient) 1, .klass ⟨.transient, none⟩ 0, .unit 4, .delay (.fin 9) 0,
                .unit 5, .value 42 0, .unit 0] }

example : (runEntry recCfg .call slowRecordWorld).2.trace.reverse = slowRecordLog ∧
    (runEntry recCfg .call slowRecordWorld).1 = .ret 42 := by decide +kernel

/-- (b) the same log as a library with a STALE `remaining` would produce it: the clock reading taken
    before `record_failure` (elapsed 1, remaining 9) is reused, the strategy's 9 is not clamped, and the
    sleep ends at 14 > 10. -/
def staleRemainingLog : Trace :=
  [(.op 1, .raise (.ordinary 1 .transient) 1),
   (.classify "o1", .klass ⟨.transient, none⟩ 0),
   (.stratRecordFailure .default .transient, .unit 4),
   (.strategy .default .ctx (ceCtx 1 none 9), .delay (.fin 9) 0),
   (.sleeper .dflt 9, .unit 9),
   (.stratRecordSuccess .default, .unit 0)]

/-- `Mon.C02.ok` accepts it vacuously (not `quiet`); `okTail` judges it and rejects it -/
example : quiet staleRemainingLog = false ∧ Mon.C02.ok recCfg .call staleRemainingLog (.ret 42) = true ∧
    quietTail staleRemainingLog = true ∧ (run recCfg (retryTrace staleRemainingLog)).bad = true ∧
    Mon.C02.okTail recCfg .call staleRemainingLog (.ret 42) = false := by decide

/-! ### the guard cannot be weakened to the strategy call

The library does NOT read the clock again after `strategy(ctx)`: time that passes in the strategy is
not accounted for.  `max_attempts=3 deadline=10`; the strategy takes 6 to answer 9: the model requests
a sleep of 9 at elapsed 7.  So `strategy` (like every callback between the second clock reading and
the sleeper: budget, `retry` event hooks, abort poll, sleep handler, `before_sleep`; and like the
hooks between the post-sleep check and the next attempt, see `slowHookLog` in Props/C02) must stay
outside `free`. -/

def slowStrategyWorld : World :=
  { answers := [.raise (.ordinary 1 .transient) 1, .klass ⟨.transient, none⟩ 0, .unit 0, .delay (.fin 9) 6,
                .unit 9] }

def slowStrategyLog : Trace :=
  [(.op 1, .raise (.ordinary 1 .transient) 1),
   (.classify "o1", .klass ⟨.transient, none⟩ 0),
   (.stratRecordFailure .default .transient, .unit 0),
   (.strategy .default .ctx (ceCtx 1 none 9), .delay (.fin 9) 6),
   (.sleeper .dflt 9, .unit 9)]

example : (runEntry recCfg .call slowStrategyWorld).2.trace.reverse = slowStrategyLog := by decide +kernel

example : quietTail slowStrategyLog = false ∧ (run recCfg slowStrategyLog).bad = true := by decide

end Redress.Props.C02Tail

#print axioms Redress.Props.C02Tail.envelope_tail_hold
#print axioms Redress.Props.C02Tail.envelope_tail_hold_script
#print axioms Redress.Props.C02Tail.ok_of_okTail
