/-
  Redress.Props.C07Breaker — breaker-level part of "Open breaker fails fast; recovery admits
  exactly one probe".  (The policy-level part — a rejected call invokes nothing — is elsewhere.)

  State-level theorems hold for EVERY model state with the stated shape (reachable or not), every
  configuration and every clock value; history-level theorems for every history (with a
  non-decreasing clock where `Mono` is assumed).

    open_rejects_until_timeout, open_rejects_iff
    rejections_count_nothing, open_ignores_records
    open_fails_fast, opened_then_fails_fast, reachable_open_fails_fast
    half_open_single_probe, after_timeout_exactly_one_probe
    probe_success_closes_empty, after_close_single_failure_does_not_trip
    probe_failure_reopens_fresh
    probe_cancel_frees_slot
    single_outstanding_probe_partial      (caller-labelled histories; hypothesis `noStale`)
    single_outstanding_probe_false_F7     (the unrestricted statement is FALSE: finding F7)
-/
import Redress.Props.C06

namespace Redress.Breaker
open List

/-! ## OPEN: fail fast until the recovery timeout -/

/-- **open_rejects_until_timeout** — in state OPEN with `opened_at = t0`:
`allow()` at `now` is rejected (event `circuit_rejected`) and the WHOLE state is unchanged when
`now − t0 < recovery`; at `now − t0 ≥ recovery` it is admitted, the state becomes HALF_OPEN with
the probe flag set (nothing else changes) and the event is `circuit_half_open`. -/
theorem open_rejects_until_timeout (c : Cfg) (s : St) (t0 now : Nat)
    (hopen : s.state = .opened) (hat : s.openedAt = some t0) :
    (now < t0 + c.recovery → allow c s now = ((false, .opened, some .circuitRejected), s)) ∧
    (t0 + c.recovery ≤ now →
      allow c s now = ((true, .halfOpen, some .circuitHalfOpen),
        { s with state := .halfOpen, probe := true })) := by
  constructor
  · intro h
    have h' : ¬ t0 + c.recovery ≤ now := by omega
    simp only [allow, hopen, hat, Option.getD_some, h', if_false]
    cases s; simp_all
  · intro h
    simp only [allow, hopen, hat, Option.getD_some, h, if_true]

/-- rejected *iff* the timeout has not elapsed -/
theorem open_rejects_iff (c : Cfg) (s : St) (t0 now : Nat)
    (hopen : s.state = .opened) (hat : s.openedAt = some t0) :
    ((allow c s now).1.1 = false ↔ now < t0 + c.recovery) ∧
    ((allow c s now).2 = s ↔ now < t0 + c.recovery) := by
  obtain ⟨h1, h2⟩ := open_rejects_until_timeout c s t0 now hopen hat
  by_cases h : now < t0 + c.recovery
  · simp [h1 h, h]
  · have h' : t0 + c.recovery ≤ now := by omega
    rw [h2 h']
    simp only [Bool.true_eq_false, h, iff_false, true_and]
    intro hEq
    have : ({ s with state := .halfOpen, probe := true } : St).state = s.state := by rw [hEq]
    simp [hopen] at this

/-- **rejections_count_nothing** — a rejected `allow()` (in ANY state) records nothing: failure
history, class buckets, state and probe flag are untouched; and on a breaker whose `opened_at`
is set while OPEN (every reachable one) the whole state is untouched. -/
theorem rejections_count_nothing (c : Cfg) (s : St) (now : Nat)
    (hrej : (allow c s now).1.1 = false) :
    (allow c s now).2.failures = s.failures ∧
    (allow c s now).2.classFailures = s.classFailures ∧
    (allow c s now).2.state = s.state ∧
    (allow c s now).2.probe = s.probe ∧
    (allow c s now).1.2.2 = some .circuitRejected ∧
    ((s.state = .opened → s.openedAt ≠ none) → (allow c s now).2 = s) := by
  cases hs : s.state with
  | closed => simp [allow, hs] at hrej
  | opened =>
    by_cases h : s.openedAt.getD now + c.recovery ≤ now
    · simp [allow, hs, h] at hrej
    · refine ⟨by simp [allow, hs, h], by simp [allow, hs, h], by simp [allow, hs, h],
        by simp [allow, hs, h], by simp [allow, hs, h], fun hoa => ?_⟩
      cases hat : s.openedAt with
      | none => exact absurd hat (hoa rfl)
      | some t0 =>
        have h' : ¬ t0 + c.recovery ≤ now := by simpa [hat] using h
        simp only [allow, hs, hat, Option.getD_some, h', if_false]
        cases s; simp_all
  | halfOpen =>
    simp only [allow, hs] at hrej ⊢
    split at hrej
    · rename_i h; simp [h, hs]
    · simp at hrej

/-- while OPEN every `record_*` returns no event and changes nothing -/
theorem open_ignores_records (c : Cfg) (s : St) (hopen : s.state = .opened) :
    recordSuccess s = (none, s) ∧ (∀ k now, recordFailure c s k now = (none, s)) ∧
    recordCancel s = s := by
  simp [recordSuccess, recordFailure, recordCancel, hopen]

/-- what a rejected / ignored operation returns while OPEN -/
def openOut : Op → Out
  | .allow _ => .decision false .opened (some .circuitRejected)
  | _ => .event none

/-- **open_fails_fast** — from the moment a breaker opens (`opened_at = t0`) and for ANY sequence
of operations (any number, any interleaving of allow / record_*), as long as every `allow` reads a
clock value `< t0 + recovery`: every `allow` is rejected, every `record_*` is ignored, and the
whole state is still the one at opening — in particular nothing is counted. -/
theorem open_fails_fast (c : Cfg) (s : St) (t0 : Nat) (hopen : s.state = .opened)
    (hat : s.openedAt = some t0) (L : List Op)
    (hearly : ∀ now, Op.allow now ∈ L → now < t0 + c.recovery) :
    mrun c s L = (L.map openOut, s) := by
  induction L with
  | nil => rfl
  | cons op r ih =>
    have hstep : mstep c s op = (openOut op, s) := by
      cases op with
      | allow now =>
        have := (open_rejects_until_timeout c s t0 now hopen hat).1 (hearly now (by simp))
        simp [mstep, this, openOut]
      | success => simp [mstep, (open_ignores_records c s hopen).1, openOut]
      | cancel => simp [mstep, (open_ignores_records c s hopen).2.2, openOut]
      | failure k now => simp [mstep, (open_ignores_records c s hopen).2.1 k now, openOut]
    have := ih (fun now h => hearly now (by simp [h]))
    simp [mrun, hstep, this]

example : (St.openedAtTime 7).state = .opened ∧ (St.openedAtTime 7).openedAt = some 7 ∧
    (∀ now, Op.allow now ∈ [Op.allow 8, .failure .transient 100, .success, .allow 11] →
      now < 7 + exCfg.recovery) := by
  refine ⟨rfl, rfl, ?_⟩
  intro now h; simp at h; rcases h with rfl | rfl <;> decide

/-- the same, anchored at the operation that opened the circuit, in any reachable state: after
an operation that returned `circuit_opened` at `now0`, every continuation whose `allow`s come
before `now0 + recovery` is rejected / ignored throughout and leaves `St.openedAtTime now0`. -/
theorem opened_then_fails_fast (c : Cfg) (hw : 0 < c.window) (H1 : List Op) (op : Op)
    (L : List Op) (hm : Mono (H1 ++ [op]))
    (hopened : (mstep c (mrun c .init H1).2 op).1 = .event (some .circuitOpened)) :
    ∃ k now0, op = .failure k now0 ∧
      ((∀ now, Op.allow now ∈ L → now < now0 + c.recovery) →
        mrun c .init (H1 ++ op :: L) =
          ((mrun c .init (H1 ++ [op])).1 ++ L.map openOut, St.openedAtTime now0)) := by
  obtain ⟨k, now0, hop, hrun⟩ :=
    (pre_transition_failures_do_not_count c hw H1 op L hm).2 hopened
  refine ⟨k, now0, hop, fun hearly => ?_⟩
  rw [hrun, open_fails_fast c (St.openedAtTime now0) now0 rfl rfl L hearly]

/-- every reachable OPEN state has its opening instant recorded, so the biconditional applies
to it: after ANY monotone history that leaves the breaker OPEN, `allow` at `now` is rejected iff
`now <` (the history's opening instant) `+ recovery`. -/
theorem reachable_open_fails_fast (c : Cfg) (hw : 0 < c.window) (H : List Op) (hm : Mono H)
    (hopen : (mrun c .init H).2.state = .opened) :
    ∃ t0, openedAtOf c H = some t0 ∧ (mrun c .init H).2 = St.openedAtTime t0 ∧
      ∀ now, ((allow c (mrun c .init H).2 now).1.1 = false ↔ now < t0 + c.recovery) ∧
             ((allow c (mrun c .init H).2 now).2 = (mrun c .init H).2 ↔ now < t0 + c.recovery) := by
  obtain ⟨t0, h1, h2, -, h4⟩ := (non_closed_state_matches_history c hw H hm).1 hopen
  exact ⟨t0, h2, h4, fun now => open_rejects_iff c _ t0 now hopen h1⟩

example : Mono [Op.failure .transient 1, .failure .transient 2, .failure .transient 3] ∧
    (mrun exCfg .init [.failure .transient 1, .failure .transient 2, .failure .transient 3]).2.state
      = .opened := by decide

/-! ## HALF_OPEN: exactly one probe -/

/-- **half_open_single_probe** — while HALF_OPEN with the probe flag set, every `allow()` is
rejected and leaves the state unchanged, for any number of calls at any clock values. -/
theorem half_open_single_probe (c : Cfg) (s : St) (hho : s.state = .halfOpen)
    (hprobe : s.probe = true) (ts : List Nat) :
    mrun c s (ts.map .allow) =
      (ts.map (fun _ => .decision false .halfOpen (some .circuitRejected)), s) := by
  induction ts with
  | nil => rfl
  | cons t r ih => simp [mrun, mstep, allow, hho, hprobe, ih]

/-- non-vacuity: a reachable state with `state = HALF_OPEN ∧ probe` -/
example : Mono [Op.failure .transient 1, .failure .transient 2, .failure .transient 3, .allow 8] ∧
    (mrun exCfg .init [.failure .transient 1, .failure .transient 2, .failure .transient 3,
      .allow 8]).2.state = .halfOpen ∧
    (mrun exCfg .init [.failure .transient 1, .failure .transient 2, .failure .transient 3,
      .allow 8]).2.probe = true := by decide

/-- after the timeout exactly one caller is admitted: the first `allow` at or after
`t0 + recovery` is the probe, and every further `allow` (any number, any time) is rejected until
a `record_*` arrives. -/
theorem after_timeout_exactly_one_probe (c : Cfg) (s : St) (t0 now : Nat)
    (hopen : s.state = .opened) (hat : s.openedAt = some t0) (hlate : t0 + c.recovery ≤ now)
    (ts : List Nat) :
    mrun c s (.allow now :: ts.map .allow) =
      (.decision true .halfOpen (some .circuitHalfOpen) ::
        ts.map (fun _ => .decision false .halfOpen (some .circuitRejected)),
       { s with state := .halfOpen, probe := true }) := by
  have h := (open_rejects_until_timeout c s t0 now hopen hat).2 hlate
  have h2 := half_open_single_probe c { s with state := .halfOpen, probe := true } rfl rfl ts
  simp [mrun, mstep, h, h2]

/-- **probe_success_closes_empty** — `record_success()` in HALF_OPEN returns `circuit_closed` and
leaves exactly the state of a freshly constructed breaker: CLOSED, no `opened_at`, no probe flag,
EMPTY failure history and class buckets. -/
theorem probe_success_closes_empty (s : St) (hho : s.state = .halfOpen) :
    recordSuccess s = (some .circuitClosed, St.init) := by
  simp [recordSuccess, hho, clear, St.init]

/-- … so a single later failure does not re-trip (unless a threshold is 1): the first counted
failure after a close opens iff `failure_threshold ≤ 1` or the class threshold is `≤ 1`. -/
theorem after_close_single_failure_does_not_trip (c : Cfg) (s : St) (hho : s.state = .halfOpen)
    (k : EClass) (now : Nat) (hft : 2 ≤ c.failureThreshold)
    (hct : ∀ th, c.classThreshold k = some th → 2 ≤ th) :
    (recordFailure c (recordSuccess s).2 k now).1 = none ∧
    (recordFailure c (recordSuccess s).2 k now).2.state = .closed := by
  rw [probe_success_closes_empty s hho]
  by_cases htr : c.tripOn k = true
  · cases hth : c.classThreshold k with
    | none =>
      have : ¬ c.failureThreshold ≤ 1 := by omega
      simp [recordFailure, St.init, htr, noteFailure, hth, prune, this]
    | some th =>
      have h1 : ¬ c.failureThreshold ≤ 1 := by omega
      have h2 : ¬ th ≤ 1 := by have := hct th hth; omega
      simp [recordFailure, St.init, htr, noteFailure, hth, prune, h1, h2]
  · simp [recordFailure, St.init, htr]

example : (2 : Nat) ≤ exCfg.failureThreshold ∧
    ∀ th, exCfg.classThreshold .rateLimit = some th → 2 ≤ th := by decide

/-- **probe_failure_reopens_fresh** — `record_failure(k)` in HALF_OPEN (ANY class `k`, counted or
not) returns `circuit_opened` and leaves exactly `St.openedAtTime now`: OPEN, `opened_at = now`,
no flag, empty history; hence the timeout restarts: the next `allow` is rejected iff it comes
before `now + recovery`. -/
theorem probe_failure_reopens_fresh (c : Cfg) (s : St) (hho : s.state = .halfOpen)
    (k : EClass) (now : Nat) :
    recordFailure c s k now = (some .circuitOpened, St.openedAtTime now) ∧
    ∀ now', ((allow c (recordFailure c s k now).2 now').1.1 = false ↔ now' < now + c.recovery) := by
  have h : recordFailure c s k now = (some .circuitOpened, St.openedAtTime now) := by
    simp [recordFailure, hho, clear, St.openedAtTime]
  refine ⟨h, fun now' => ?_⟩
  rw [h]
  exact (open_rejects_iff c (St.openedAtTime now) now now' rfl rfl).1

/-- **probe_cancel_frees_slot** — `record_cancel()` in HALF_OPEN only clears the probe flag, so
the NEXT `allow()` is admitted (no event, state stays HALF_OPEN, flag set again). -/
theorem probe_cancel_frees_slot (c : Cfg) (s : St) (hho : s.state = .halfOpen) (now : Nat) :
    recordCancel s = { s with probe := false } ∧
    allow c (recordCancel s) now = ((true, .halfOpen, none), { s with probe := true }) := by
  simp [recordCancel, allow, hho]

/-- in HALF_OPEN without an outstanding probe the next caller is admitted as the probe -/
theorem half_open_free_slot_allows (c : Cfg) (s : St) (hho : s.state = .halfOpen)
    (hfree : s.probe = false) (now : Nat) :
    allow c s now = ((true, .halfOpen, none), { s with probe := true }) := by
  simp [allow, hho, hfree]

/-! ## At most one admitted-and-unrecorded probe (caller-labelled histories)

`COp.call id now` = caller `id` calls `allow()` at `now`; `COp.settle id r` = caller `id` calls one
`record_*`.  `disciplined` = every caller asks once and every *admitted* caller records exactly
once (never a rejected one, never twice).  `G.outProbe` = callers admitted with decision state
HALF_OPEN that have not recorded yet.

FULL STATEMENT (false — see `single_outstanding_probe_false_F7`):
    ∀ c H, disciplined c .init H → (grun c .init H).outProbe.length ≤ 1

What is missing in the `_partial` version is precisely the exclusion of *stale completions*
(`noStale`): a caller admitted while CLOSED, before the circuit last opened, that records while
the breaker is HALF_OPEN.  The breaker API has no call tokens, so it cannot tell such a record
from the probe's (DESIGN §6 F7). -/

/-- the flag is set iff there is exactly one outstanding probe, else there is none -/
def ProbeInv (g : G) : Prop :=
  g.outProbe.length = if g.s.state = .halfOpen ∧ g.s.probe = true then 1 else 0

theorem probeInv_step (c : Cfg) (g : G) (op : COp) (hinv : ProbeInv g)
    (hd : disciplined c g [op] = true) (hn : noStale c g [op] = true) :
    ProbeInv (gstep c g op) := by
  unfold ProbeInv at hinv ⊢
  cases op with
  | call id now =>
    cases hs : g.s.state with
    | closed => simp_all [gstep, allow]
    | opened =>
      simp only [gstep, allow, hs] at hinv ⊢
      split <;> simp_all
    | halfOpen =>
      cases hp : g.s.probe <;> simp_all [gstep, allow]
  | settle id r =>
    simp only [noStale, disciplined, Bool.and_true, Bool.or_eq_true, bne_iff_ne, ne_eq,
      List.contains_iff_mem] at hd hn
    cases hs : g.s.state with
    | closed =>
      have h0 : g.outProbe = [] := by simpa [hs] using hinv
      have hst : (mstep c g.s r.op).2.state ≠ .halfOpen := by
        cases r with
        | success => simp [Settle.op, mstep, recordSuccess, hs]
        | cancel => simp [Settle.op, mstep, recordCancel, hs]
        | failure k now =>
          simp only [Settle.op, mstep, recordFailure, hs]
          split
          · split
            · simp [clear]
            · unfold noteFailure
              cases c.classThreshold k with
              | none => simp [hs]
              | some th => simp only []; split <;> simp [hs]
          · simp [hs]
      simp [gstep, h0, hst]
    | opened =>
      have h0 : g.outProbe = [] := by simpa [hs] using hinv
      have hst : (mstep c g.s r.op).2.state = .opened := by
        cases r <;> simp [Settle.op, mstep, recordSuccess, recordCancel, recordFailure, hs]
      simp [gstep, h0, hst]
    | halfOpen =>
      have hmem : id ∈ g.outProbe := by
        rcases hn with h | h
        · exact absurd hs h
        · exact h
      have hlen : g.outProbe.length = 1 := by
        have hpos : 0 < g.outProbe.length := List.length_pos_of_mem hmem
        split at hinv <;> omega
      have herase : (g.outProbe.erase id).length = 0 := by
        rw [List.length_erase_of_mem hmem, hlen]
      have hst : ¬ ((mstep c g.s r.op).2.state = .halfOpen ∧ (mstep c g.s r.op).2.probe = true) := by
        cases r <;> simp [Settle.op, mstep, recordSuccess, recordCancel, recordFailure, hs, clear]
      simp only [gstep, herase, hst, if_false]

theorem disciplined_cons (c : Cfg) (g : G) (op : COp) (r : List COp) :
    disciplined c g (op :: r) = (disciplined c g [op] && disciplined c (gstep c g op) r) := by
  cases op <;> simp [disciplined]

theorem noStale_cons (c : Cfg) (g : G) (op : COp) (r : List COp) :
    noStale c g (op :: r) = (noStale c g [op] && noStale c (gstep c g op) r) := by
  cases op <;> simp [noStale]

theorem probeInv_run (c : Cfg) (H : List COp) :
    ∀ g, ProbeInv g → disciplined c g H = true → noStale c g H = true → ProbeInv (grun c g H) := by
  induction H with
  | nil => intro g h _ _; exact h
  | cons op r ih =>
    intro g hinv hd hn
    rw [disciplined_cons, Bool.and_eq_true] at hd
    rw [noStale_cons, Bool.and_eq_true] at hn
    exact ih _ (probeInv_step c g op hinv hd.1 hn.1) hd.2 hn.2

/-- **single_outstanding_probe_partial** — for every configuration and every caller-labelled
history (no clock assumption) that obeys the discipline and contains no stale completion: at
every moment at most one admitted probe is unrecorded; more precisely there is exactly one iff
the breaker is HALF_OPEN with the flag set, and none otherwise — so nobody else is admitted in
HALF_OPEN until that probe's `record_*` arrives (`half_open_single_probe`). -/
theorem single_outstanding_probe_partial (c : Cfg) (H : List COp)
    (hd : disciplined c .init H = true) (hn : noStale c .init H = true) :
    (grun c .init H).outProbe.length ≤ 1 ∧
    ((grun c .init H).outProbe.length = 1 ↔
      (grun c .init H).s.state = .halfOpen ∧ (grun c .init H).s.probe = true) := by
  have h := probeInv_run c H G.init (by simp [ProbeInv, G.init, St.init]) hd hn
  unfold ProbeInv at h
  split at h <;> simp_all

/-- it holds at every prefix as well ("at any time") -/
theorem single_outstanding_probe_partial_prefix (c : Cfg) (H P : List COp) (hP : P <+: H)
    (hd : disciplined c .init H = true) (hn : noStale c .init H = true) :
    (grun c .init P).outProbe.length ≤ 1 := by
  obtain ⟨R, rfl⟩ := hP
  have key : ∀ (g : G) (A B : List COp), disciplined c g (A ++ B) = true →
      noStale c g (A ++ B) = true → disciplined c g A = true ∧ noStale c g A = true := by
    intro g A B
    induction A generalizing g with
    | nil => intros; simp [disciplined, noStale]
    | cons op r ih =>
      intro h1 h2
      rw [List.cons_append, disciplined_cons, Bool.and_eq_true] at h1
      rw [List.cons_append, noStale_cons, Bool.and_eq_true] at h2
      have := ih _ h1.2 h2.2
      rw [disciplined_cons, noStale_cons]
      simp [h1.1, h2.1, this.1, this.2]
  have := key G.init P R hd hn
  exact (single_outstanding_probe_partial c P this.1 this.2).1

/-- a disciplined history without stale completions that goes through opening, probing, a
rejected second caller, a cancelled probe, a re-admitted probe, re-opening and closing -/
def exCalls : List COp :=
  [.call 0 0, .settle 0 (.failure .transient 1), .call 1 1, .settle 1 (.failure .transient 2),
   .call 2 2, .settle 2 (.failure .transient 3),          -- opens at 3
   .call 3 4,                                             -- rejected
   .call 4 8, .call 5 8,                                  -- 4 is the probe, 5 rejected
   .settle 4 .cancel, .call 6 9,                          -- slot freed, 6 is the probe
   .settle 6 (.failure .unknown 10),                      -- re-opens at 10
   .call 7 15, .settle 7 .success, .call 8 16]

example : disciplined exCfg .init exCalls = true ∧ noStale exCfg .init exCalls = true := by decide

/-- **F7 (stale completion), proved on a concrete history.**  Threshold 1.  Caller 0 is admitted
while CLOSED and is slow.  Caller 1's failure opens the circuit at 1; after the recovery timeout
caller 2 is admitted as the probe; caller 0 now records (a cancel) — which frees the probe slot —
and caller 3 is admitted as a second probe while caller 2 is still outstanding.  The history
obeys the caller discipline, so the unrestricted statement
`∀ c H, disciplined c .init H → (grun c .init H).outProbe.length ≤ 1` is false. -/
def f7Cfg : Cfg :=
  { failureThreshold := 1, window := 10, recovery := 5,
    tripOn := fun k => k == .transient || k == .serverError, classThreshold := fun _ => none }

def f7Calls : List COp :=
  [.call 0 0, .call 1 0, .settle 1 (.failure .transient 1), .call 2 6, .settle 0 .cancel, .call 3 6]

theorem single_outstanding_probe_false_F7 :
    disciplined f7Cfg .init f7Calls = true ∧
    (grun f7Cfg .init f7Calls).outProbe = [3, 2] ∧
    noStale f7Cfg .init f7Calls = false := by decide

theorem single_outstanding_probe_unrestricted_is_false :
    ¬ (∀ (c : Cfg) (H : List COp), disciplined c .init H = true →
        (grun c .init H).outProbe.length ≤ 1) := by
  intro h
  have := h f7Cfg f7Calls single_outstanding_probe_false_F7.1
  rw [single_outstanding_probe_false_F7.2.1] at this
  simp at this

/-- the other two faces of F7 on plain breaker histories: a stale *success* closes the circuit
while the probe is outstanding (so callers are admitted freely before the probe's result), and a
stale *failure* re-opens it. -/
theorem stale_success_closes_with_probe_outstanding :
    (mrun f7Cfg .init [.allow 0, .allow 0, .failure .transient 1, .allow 6, .success, .allow 6]).1 =
      [.decision true .closed none, .decision true .closed none, .event (some .circuitOpened),
       .decision true .halfOpen (some .circuitHalfOpen), .event (some .circuitClosed),
       .decision true .closed none] := by decide

end Redress.Breaker
