/-
  C07 (policy level) — Open breaker fails fast: a call the breaker rejects invokes nothing.

  `Mon.C07.ok` is true of every run of the model.  When `breaker.allow()` answers "not allowed",
  `Policy.call` / `Policy.execute` (sync and async) make no request before the breaker is asked and
  afterwards only emit the rejection event on the metric / log hooks: no operation, no attempt hook,
  no abort poll, no classifier / strategy / sleep handler / sleeper, no `record_*`; the embedded
  breaker is left exactly as `allow()` left it; `call()` raises `CircuitOpenError(state)` and
  `execute()` returns a not-ok outcome with zero attempts.

  Combined with the breaker-level theorems of `C07Breaker.lean` (when `allow` rejects):
  `open_breaker_fails_fast` — with the embedded breaker OPEN and `now < opened_at + recovery`.
-/
import Redress.Props.C08

open Std.Do

namespace Redress.Props.C07
open Redress Redress.Retry Redress.Policy Redress.Mon Redress.Mon.C09
open Redress.Props.C08 (cur cur_cons run_reverse decision startWorld)

/-- the only requests a rejected call makes after the rejection: the event on the two hooks -/
def mlK : Kind → Bool
  | .metric | .log => true
  | _ => false

/-- some exchange was answered by raising `e` -/
def raisedIn (tr : List (Req × Ans)) (e : Exn) : Bool :=
  tr.any fun x => match x.2 with
    | .raise e' _ => e' == e
    | _ => false

theorem raisedBy_reverse (tr : List (Req × Ans)) (e : Exn) :
    Mon.raisedBy (fun _ => true) tr.reverse e = raisedIn tr e := by
  simp only [Mon.raisedBy, raisedIn, List.any_reverse, Bool.true_and]
  congr 1

/-- After the rejection `x0` (the `allow` exchange): the log is `x0` followed by metric / log
    exchanges only; the execution context says "not admitted"; the breaker is as `allow` left it. -/
structure Rej (x0 : Req × Ans) (bR : Breaker.St) (w : World) : Prop where
  trace : ∃ δ, w.trace = δ ++ [x0] ∧ ∀ x ∈ δ, mlK x.1.kind = true
  xadm : w.xc.admitted = false
  breaker : w.breaker = bR

theorem Rej.ext {x0 : Req × Ans} {bR : Breaker.St} {w w' : World} (h : Ext mlK w w') (hr : Rej x0 bR w) :
    Rej x0 bR w' := by
  obtain ⟨δ, e, k⟩ := h.trace
  obtain ⟨δ0, e0, k0⟩ := hr.trace
  refine ⟨⟨δ ++ δ0, by simp [e, e0], ?_⟩, by rw [h.xc]; exact hr.xadm, by rw [h.breaker]; exact hr.breaker⟩
  intro x hx
  rcases List.mem_append.mp hx with h | h
  · exact k x h
  · exact k0 x h

/-- the monitor does not move on metric / log exchanges once the call has been rejected -/
theorem step_ml (s : St) (hs : s.admitted = some false) (x : Req × Ans) (h : mlK x.1.kind = true) :
    step s x = s := by
  obtain ⟨r, a⟩ := x
  cases r <;> simp_all [mlK, Req.kind, step, count, noteClassifier, isRecord]

theorem cur_append_ml (δ t : List (Req × Ans)) (ht : (cur t).admitted = some false)
    (h : ∀ x ∈ δ, mlK x.1.kind = true) : cur (δ ++ t) = cur t := by
  induction δ with
  | nil => rfl
  | cons x δ ih =>
    have := ih (fun y hy => h y (by simp [hy]))
    simp only [List.cons_append, cur_cons, this]
    exact step_ml _ ht x (h x (by simp))

/-- what the monitor has seen of a rejected call -/
theorem Rej.cur {st : CState} {ev : Option Event} {bR : Breaker.St} {w : World}
    (hr : Rej (.breakerAllow, .admit false st ev) bR w) :
    cur w.trace = { admitted := some false, admitState := some st } := by
  obtain ⟨δ, e, k⟩ := hr.trace
  rw [e, cur_append_ml δ _ (by simp [C08.cur, step, count, noteClassifier]) k]
  simp [C08.cur, step, count, noteClassifier]

/-- a rejected call makes no request but `allow` and the event hooks -/
theorem Rej.quiet {st : CState} {ev : Option Event} {bR : Breaker.St} {w : World}
    (hr : Rej (.breakerAllow, .admit false st ev) bR w) :
    ∀ x ∈ w.trace, x.1 = .breakerAllow ∨ mlK x.1.kind = true := by
  obtain ⟨δ, e, k⟩ := hr.trace
  intro x hx
  rw [e] at hx
  rcases List.mem_append.mp hx with h | h
  · exact Or.inr (k x h)
  · simp at h; subst h; exact Or.inl rfl

theorem Rej.not_pending {x0 : Req × Ans} {bR : Breaker.St} {w : World} (h : Rej x0 bR w)
    (hc : (w.xc.admitted && !w.xc.settled) = true) : False := by
  have := h.xadm
  simp_all

section leaves
variable (x0 : Req × Ans) (bR : Breaker.St)

/-- one exchange with a metric / log hook: if it raises, the log shows who raised what -/
theorem ask_rej (r : Req) (hk : mlK r.kind = true) :
    ⦃fun w => ⌜Rej x0 bR w⌝⦄ ask r
    ⦃post⟨fun _ w => ⌜Rej x0 bR w⌝, fun e w => ⌜Rej x0 bR w ∧ raisedIn w.trace e = true⌝⟩⦄ := by
  mvcgen [ask]
  all_goals (try subst_vars) <;> (try intros)
  all_goals first
    | exact Rej.ext ⟨⟨[_], rfl, by simp [hk]⟩, rfl, rfl⟩ (by assumption)
    | (refine ⟨Rej.ext ⟨⟨[_], rfl, by simp [hk]⟩, rfl, rfl⟩ (by assumption), ?_⟩; simp [raisedIn])

theorem askHook_rej (r : Req) (hk : mlK r.kind = true) :
    ⦃fun w => ⌜Rej x0 bR w⌝⦄ askHook r
    ⦃post⟨fun _ w => ⌜Rej x0 bR w⌝, fun e w => ⌜Rej x0 bR w ∧ raisedIn w.trace e = true⌝⟩⦄ :=
  askHook_triple r (ask_rej x0 bR r hk) (fun w h => presil_cases (Rej x0 bR) w (fun _ => ⟨h.1, h.2, h.3⟩))

theorem emitBreakerEvent_rej (cfg : Cfg) (ev : Option Event) (st : CState) (k : Option EClass) :
    ⦃fun w => ⌜Rej x0 bR w⌝⦄ emitBreakerEvent cfg ev st k
    ⦃post⟨fun _ w => ⌜Rej x0 bR w⌝,
          fun e w => ⌜Rej x0 bR w ∧ e.isException = false ∧ raisedIn w.trace e = true⌝⟩⦄ := by
  have h := askHook_rej x0 bR
  mvcgen [emitBreakerEvent, swallowException, askMetric, askLog, h]
  all_goals (try subst_vars) <;> (try intros)
  all_goals first
    | rfl
    | assumption
    | (simp_all; done)
    | skip

theorem policyOutcome_rej (ok : Bool) (value : Option Nat) (stop : Option StopReason) (attempts : Nat)
    (lc : Option EClass) (le : Option String) (cause : Option Cause) :
    ⦃fun w => ⌜Rej x0 bR w⌝⦄ policyOutcome ok value stop attempts lc le cause
    ⦃post⟨fun o w => ⌜Rej x0 bR w ∧ o.ok = ok ∧ o.attempts = attempts ∧ o.lastExc = le⌝,
          fun _ _ => ⌜False⌝⟩⦄ := by
  mvcgen [policyOutcome, xElapsed]
  all_goals simp_all

theorem ensureSettled_rej (cfg : Cfg) (tr : List (Req × Ans)) :
    ⦃fun w => ⌜Rej x0 bR w ∧ w.trace = tr⌝⦄ ensureSettled cfg
    ⦃post⟨fun _ w => ⌜Rej x0 bR w ∧ w.trace = tr⌝, fun _ _ => ⌜False⌝⟩⦄ := by
  mvcgen [ensureSettled]
  all_goals (try subst_vars) <;> (try intros)
  rename_i hr hc
  have := hr.1.xadm
  simp_all

end leaves


/-! ### the rejected call -/

section rejected
variable (cfg : Cfg) (bc : Breaker.Cfg) (hb : cfg.breaker = some bc) (b0 : Breaker.St) (now0 : Nat)
  (ha : decision bc b0 now0 = false)

/-- the `allow` exchange of a call started with breaker `b0` at `now0` -/
abbrev allowX (bc : Breaker.Cfg) (b0 : Breaker.St) (now0 : Nat) : Req × Ans :=
  (.breakerAllow, .admit (Breaker.allow bc b0 now0).1.1 (Breaker.allow bc b0 now0).1.2.1
    (Breaker.allow bc b0 now0).1.2.2)

/-- how a rejected call may end: CircuitOpenError with the breaker's state — or a BaseException-only
    kind raised by the metric / log hook on the rejection event -/
def RejExn (st : CState) (w : World) (e : Exn) : Prop :=
  e = .libCircuitOpen st ∨ (e.isException = false ∧ raisedIn w.trace e = true)

include ha

theorem breakerAllow_rej :
    ⦃fun w => ⌜w.trace = [] ∧ w.breaker = b0 ∧ w.now = now0 ∧ w.xc.admitted = false⌝⦄
    breakerAllow bc
    ⦃post⟨fun d w => ⌜d = (Breaker.allow bc b0 now0).1 ∧
            Rej (allowX bc b0 now0) (Breaker.allow bc b0 now0).2 w⌝,
          fun _ _ => ⌜False⌝⟩⦄ := by
  mvcgen [breakerAllow]
  rename_i h
  obtain ⟨h1, h2, h3, h4⟩ := h
  subst h2 h3
  exact ⟨rfl, ⟨⟨[], by simp [h1, allowX], by simp⟩, by simpa using ha, rfl⟩⟩

include hb

theorem checkBreaker_rej :
    ⦃fun w => ⌜w.trace = [] ∧ w.breaker = b0 ∧ w.now = now0 ∧ w.xc.admitted = false⌝⦄
    checkBreaker cfg
    ⦃post⟨fun _ _ => ⌜False⌝,
          fun e w => ⌜Rej (allowX bc b0 now0) (Breaker.allow bc b0 now0).2 w ∧
            RejExn (Breaker.allow bc b0 now0).1.2.1 w e⌝⟩⦄ := by
  have h1 := breakerAllow_rej bc b0 now0 ha
  have h2 := emitBreakerEvent_rej (allowX bc b0 now0) (Breaker.allow bc b0 now0).2 cfg
  unfold checkBreaker
  simp only [hb]
  mvcgen [h1, h2]
  all_goals (try subst_vars) <;> (try intros)
  all_goals first
    | (simp_all [RejExn, decision]; done)
    | skip

/-- `Policy.call` when the breaker rejects -/
theorem call_rej :
    ⦃fun w => ⌜w.trace = [] ∧ w.breaker = b0 ∧ w.now = now0⌝⦄
    Policy.call cfg
    ⦃post⟨fun _ _ => ⌜False⌝,
          fun e w => ⌜Rej (allowX bc b0 now0) (Breaker.allow bc b0 now0).2 w ∧
            RejExn (Breaker.allow bc b0 now0).1.2.1 w e⌝⟩⦄ := by
  have h0 := checkBreaker_rej cfg bc hb b0 now0 ha
  mvcgen [Policy.call, initCtx, withFinally, callAdmitted, ensureSettled, Policy.recordCancel, h0]
  all_goals (try subst_vars) <;> (try intros)
  all_goals first
    | (simp_all +zetaDelta; done)
    | (exfalso; rename_i h1 h2 _ _ _; exact h1.1.not_pending (by simpa using h2))
    | skip

/-- `Policy.execute` when the breaker rejects -/
theorem execute_rej :
    ⦃fun w => ⌜w.trace = [] ∧ w.breaker = b0 ∧ w.now = now0⌝⦄
    Policy.execute cfg
    ⦃post⟨fun o w => ⌜Rej (allowX bc b0 now0) (Breaker.allow bc b0 now0).2 w ∧
            o.ok = false ∧ o.attempts = 0 ∧ o.lastExc = some "libCircuitOpen"⌝,
          fun e w => ⌜Rej (allowX bc b0 now0) (Breaker.allow bc b0 now0).2 w ∧
            e.isException = false ∧ raisedIn w.trace e = true⌝⟩⦄ := by
  have h0 := breakerAllow_rej bc b0 now0 ha
  have h2 := emitBreakerEvent_rej (allowX bc b0 now0) (Breaker.allow bc b0 now0).2 cfg
  have h3 := policyOutcome_rej (allowX bc b0 now0) (Breaker.allow bc b0 now0).2
  unfold Policy.execute executeAdmitted
  simp only [hb]
  mvcgen [initCtx, withFinally, ensureSettled, Policy.recordCancel, h0, h2, h3]
  all_goals (try subst_vars) <;> (try intros)
  all_goals first
    | (simp_all +zetaDelta [decision, Exn.ref]; done)
    | (exfalso; rename_i h1 h2 _ _ _; exact h1.1.not_pending (by simpa using h2))
    | skip

end rejected


/-! ### the theorems -/

/-- how a rejected call ends, as a predicate on results -/
def RejRes (e : Entry) (st : CState) (tr : List (Req × Ans)) : Res → Prop
  | .raised x => (e = .pcall ∧ x = .libCircuitOpen st) ∨ (x.isException = false ∧ raisedIn tr x = true)
  | .outcome o _ => e = .pexecute ∧ o.ok = false ∧ o.attempts = 0 ∧ o.lastExc = some "libCircuitOpen"
  | .ret _ => False

/-- non-vacuity of `ha`: an OPEN breaker before its timeout, a HALF_OPEN one with its probe out -/
example : decision Breaker.exCfg (Breaker.St.openedAtTime 7) 8 = false ∧
    decision Breaker.exCfg { state := .halfOpen, probe := true } 100 = false := by decide

/-- What the policy entry points do when the embedded breaker's decision is "not allowed". -/
theorem entry_rejected (cfg : Cfg) (bc : Breaker.Cfg) (hb : cfg.breaker = some bc) (e : Entry)
    (he : e.isPolicy = true) (w : World) (ha : decision bc w.breaker w.now = false) :
    Rej (allowX bc w.breaker w.now) (Breaker.allow bc w.breaker w.now).2 (runEntry cfg e w).2 ∧
    RejRes e (Breaker.allow bc w.breaker w.now).1.2.1 (runEntry cfg e w).2.trace (runEntry cfg e w).1 := by
  cases e with
  | call => cases he
  | execute => cases he
  | pcall =>
    have := adequacy (call_rej cfg bc hb w.breaker w.now ha) (startWorld w) ⟨rfl, rfl, rfl⟩
    simp only [runEntry, startWorld] at this ⊢
    split at this <;> rename_i heq <;> simp only [heq, toRes]
    · exact absurd this id
    · refine ⟨this.1, ?_⟩
      rcases this.2 with h | h
      · exact Or.inl ⟨rfl, h⟩
      · exact Or.inr h
  | pexecute =>
    have := adequacy (execute_rej cfg bc hb w.breaker w.now ha) (startWorld w) ⟨rfl, rfl, rfl⟩
    simp only [runEntry, startWorld] at this ⊢
    split at this <;> rename_i heq <;> simp only [heq, toResO]
    · exact ⟨this.1, rfl, this.2⟩
    · exact ⟨this.1, Or.inr this.2⟩

/--
**C07 (policy level).**  For every configuration, entry point and world: if the breaker rejected the
call then (i) nothing was requested before the breaker was asked; (ii) afterwards no operation, no
attempt hook, no abort poll, no classifier, strategy, sleep handler or sleeper was invoked — only the
rejection event went to the metric / log hooks; (iii) no `record_*` reached the breaker (a rejection
is not counted as anything); (iv) `call()` raised `CircuitOpenError(state)` with the state the
breaker reported, `execute()` returned a not-ok outcome with zero attempts carrying that error —
unless the metric / log hook answered the rejection event with a BaseException-only kind, which
propagates.
-/
theorem rejected_hold (cfg : Cfg) (e : Entry) (w : World) :
    Mon.C07.ok cfg e (runEntry cfg e w).2.trace.reverse (runEntry cfg e w).1 = true := by
  unfold Mon.C07.ok
  cases he : e.isPolicy with
  | false => simp
  | true =>
    cases hb : cfg.breaker with
    | none => simp
    | some bc =>
      simp only [Bool.true_and, Option.isSome_some, if_true, run_reverse]
      cases ha : decision bc w.breaker w.now with
      | true =>
        have := (C08.entry_done cfg bc hb e he w).inv.adm
        rw [ha] at this
        simp [this]
      | false =>
        obtain ⟨hr, hres⟩ := entry_rejected cfg bc hb e he w ha
        have ha' : (Breaker.allow bc w.breaker w.now).1.1 = false := ha
        simp only [allowX, ha'] at hr
        rw [hr.cur]
        simp only [raisedBy_reverse]
        revert hres
        generalize (runEntry cfg e w).1 = r
        cases r with
        | ret v => intro h; exact absurd h id
        | outcome o tl =>
          rintro ⟨rfl, h1, h2, h3⟩
          simp [h1, h2, h3, Entry.isExecute]
        | raised x =>
          rintro (⟨rfl, rfl⟩ | ⟨h1, h2⟩)
          · simp [Entry.isExecute]
          · cases x <;> simp_all [Exn.isException]

theorem rejected_hold_script (cfg : Cfg) : ∀ (steps : List Step) (w : World),
    ∀ l ∈ (runScript cfg steps w).1, Mon.C07.ok cfg l.entry l.trace l.res = true := by
  intro steps
  induction steps with
  | nil => intro w l hl; simp [runScript] at hl
  | cons st rest ih =>
    intro w l hl
    cases st with
    | advance d => exact ih _ l (by simpa [runScript] using hl)
    | run e =>
      simp only [runScript, List.mem_cons] at hl
      rcases hl with rfl | hl
      · exact rejected_hold cfg e w
      · exact ih _ l hl

/-! ### with the embedded breaker -/

/-- **rejected_call_leaves_breaker_unchanged.**  A rejected policy call leaves the breaker exactly as
    `allow()` left it — no `record_*` touched it: failure history, class buckets, state and probe flag
    are those from before the call, and on a breaker whose `opened_at` is set while OPEN (every
    reachable one) the whole state is. -/
theorem rejected_call_leaves_breaker_unchanged (cfg : Cfg) (bc : Breaker.Cfg) (hb : cfg.breaker = some bc)
    (e : Entry) (he : e.isPolicy = true) (w : World)
    (hrej : (Mon.C09.run (runEntry cfg e w).2.trace.reverse).admitted = some false) :
    (runEntry cfg e w).2.breaker = (Breaker.allow bc w.breaker w.now).2 ∧
    (runEntry cfg e w).2.breaker.failures = w.breaker.failures ∧
    (runEntry cfg e w).2.breaker.classFailures = w.breaker.classFailures ∧
    (runEntry cfg e w).2.breaker.state = w.breaker.state ∧
    (runEntry cfg e w).2.breaker.probe = w.breaker.probe ∧
    ((w.breaker.state = .opened → w.breaker.openedAt ≠ none) → (runEntry cfg e w).2.breaker = w.breaker) := by
  rw [C08.entry_decision cfg bc hb e he w] at hrej
  have ha : decision bc w.breaker w.now = false := by simpa using hrej
  have hr := (entry_rejected cfg bc hb e he w ha).1
  have := Breaker.rejections_count_nothing bc w.breaker w.now ha
  rw [hr.breaker]
  exact ⟨rfl, this.1, this.2.1, this.2.2.1, this.2.2.2.1, this.2.2.2.2.2⟩

/-- **open_breaker_fails_fast.**  With the embedded breaker OPEN since `t0` and the clock before
    `t0 + recovery`, a policy call — `call` or `execute`, sync or async, with or without a retry
    component, whatever the answers of the environment would have been — is rejected: the operation is
    not invoked (nor anything else but the breaker and the event hooks), the breaker is left exactly
    as it was (nothing is counted), and the call raises `CircuitOpenError("open")` / returns the
    circuit-open outcome with zero attempts (or propagates a BaseException-only kind raised by the
    metric / log hook on the rejection event). -/
theorem open_breaker_fails_fast (cfg : Cfg) (bc : Breaker.Cfg) (hb : cfg.breaker = some bc)
    (e : Entry) (he : e.isPolicy = true) (w : World) (t0 : Nat)
    (hopen : w.breaker.state = .opened) (hat : w.breaker.openedAt = some t0)
    (hearly : w.now < t0 + bc.recovery) :
    (∀ x ∈ (runEntry cfg e w).2.trace, x.1 = .breakerAllow ∨ mlK x.1.kind = true) ∧
    Mon.opCount (runEntry cfg e w).2.trace.reverse = 0 ∧
    (runEntry cfg e w).2.breaker = w.breaker ∧
    RejRes e .opened (runEntry cfg e w).2.trace (runEntry cfg e w).1 := by
  have hal := (Breaker.open_rejects_until_timeout bc w.breaker t0 w.now hopen hat).1 hearly
  have ha : decision bc w.breaker w.now = false := by simp [decision, hal]
  obtain ⟨hr, hres⟩ := entry_rejected cfg bc hb e he w ha
  have hr' := hr
  simp only [allowX, hal] at hr'
  refine ⟨hr'.quiet, ?_, by rw [hr.breaker, hal], by simpa [hal] using hres⟩
  have hq := hr'.quiet
  simp only [Mon.opCount, List.filter_reverse, List.length_reverse, List.length_eq_zero_iff,
    List.filter_eq_nil_iff]
  intro x hx
  rcases hq x hx with h | h
  · simp [h, Mon.isOp]
  · obtain ⟨r, a⟩ := x
    cases r <;> simp_all [mlK, Req.kind, Mon.isOp]

/-- non-vacuity of the hypotheses: an OPEN breaker before its recovery timeout -/
example : (Breaker.St.openedAtTime 7).state = .opened ∧ (Breaker.St.openedAtTime 7).openedAt = some 7 ∧
    8 < 7 + Breaker.exCfg.recovery := by decide

end Redress.Props.C07
