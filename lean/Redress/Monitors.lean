/-
  Redress.Monitors — the executable property monitors `Cxx.ok`, written once, evaluated by the
  driver on traces of the model *and* of the implementation, and proved true of every model run in
  `Redress/Props/Cxx.lean`.
-/
import Redress.Model.Run

namespace Redress

/-- A monitor judges one call: configuration, entry point, exchange log (oldest first), result. -/
abbrev Monitor := Cfg → Entry → List (Req × Ans) → Res → Bool

namespace Monitors

/-- registry used by the driver: (property id, monitor name, monitor) -/
def all : List (String × String × Monitor) := []

end Monitors
end Redress
