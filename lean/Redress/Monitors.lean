/-
  Redress.Monitors — the executable property monitors, written once.

  Each monitor judges ONE call: configuration, entry point, exchange log (oldest first), result.
  The driver evaluates them on the log of the model *and* on the log recorded from the Python
  implementation; `Redress/Props/Cxx.lean` proves them true of every model run.

  A monitor is a left fold with a small state (`σ`, `step`) and a verdict at the end — the shape
  the proofs want (the fold state at any program point is a function of the trace so far).
-/
import Redress.Model.Run

namespace Redress

/-- A monitor judges one call: configuration, entry point, exchange log (oldest first), result. -/
abbrev Monitor := Cfg → Entry → List (Req × Ans) → Res → Bool

abbrev Trace := List (Req × Ans)

namespace Mon

/-! ### shared vocabulary -/

def isOp : Req → Bool
  | .op _ => true
  | _ => false

def isSleeper : Req → Bool
  | .sleeper .. => true
  | _ => false

/-- the failure class an answer to a classifier request announces -/
def classOf? : Req → Ans → Option Classification
  | .classify _, .klass c _ => some c
  | .resultClassify _, .klass c _ => some c
  | _, _ => none

def opCount (t : Trace) : Nat := (t.filter (isOp ·.1)).length

def isRecord : Req → Bool
  | .breakerSuccess | .breakerFailure _ | .breakerCancel => true
  | _ => false

/-- some exchange whose request satisfies `p` was answered by raising `e` -/
def raisedBy (p : Req → Bool) (t : List (Req × Ans)) (e : Exn) : Bool :=
  t.any fun x => p x.1 && (match x.2 with
    | .raise e' _ => e' == e
    | _ => false)

def isAttemptHook : Req → Bool
  | .attemptStart _ | .attemptEnd _ | .abortIf => true
  | _ => false

/-- an attempt hook or the abort predicate itself RAISED (execute() then treats the error as a
    failure of an attempt in which the operation was never invoked): outside the stated
    environment of every property but C08 -/
def attemptHookFault (t : List (Req × Ans)) : Bool :=
  t.any fun x => isAttemptHook x.1 && (x.2 matches .raise ..)

/-- an observability hook raised something that is not an `Exception` (KeyboardInterrupt, …):
    outside every property's stated environment except C08's -/
def hookBaseFault (t : List (Req × Ans)) : Bool :=
  t.any fun x => (match x.1 with
      | .metric .. | .log .. | .beforeSleep .. => true
      | _ => false) && (match x.2 with
      | .raise e _ => !e.isException
      | _ => false)

def isBreakerEv : Event → Bool
  | .circuitOpened | .circuitHalfOpen | .circuitClosed | .circuitRejected => true
  | _ => false

/-- admission by the breaker and the events it emits come before the retry state (and its clock)
    exists -/
def isPrelude : Req → Bool
  | .breakerAllow => true
  | .metric ev .. => isBreakerEv ev
  | .log ev .. => isBreakerEv ev
  | _ => false

/-- the part of the log that belongs to the retry loop's own clock -/
def retryTrace (t : List (Req × Ans)) : List (Req × Ans) := t.dropWhile (isPrelude ·.1)

/-- the breaker rejected this call -/
def rejected (t : List (Req × Ans)) : Bool :=
  t.any fun x => match x.1, x.2 with
    | .breakerAllow, .admit false _ _ => true
    | _, _ => false

/-- an entry with a retry loop in it -/
def hasLoop (cfg : Cfg) (e : Entry) : Bool := !e.isPolicy || cfg.hasRetry

/-! ### C01 — attempt caps -/

namespace C01

structure St where
  ops : Nat := 0
  pending : Option EClass := none          -- class of the last failure, no op since
  retries : EClass → Nat := fun _ => 0     -- ops that immediately followed a class-K failure
  dead : Bool := false                     -- a non-retryable failure has been seen
  bad : Bool := false                      -- an op after a non-retryable failure

def step (s : St) (x : Req × Ans) : St :=
  match x.1 with
  | .op _ =>
    let s := { s with ops := s.ops + 1, bad := s.bad || s.dead }
    match s.pending with
    | some k => { s with pending := none,
                         retries := fun k' => if k' = k then s.retries k' + 1 else s.retries k' }
    | none => s
  | _ => match classOf? x.1 x.2 with
    | some c => { s with pending := some c.klass, dead := s.dead || c.klass.nonRetryable }
    | none => s

def run (t : Trace) : St := t.foldl step {}

def verdict (cfg : Cfg) (e : Entry) (s : St) : Bool :=
  if hasLoop cfg e then
    decide (s.ops ≤ cfg.maxAttempts) && !s.bad
    && EClass.all.all (fun k => match cfg.perClass k with
        | some l => decide (s.retries k ≤ l)
        | none => true)
    && (match cfg.maxUnknown with
        | some m => decide (s.retries .unknown ≤ m)
        | none => true)
  else decide (s.ops ≤ 1)

def ok : Monitor := fun cfg e t _ => verdict cfg e (run t)

end C01

/-! ### elapsed time: passes only inside answers -/

/-- elapsed time (since the start of the call) at each exchange: before and after the answer -/
def withTimes (t : Trace) : List (Nat × (Req × Ans) × Nat) :=
  (t.foldl (fun (acc : Nat × List (Nat × (Req × Ans) × Nat)) x =>
      (acc.1 + x.2.dur, (acc.1, x, acc.1 + x.2.dur) :: acc.2)) (0, [])).2.reverse

/-- time passes only in attempts and sleeps (C02's quantifier) -/
def quiet (t : Trace) : Bool :=
  t.all fun x => isOp x.1 || isSleeper x.1 || x.2.dur == 0

/-- each sleeper call lasts at least the requested delay, unless it raises
    (whatever it returns: the library ignores the sleeper's return value) -/
def honestSleeper (t : Trace) : Bool :=
  t.all fun x => match x.1, x.2 with
    | .sleeper _ _, .raise _ _ => true
    | .sleeper _ d, a => decide (d ≤ a.dur)
    | _, _ => true

/-! ### C02 — deadline envelope -/

namespace C02

structure St where
  now : Nat := 0                 -- elapsed at the next request
  ops : Nat := 0
  slept : Nat := 0               -- Σ requested delays
  late : Bool := false           -- a failure has been observed at elapsed ≥ deadline
  bad : Bool := false

def step (cfg : Cfg) (s : St) (x : Req × Ans) : St :=
  let after := s.now + x.2.dur
  match x.1 with
  | .op _ =>
    let failed := match x.2 with
      | .raise e _ => e.isException && !e.isAbort && !e.isExhausted
      | _ => false
    { s with now := after, ops := s.ops + 1,
             bad := s.bad || s.late || (decide (s.ops ≥ 1) && decide (s.now > cfg.deadline)),
             late := s.late || (failed && decide (after ≥ cfg.deadline)) }
  | .resultClassify _ =>
    let failed := match x.2 with
      | .klass .. => true
      | _ => false
    { s with now := after, late := s.late || (failed && decide (s.now ≥ cfg.deadline)) }
  | .sleeper _ d =>
    { s with now := after, slept := s.slept + d,
             bad := s.bad || s.late || decide (s.now + d > cfg.deadline) }
  | _ => { s with now := after }

def run (cfg : Cfg) (t : Trace) : St := t.foldl (step cfg) {}

/-- Under `quiet`: no attempt after the deadline, no sleep beyond the remaining time, no retry of a
    late failure; under `quiet ∧ honestSleeper` also Σ sleeps ≤ deadline. -/
def ok : Monitor := fun cfg e t _ =>
  if hasLoop cfg e && quiet t then
    let s := run cfg (retryTrace t)
    !s.bad && (!honestSleeper t || decide (s.slept ≤ cfg.deadline))
  else true

end C02

/-! ### C13 — abort and cancellation -/

namespace C13

structure St where
  polled : Bool := false        -- an abort poll since the last op / sleeper answer / start
  aborted : Bool := false       -- a poll answered True, or the operation raised AbortRetryError
  cancelled : Option Exn := none   -- the first cancellation-type exception raised by any callback
  bad : Bool := false

/-- the part of a step that concerns polls, attempts, sleeps and aborts (no cancellation yet) -/
def stepLive (cfg : Cfg) (s : St) (x : Req × Ans) : St :=
  match x.1, x.2 with
  | .abortIf, .bool true _ => { s with polled := true, aborted := true }
  | .abortIf, _ => { s with polled := true }
  | .op _, a =>
    let s := { s with bad := s.bad || s.aborted || (cfg.abortIf && !s.polled), polled := false }
    match a with
    | .raise e _ => if e.isAbort then { s with aborted := true } else s
    | _ => s
  | .sleeper .., _ =>
    -- a poll is due again after the sleep: "before every attempt" includes the attempt that
    -- follows a backoff sleep
    { s with bad := s.bad || s.aborted || (cfg.abortIf && !s.polled), polled := false }
  | _, _ => s

def step (cfg : Cfg) (s : St) (x : Req × Ans) : St :=
  -- breaker bookkeeping (`record_success / record_failure / record_cancel`) never moves the monitor:
  -- it is what `except CancelledError: record_cancel` and `finally: ensure_settled` do on the way out
  if Mon.isRecord x.1 then s
  else match s.cancelled with
    -- after a cancellation nothing else may happen: no classification, retry, sleep, hook or event
    | some _ => { s with bad := true }
    | none =>
      let s := stepLive cfg s x
      -- a cancellation-type exception delivered at ANY callback (the operation, a sleep, the abort
      -- predicate, an attempt hook, a classifier, a strategy, a sleep handler, a before-sleep hook,
      -- a metric or log hook): every await point of an async run is one of these
      match x.2 with
      | .raise e _ => if e.isCancelKind then { s with cancelled := some e } else s
      | _ => s

def run (cfg : Cfg) (t : Trace) : St := t.foldl (step cfg) {}

def resIsAbort : Res → Bool
  | .raised e => e.isAbort
  | .outcome o _ => o.stop == some .aborted
  | _ => false

def verdict (t : Trace) (s : St) (r : Res) : Bool :=
  !s.bad
  && (match s.cancelled with
      | some e => r == .raised e
      | none => true)
  && (if s.aborted && s.cancelled.isNone then
        -- the run ends aborted, unless an error of some other callback intervened
        match r with
        -- (`.stuck` is model-only — an ill-shaped answer stream; it never occurs in a log of the
        --  implementation)
        | .raised e => e.isAbort || e == .stuck || Mon.raisedBy (fun r => !Mon.isOp r) t e
        | .outcome o _ => o.stop == some .aborted
        | .ret _ => false
      else true)

/-- every entry point, with or without a retry component (without one the pre-flight abort check
    and the single attempt are subject to the same rules) -/
def ok : Monitor := fun cfg _ t r => verdict t (run cfg t) r

end C13

/-! ### C03 — retry exactly when permitted -/

namespace C03

/-- The retry loop's own clock as a fold: time elapsed since the first exchange that is not part of
    the breaker prelude, i.e. the total duration of `retryTrace t` (`elapsedOf_eq` in Props/C03). -/
structure Clock where
  started : Bool := false
  el : Nat := 0

def Clock.tick (c : Clock) (x : Req × Ans) : Clock :=
  if !c.started && isPrelude x.1 then c else { started := true, el := c.el + x.2.dur }

def elapsedOf (t : Trace) : Nat := (t.foldl Clock.tick {}).el

/-- callbacks whose `AbortRetryError` the library does not swallow (the observability hooks'
    exceptions are swallowed; the attempt hooks and the abort predicate are outside the environment) -/
def abortKind : Req → Bool
  | .op _ | .classify _ | .resultClassify _ | .strategy .. | .stratRecordFailure .. | .stratRecordSuccess _
  | .sleepHandler .. | .sleeper .. => true
  | _ => false

/-- one of those callbacks raised an `AbortRetryError` -/
def abortRaise (x : Req × Ans) : Bool :=
  match x.2 with
  | .raise e _ => e.isAbort && abortKind x.1
  | _ => false

structure St where
  ops : Nat := 0
  succeeded : Bool := false        -- the last op returned a value not (yet) classified as failure
  done : Bool := false             -- a success has been confirmed
  classified : Bool := false       -- since the last op: the failure has been classified
  strat : Bool := false            -- since the last op: strategy called
  granted : Bool := false          -- since the last op: budget granted
  refused : Bool := false          -- since the last op: budget refused
  retryEv : Bool := false          -- since the last op: `retry` event seen (metric)
  pollFalse : Bool := false        -- since the strategy call: a poll answered False
  decision : Option SleepDecision := none
  slept : Bool := false            -- since the last op: sleeper called
  mustOp : Bool := false           -- the backoff sleep ended with every condition for another attempt met
  sawAbort : Bool := false
  sawDefer : Bool := false
  sawOther : Bool := false         -- a sleep handler returned something that is not a SleepDecision
  lastClass : Option EClass := none
  classCount : EClass → Nat := fun _ => 0
  bad : Bool := false

/-- the failure class of the attempt in progress; a second classification without an operation
    call in between is `Policy.call` classifying the final exception for the breaker: not counted -/
def classify (s : St) (k : EClass) : St :=
  if s.classified then s
  else { s with classified := true, succeeded := false, lastClass := some k,
                classCount := fun k' => if k' = k then s.classCount k' + 1 else s.classCount k' }

def overClass (cfg : Cfg) (s : St) (k : EClass) : Bool :=
  match cfg.perClass k with
  | some l => decide (s.classCount k > l)
  | none => false

def overUnknown (cfg : Cfg) (s : St) : Bool :=
  match cfg.maxUnknown with
  | some m => decide (s.classCount .unknown > m)
  | none => false

/-- the class of the failure of the attempt in progress forbids a retry: it is not retryable, has no
    strategy, or a per-class / UNKNOWN cap is exceeded -/
def classStop (cfg : Cfg) (s : St) : Bool :=
  match s.lastClass with
  | some k => k.nonRetryable || (cfg.selectStrategy k).isNone || overClass cfg s k
              || (k == .unknown && overUnknown cfg s)
  | none => true

/-- one exchange; `el` = the loop's elapsed time after it -/
def step (cfg : Cfg) (s : St) (x : Req × Ans) (el : Nat) : St :=
  let afterLast := decide (s.ops ≥ cfg.maxAttempts)
  let s := { s with sawAbort := s.sawAbort || abortRaise x }
  match x.1, x.2 with
  | .op _, a =>
    let s := { s with bad := s.bad || s.done || (decide (s.ops ≥ 1) && !s.slept) }
    let s := { s with ops := s.ops + 1, classified := false, strat := false, granted := false,
                      refused := false, retryEv := false, pollFalse := false, decision := none,
                      slept := false, mustOp := false }
    (match a with
     | .value .. => { s with succeeded := true, done := !cfg.resultClassifier }
     | _ => { s with succeeded := false })
  | .resultClassify _, .noFailure _ => { s with done := true }
  | .resultClassify _, .klass c _ => classify s c.klass
  | .classify _, .klass c _ => classify s c.klass
  | .abortIf, .bool b _ =>
    { s with pollFalse := s.pollFalse || (s.strat && !b), sawAbort := s.sawAbort || b,
             mustOp := s.mustOp && !b }
  | .abortIf, _ => { s with mustOp := false }   -- only a poll answered False keeps the obligation
  -- a delay is computed only for a classified failure whose class permits a retry, before the deadline
  | .strategy .., a =>
    { s with strat := true,
             bad := s.bad || s.done || afterLast || !s.classified || classStop cfg s
                    || decide (cfg.deadline ≤ el - a.dur) }
  | .budgetConsume, .granted g =>
    { s with granted := s.granted || g, refused := s.refused || !g,
             bad := s.bad || s.done || afterLast || s.granted || s.refused || !s.strat }
  | .metric .retry .., _ =>
    { s with retryEv := true,
             bad := s.bad || s.done || afterLast || !s.strat || (cfg.budget.isSome && !s.granted) }
  | .metric .budgetExhausted .., _ => { s with bad := s.bad || !s.refused }
  | .sleepHandler .., .decision d _ =>
    { s with decision := some d, sawAbort := s.sawAbort || d == .abort,
             sawDefer := s.sawDefer || d == .defer, sawOther := s.sawOther || d == .other }
  | .sleeper .., a =>
    let permitted := s.strat && (cfg.budget.isNone || s.granted) && (!cfg.metric || s.retryEv)
      && (!cfg.abortIf || s.pollFalse)
      && (cfg.handler.isNone || s.decision == some .sleep)
    let returned := match a with
      | .raise .. => false
      | _ => true
    { s with slept := true, bad := s.bad || s.done || afterLast || !permitted || s.slept,
             mustOp := returned && decide (el ≤ cfg.deadline) && decide (s.ops < cfg.maxAttempts) }
  | _, _ => s

def run (cfg : Cfg) (t : Trace) : St :=
  (t.foldl (fun (acc : St × Clock) x =>
      let c := acc.2.tick x
      (step cfg acc.1 x c.el, c)) ({}, {})).1

/-- The stop reason a result reports.  A `RetryExhaustedError` object that some callback itself
    raised is not a report of this run (it belongs to a nested run; the library passes it through). -/
def stopOf (t : Trace) : Res → Option StopReason
  | .outcome o _ => o.stop
  | .raised (.libExhausted f) =>
    if raisedBy (fun _ => true) t (.libExhausted f) then none else some f.stop
  | _ => none

/-- each reported stop reason implies its condition -/
def stopCond (cfg : Cfg) (s : St) (el : Nat) : StopReason → Bool
  | .maxAttemptsGlobal => decide (s.ops ≥ cfg.maxAttempts)
  | .budgetExhausted => s.refused
  | .aborted => s.sawAbort
  | .scheduled => s.sawDefer
  | .deadlineExceeded => decide (el ≥ cfg.deadline)
  | .nonRetryableClass => (s.lastClass.map EClass.nonRetryable).getD false
  | .maxUnknownAttempts => s.lastClass == some .unknown && overUnknown cfg s
  | .maxAttemptsPerClass => (s.lastClass.map (overClass cfg s)).getD false
  | .noStrategy => (s.lastClass.map fun k => (cfg.selectStrategy k).isNone).getD false

def stopSound (cfg : Cfg) (t : Trace) (s : St) (r : Res) : Bool :=
  match stopOf t r with
  | none => true
  | some reason => stopCond cfg s (elapsedOf t) reason

/-- some condition that ends a run in failure holds -/
def anyStop (cfg : Cfg) (s : St) (el : Nat) : Bool :=
  [StopReason.maxAttemptsGlobal, .budgetExhausted, .deadlineExceeded, .nonRetryableClass,
   .maxUnknownAttempts, .maxAttemptsPerClass, .noStrategy].any (stopCond cfg s el)

def nonOp (r : Req) : Bool := !isOp r

/-- No premature give-up, read off the END of the log: a run that made an attempt and did not end
    in a confirmed success must report a stop reason (judged by `stopSound`), or end with an
    exception that is not an attempt failure (abort, cancellation, nested exhaustion), or with one
    that a callback other than the operation raised, or with the ValueError for a malformed
    handler decision; `call()` re-raising the operation's own exception is justified only if
    the failure was classified and a stop condition holds. -/
def giveUpOk (cfg : Cfg) (t : Trace) (s : St) (r : Res) : Bool :=
  if s.ops == 0 || s.done then true
  else match r with
    | .ret _ => false
    | .outcome o _ => !o.ok && o.stop.isSome
    | .raised e =>
      if !e.isException || e.isAbort || e.isExhausted then true
      else raisedBy nonOp t e || (e == .libValueError && s.sawOther)
           || (raisedBy isOp t e && s.classified && anyStop cfg s (elapsedOf t))

/-- No wasted token, read off the END of the log: if the budget granted a token in the last attempt,
    the grant was reported (`retry` event, when a metric hook is configured) and the backoff was at
    least begun (a sleeper request, or a sleep handler's answer) — unless the run was aborted or
    ended with an exception; it does not end with any other stop reason. -/
def grantOk (cfg : Cfg) (t : Trace) (s : St) (r : Res) : Bool :=
  !s.granted ||
    ((!cfg.metric || s.retryEv) &&
     (s.slept || s.decision.isSome || (match stopOf t r with
        | none => true
        | some .aborted => true
        | some _ => false)))

def ok : Monitor := fun cfg e t r =>
  if hasLoop cfg e && !Mon.attemptHookFault t then
    let s := run cfg t
    !s.bad && stopSound cfg t s r && !s.mustOp && giveUpOk cfg t s r && grantOk cfg t s r
  else true

end C03

/-! ### C05 — backoff delay data-flow; C16 — sleep-handler protocol -/

namespace C05

/-
  The monitor runs over `retryTrace t` (the log minus the breaker-admission prelude: the retry clock
  starts when `_RetryState` is created, after admission).  Guards (`ok` is `true` without looking):
  * `hasLoop cfg e` false — a `Policy` without a retry component never computes a delay;
  * in `resOk` only: a `RetryExhaustedError` *object that a callback raised* says nothing about this run
    (model-only: the model's oracle can hand the library's own exception values to callbacks).
  No guard for raising attempt hooks / `abort_if`: the attempt number is counted as the loop counts it
  (an attempt begins with the operation's invocation, or — in `execute()`, when an attempt hook raised
  before the operation could be invoked — with the classification of that error).
-/

/-- Monitor state.  One violation flag per conjunct of the property. -/
structure St where
  now : Nat := 0                     -- time elapsed on the retry clock
  att : Nat := 0                     -- number of the current attempt (attempts begun so far)
  opSince : Bool := false            -- the operation has been invoked since the last failure classification
  lastCls : Option Classification := none
  lastCause : Cause := .exception
  prev : Option Nat := none          -- previously applied delay (= delay of the last GRANTED retry)
  strats : Nat := 0                  -- strategy calls in the current attempt
  delay : Option Nat := none         -- sanitised output of the last strategy call
  badSel : Bool := false             -- a strategy other than table[class] / default was consulted
  badArgs : Bool := false            -- a strategy saw wrong arguments
  badCount : Bool := false           -- > 1 strategy call in one attempt, or a retry without exactly one
  badSleep : Bool := false           -- the sleeper received something else than the sanitised output
  badFlow : Bool := false            -- handler / before_sleep / sleeper / `retry` event saw another delay

def sanitize := Retry.sanitize

/-- A failure classification.  It ends the attempt's "operation phase"; when the operation was not
    invoked since the previous classification (only in `execute()`: an attempt hook raised before the
    operation could be invoked and the loop handles that error as this attempt's failure) it is
    itself the beginning of the attempt. -/
def clsStep (s : St) (c : Classification) (cause : Cause) : St :=
  if s.opSince then { s with opSince := false, lastCls := some c, lastCause := cause }
  else { s with att := s.att + 1, strats := 0, lastCls := some c, lastCause := cause }

/-- what the strategy must have been asked, judged at time `t` of the request -/
def selOk (cfg : Cfg) (s : St) (key : SKey) (kind : SKind) : Bool :=
  (s.lastCls.bind fun c => cfg.selectStrategy c.klass) == some (key, kind)

def argsOk (cfg : Cfg) (s : St) (t : Nat) (kind : SKind) (ctx : BackoffCtx) : Bool :=
  ctx.attempt == s.att
  && (s.lastCls.map (·.klass)) == some ctx.klass
  && ctx.prev == s.prev
  && (kind == .legacy ||
       ((s.lastCls.bind (·.retryAfter)) == ctx.retryAfter
        && ctx.remaining + t == cfg.deadline && decide (0 < ctx.remaining)
        && ctx.cause == s.lastCause))

/-- a strategy call at time `t` answered by `a` -/
def stratStep (cfg : Cfg) (s : St) (t : Nat) (key : SKey) (kind : SKind) (ctx : BackoffCtx) (a : Ans) : St :=
  let d := match a with
    | .delay out _ => some (sanitize out (cfg.deadline - t))
    | _ => none
  { s with strats := s.strats + 1, delay := d,
           -- without a budget the retry is granted as soon as the strategy has answered
           prev := if cfg.budget.isNone && d.isSome then d else s.prev,
           badSel := s.badSel || !selOk cfg s key kind,
           badArgs := s.badArgs || !argsOk cfg s t kind ctx,
           badCount := s.badCount || decide (s.strats ≥ 1) }

/-- somebody is handed the delay `d` of a granted retry -/
def consume (s : St) (d : Nat) : St :=
  { s with badFlow := s.badFlow || !(s.delay == some d), badCount := s.badCount || !(s.strats == 1) }

def step (cfg : Cfg) (s : St) (x : Req × Ans) : St :=
  let t := s.now
  let s := { s with now := s.now + x.2.dur }
  match x.1 with
  | .op _ => { s with att := s.att + 1, opSince := true, strats := 0 }
  | .classify _ => (match x.2 with
      | .klass c _ => clsStep s c .exception
      | _ => s)
  | .resultClassify _ => (match x.2 with
      | .klass c _ => clsStep s c .result
      | _ => s)
  | .strategy key kind ctx => stratStep cfg s t key kind ctx x.2
  | .metric ev _ sl _ => if ev = .retry then consume s sl else s
  | .log ev _ sl _ _ => if ev = .retry then consume s sl else s
  | .budgetConsume =>
    -- the budget is consulted for the retry the (one) strategy call of this attempt priced
    let s := { s with badCount := s.badCount || !(s.strats == 1) }
    (match x.2 with
      | .granted true => { s with prev := s.delay }
      | _ => s)
  | .sleepHandler _ _ d => consume s d
  | .beforeSleep _ _ d => consume s d
  | .sleeper _ d => { consume s d with badSleep := s.badSleep || !(s.delay == some d) }
  | _ => s

def run (cfg : Cfg) (t : Trace) : St := t.foldl (step cfg) {}

/-- a reported `next_sleep_s` is the delay of the (one) strategy call of the last attempt -/
def nsOk (s : St) : Option Nat → Bool
  | some d => s.delay == some d && s.strats == 1
  | none => true

/-- `next_sleep_s` as reported by the result.  A `RetryExhaustedError` object that one of the caller's
    own callbacks raised (rather than the library) reports nothing about this run (model-only: the
    implementation's own exhaustion errors are never produced by callbacks). -/
def resOk (t : Trace) (s : St) : Res → Bool
  | .outcome o _ => nsOk s o.nextSleep
  | .raised (.libExhausted f) => Mon.raisedBy (fun _ => true) t (.libExhausted f) || nsOk s f.nextSleep
  | _ => true

def selectedOk : Monitor := fun cfg e t _ => !hasLoop cfg e || !(run cfg (retryTrace t)).badSel
def argsAreOk : Monitor := fun cfg e t _ => !hasLoop cfg e || !(run cfg (retryTrace t)).badArgs
def countOk : Monitor := fun cfg e t _ => !hasLoop cfg e || !(run cfg (retryTrace t)).badCount
def sleeperOk : Monitor := fun cfg e t _ => !hasLoop cfg e || !(run cfg (retryTrace t)).badSleep
def flowOk : Monitor := fun cfg e t r =>
  !hasLoop cfg e || (!(run cfg (retryTrace t)).badFlow && resOk t (run cfg (retryTrace t)) r)

def ok : Monitor := fun cfg e t r =>
  selectedOk cfg e t r && argsAreOk cfg e t r && countOk cfg e t r && sleeperOk cfg e t r && flowOk cfg e t r

end C05

namespace C16

/-
  Windows are delimited by GRANTS (the strategy answered and — with a budget — a token was granted), not
  by operation invocations, so raising attempt hooks need no guard.  Guards:
  * `hasLoop cfg e` false — no retry component, no sleep protocol;
  * `e == .stuck` in `replaced`: the model's "ill-shaped / missing oracle answer" (never in the
    implementation).
-/

/-- Monitor state.  One violation flag per conjunct of the property. -/
structure St where
  pending : Bool := false                          -- a retry has been granted; its sleeper call is still due
  handler : Option (SleepDecision × Nat) := none   -- decision of the handler call for the pending retry
  handlerCalls : Nat := 0                          -- handler calls for the pending retry
  before : Option Nat := none                      -- before_sleep seen for the pending retry (its d)
  stopped : Option SleepDecision := none           -- a DEFER / ABORT / non-SleepDecision answer was given
  deferD : Option Nat := none
  late : List Exn := []                            -- errors callbacks raised after that answer (not swallowed)
  badHandler : Bool := false     -- handler not consulted exactly once per granted retry
  badSleep : Bool := false       -- not: before_sleep (if any), then exactly one sleeper call, same delay
  badStop : Bool := false        -- a sleep, another retry or another attempt after DEFER / ABORT / bad answer
  badLevel : Bool := false       -- a policy-level callback used although a call-level one was given
  badSkip : Bool := false        -- next attempt (or next retry) although the granted retry never slept

/-- requests whose `Exception`s the library swallows -/
def swallows : Req → Bool
  | .metric .. | .log .. | .beforeSleep .. => true
  | _ => false

/-- the exchange is a callback raising something that propagates -/
def raisedOf (x : Req × Ans) : Option Exn :=
  match x.2 with
  | .raise e _ => if swallows x.1 && e.isException then none else some e
  | _ => none

/-- a retry is granted -/
def grant (s : St) : St :=
  { s with pending := true, handler := none, handlerCalls := 0, before := none,
           badStop := s.badStop || s.stopped.isSome, badSkip := s.badSkip || s.pending }

def step (cfg : Cfg) (s : St) (x : Req × Ans) : St :=
  let s := { s with late := if s.stopped.isSome then
                               (match raisedOf x with
                                | some e => e :: s.late
                                | none => s.late)
                             else s.late }
  match x.1 with
  | .op _ => { s with badStop := s.badStop || s.stopped.isSome, badSkip := s.badSkip || s.pending }
  | .strategy .. => (match x.2 with
      | .delay .. => if cfg.budget.isNone then grant s else s
      | _ => s)
  | .budgetConsume => (match x.2 with
      | .granted true => grant s
      | _ => s)
  | .sleepHandler lvl _ d =>
    let s := { s with handlerCalls := s.handlerCalls + 1,
                      badStop := s.badStop || s.stopped.isSome,
                      badHandler := s.badHandler || !s.pending || decide (s.handlerCalls ≥ 1),
                      badLevel := s.badLevel || cfg.handler != some lvl }
    (match x.2 with
     | .decision .sleep _ => { s with handler := some (.sleep, d) }
     | .decision dec _ => { s with handler := some (dec, d), stopped := some dec, late := [],
                                   deferD := if dec = .defer then some d else s.deferD }
     | _ => s)
  | .beforeSleep lvl _ d =>
    { s with before := some d,
             badStop := s.badStop || s.stopped.isSome,
             badLevel := s.badLevel || cfg.beforeSleep != some lvl,
             badHandler := s.badHandler || (cfg.handler.isSome && s.handler != some (.sleep, d)),
             badSleep := s.badSleep || !s.pending || s.before.isSome }
  | .sleeper lvl d =>
    { s with pending := false,
             badStop := s.badStop || s.stopped.isSome,
             badLevel := s.badLevel || cfg.sleeper != lvl,
             badHandler := s.badHandler || (cfg.handler.isSome && s.handler != some (.sleep, d)),
             badSleep := s.badSleep || !s.pending || (cfg.beforeSleep.isSome && s.before != some d) }
  | _ => s

def run (cfg : Cfg) (t : Trace) : St := t.foldl (step cfg) {}

/-- how the run must end after the decision `dec` when nothing intervenes -/
def expected (s : St) (dec : SleepDecision) (r : Res) : Bool :=
  match dec with
  | .defer => (match r with
      | .outcome o _ => o.stop == some .scheduled && o.nextSleep == s.deferD && s.deferD.isSome
      | .raised (.libExhausted f) => f.stop == .scheduled && f.nextSleep == s.deferD && s.deferD.isSome
      | _ => false)
  | .abort => (match r with
      | .outcome o _ => o.stop == some .aborted && o.nextSleep.isNone
      | .raised e => e == .libAbort
      | _ => false)
  | _ => r == .raised .libValueError

/-- …or what may replace that ending: an error that a callback raised after the decision (including a
    cancellation) propagates; in `execute()` an `AbortRetryError` among them turns the outcome into
    ABORTED.  (`stuck` is the model's "ill-shaped answer"; it never occurs in the implementation.) -/
def replaced (s : St) (r : Res) : Bool :=
  match r with
  | .raised e => s.late.contains e || e == .stuck
  | .outcome o _ => o.stop == some .aborted && o.nextSleep.isNone && s.late.any Exn.isAbort
  | .ret _ => false

def resMatches (s : St) (dec : SleepDecision) (r : Res) : Bool :=
  s.stopped != some dec || expected s dec r || replaced s r

def handlerOk : Monitor := fun cfg e t _ => !hasLoop cfg e || !(run cfg t).badHandler
def sleepOk : Monitor := fun cfg e t _ => !hasLoop cfg e || !(run cfg t).badSleep
def deferOk : Monitor := fun cfg e t r =>
  !hasLoop cfg e || ((!(run cfg t).badStop || (run cfg t).stopped != some .defer) && resMatches (run cfg t) .defer r)
def abortOk : Monitor := fun cfg e t r =>
  !hasLoop cfg e || ((!(run cfg t).badStop || (run cfg t).stopped != some .abort) && resMatches (run cfg t) .abort r)
def otherOk : Monitor := fun cfg e t r =>
  !hasLoop cfg e || ((!(run cfg t).badStop || (run cfg t).stopped != some .other) && resMatches (run cfg t) .other r)
def levelOk : Monitor := fun cfg e t _ => !hasLoop cfg e || !(run cfg t).badLevel
/-- the run ended by an error or as ABORTED -/
def cutShort : Res → Bool
  | .raised _ => true
  | .outcome o _ => o.stop == some .aborted
  | .ret _ => false

/-- a granted retry sleeps before anything else happens — and a run in which a granted retry's sleep is
    still due (and no stop decision was taken) can only have been cut short by an error or an abort -/
def skipOk : Monitor := fun cfg e t r =>
  !hasLoop cfg e ||
    (!(run cfg t).badSkip && (!((run cfg t).pending && (run cfg t).stopped.isNone) || cutShort r))

def ok : Monitor := fun cfg e t r =>
  handlerOk cfg e t r && sleepOk cfg e t r && deferOk cfg e t r && abortOk cfg e t r && otherOk cfg e t r
  && levelOk cfg e t r && skipOk cfg e t r

end C16

/-! ### C14 — event stream -/

namespace C14

/-- an event as a sink receives it: (event, attempt, sleep, tags) -/
abbrev EvRec := Event × Nat × Nat × Tags

def isBreakerEvent : Event → Bool
  | .circuitOpened | .circuitHalfOpen | .circuitClosed | .circuitRejected => true
  | _ => false

/-- what a breaker interaction announced and a hook must be told: (event, state, class) -/
abbrev BrkExp := Event × CState × Option EClass

/-- Fold state.  `ms`/`ls` are the retry-level REQUESTS to the metric / log hook (newest first;
    whatever the hook answered).  `opExn`, `klass`, `cause` describe the failure of the attempt
    in progress as the library was told it: what the operation raised (`none`: it returned) and
    what the (result) classifier answered. -/
structure St where
  ms : List EvRec := []
  ls : List EvRec := []
  opExn : Option Exn := none
  klass : Option EClass := none
  cause : Option Cause := none
  tagsBad : Bool := false
  bm : Option BrkExp := none        -- breaker event the metric hook has not been told yet
  bl : Option BrkExp := none        -- … the log hook
  brkBad : Bool := false

/-- the `err` tag that describes the failure in progress -/
def expErr (s : St) : Option String :=
  if s.cause = some .exception then s.opExn.map Exn.typeName else none

/-- the tags of a retry-level event describe the failure in progress:
    `success` carries nothing, `aborted` only its reason, `retry` class/err/cause and no stop
    reason, every other (terminal) event class/err/cause and a stop reason; `operation` always. -/
def describes (cfg : Cfg) (s : St) (x : EvRec) : Bool :=
  x.2.2.2.operation == cfg.opTag && x.2.2.2.state == none &&
  (match x.1 with
   | .success => x.2.2.2.klass == none && x.2.2.2.err == none && x.2.2.2.stop == none
                 && x.2.2.2.cause == none
   | .aborted => x.2.2.2.klass == none && x.2.2.2.err == none && x.2.2.2.cause == none
                 && x.2.2.2.stop == some .aborted
   | .retry => x.2.2.2.stop == none && x.2.2.2.klass == s.klass && x.2.2.2.cause == s.cause
               && x.2.2.2.err == expErr s
   | _ => x.2.2.2.stop.isSome && x.2.2.2.klass == s.klass && x.2.2.2.cause == s.cause
          && x.2.2.2.err == expErr s)

/-- a breaker event as a hook must receive it: attempt 0, sleep 0, the announced event with the
    breaker's state (and the failure class for `record_failure`), `operation`, nothing else -/
def brkTagsOk (cfg : Cfg) (exp : Option BrkExp) (ev : Event) (a sl : Nat) (tags : Tags) : Bool :=
  a == 0 && sl == 0 && tags.operation == cfg.opTag && tags.err == none && tags.stop == none
  && tags.cause == none
  && (match tags.state with
      | some st => exp == some (ev, st, tags.klass)
      | none => false)

/-- the breaker announced a transition / rejection: both configured hooks must now be told -/
def expect (cfg : Cfg) (s : St) (x : BrkExp) : St :=
  { s with brkBad := s.brkBad || s.bm.isSome || s.bl.isSome,
           bm := if cfg.metric then some x else none,
           bl := if cfg.log then some x else none }

def onMetric (cfg : Cfg) (s : St) (ev : Event) (a sl : Nat) (tags : Tags) : St :=
  if isBreakerEvent ev then { s with brkBad := s.brkBad || !brkTagsOk cfg s.bm ev a sl tags, bm := none }
  else { s with ms := (ev, a, sl, tags) :: s.ms,
                tagsBad := s.tagsBad || !describes cfg s (ev, a, sl, tags) }

def onLog (cfg : Cfg) (s : St) (ev : Event) (a sl : Nat) (tags : Tags) : St :=
  if isBreakerEvent ev then { s with brkBad := s.brkBad || !brkTagsOk cfg s.bl ev a sl tags, bl := none }
  else { s with ls := (ev, a, sl, tags) :: s.ls,
                tagsBad := s.tagsBad || !describes cfg s (ev, a, sl, tags) }

def step (cfg : Cfg) (s : St) (x : Req × Ans) : St :=
  match x.1 with
  | .op _ => (match x.2 with
    | .raise e _ => { s with opExn := some e }
    | _ => { s with opExn := none })
  | .classify _ => (match x.2 with
    | .klass c _ => { s with klass := some c.klass, cause := some .exception }
    | _ => s)
  | .resultClassify _ => (match x.2 with
    | .klass c _ => { s with klass := some c.klass, cause := some .result }
    | _ => s)
  | .metric ev a sl tags => onMetric cfg s ev a sl tags
  | .log ev a sl tags _ => onLog cfg s ev a sl tags
  | .breakerAllow => (match x.2 with
    | .admit _ st (some ev) => expect cfg s (ev, st, none)
    | _ => s)
  | .breakerSuccess => (match x.2 with
    | .recorded (some ev) st => expect cfg s (ev, st, none)
    | _ => s)
  | .breakerFailure k => (match x.2 with
    | .recorded (some ev) st => expect cfg s (ev, st, some k)
    | _ => s)
  | _ => s

def run (cfg : Cfg) (t : Trace) : St := t.foldl (step cfg) {}

/-- `retry(1,·) … retry(n,·)` then exactly one terminal event (oldest first) -/
def shapeOk : List EvRec → Nat → Bool
  | [], _ => false
  | [x], _ => x.1 != .retry
  | x :: rest, i => x.1 == .retry && x.2.1 == i && shapeOk rest (i + 1)

def isAnyReq : Req → Bool := fun _ => true
def isNonOp : Req → Bool := fun r => !Mon.isOp r

/-- Does the run end "normally" (value, failure, deferral, abort — or the breaker's rejection)?
    `call()` delivers a failure by raising: AbortRetryError / RetryExhaustedError made by the
    library (not merely passed through from a callback), or the operation's own last exception
    (an exception object the operation raised and no other callback did).  `execute()` delivers
    every normal end as an outcome.  Everything else — cancellation kinds, a nested
    RetryExhaustedError, errors raised by strategies / sleepers / classifiers / hooks — is not
    a normal end. -/
def endsNormally (e : Entry) (t : Trace) (r : Res) : Bool :=
  match r with
  | .ret _ => true
  | .outcome .. => true
  | .raised x =>
    !e.isExecute && !Mon.raisedBy isNonOp t x &&
    (match x with
     | .libAbort => true
     | .libExhausted _ => !Mon.raisedBy Mon.isOp t x
     | .libCircuitOpen _ => Mon.rejected t
     | .ordinary .. | .abort _ | .circuitOpen _ => Mon.raisedBy Mon.isOp t x
     | _ => false)

/-- the tags a timeline entry keeps -/
def projTags (t : Tags) : Tags := { klass := t.klass, stop := t.stop, cause := t.cause }

def proj (x : EvRec) : EvRec := (x.1, x.2.1, x.2.2.1, projTags x.2.2.2)

def tlRec (x : TimelineEv) : EvRec :=
  (x.event, x.attempt, x.sleep, { klass := x.klass, stop := x.stop, cause := x.cause })

/-- The terminal event agrees with what the caller got.  `full = false` for a timeline entry
    (which keeps neither `err` nor `operation`). -/
def terminalOk (full : Bool) (last : EvRec) (r : Res) : Bool :=
  let ev := last.1
  let tags := last.2.2.2
  match r with
  | .ret _ => ev == .success
  | .outcome o _ =>
    if o.ok then ev == .success
    else ev != .success && tags.stop == o.stop
      && (o.stop == some .aborted
          || (tags.klass == o.lastClass && tags.cause == o.cause
              && (!full || tags.err.isSome == o.lastExc.isSome)))
  | .raised (.libExhausted f) =>
    tags.stop == some f.stop && tags.klass == f.lastClass
    && (!full || tags.err.isSome == f.lastExc.isSome)
  | .raised .libAbort => tags.stop == some .aborted
  | .raised (.abort _) => tags.stop == some .aborted
  | .raised x =>
    -- the operation's exception re-raised: the stop reason is only visible in the event; the
    -- event names that exception (`describes` then forces cause = exception and its class)
    ev != .success && tags.stop.isSome && (!full || tags.err == some x.typeName)

def lastOk (full : Bool) (newestFirst : List EvRec) (r : Res) : Bool :=
  match newestFirst with
  | x :: _ => terminalOk full x r
  | [] => false

/-- the captured timeline (oldest first), when this entry point captures one -/
def timelineOf (cfg : Cfg) (e : Entry) (r : Res) : Option (List EvRec) :=
  match r with
  | .outcome _ tl => if e.isExecute && cfg.timeline then some (tl.map tlRec) else none
  | _ => none

/-- conjunct 1: each sink receives `retry(1) … retry(n)` then exactly one terminal event -/
def streamShape (cfg : Cfg) (e : Entry) (s : St) (r : Res) : Bool :=
  (!cfg.metric || shapeOk s.ms.reverse 1)
  && (!cfg.log || shapeOk s.ls.reverse 1)
  && (match timelineOf cfg e r with
      | some tl => shapeOk tl 1
      | none => true)

/-- conjunct 2: every event's tags describe the failure in progress, and the terminal event
    agrees with the delivered result -/
def terminalTags (cfg : Cfg) (e : Entry) (s : St) (r : Res) : Bool :=
  !s.tagsBad
  && (!cfg.metric || lastOk true s.ms r)
  && (!cfg.log || lastOk true s.ls r)
  && (match timelineOf cfg e r with
      | some tl => lastOk false tl.reverse r
      | none => true)

/-- conjunct 3: the log hook gets what the metric hook gets; the timeline is its projection -/
def sinksAgree (cfg : Cfg) (e : Entry) (s : St) (r : Res) : Bool :=
  (!(cfg.metric && cfg.log) || s.ms == s.ls)
  && (match timelineOf cfg e r with
      | some tl =>
        if cfg.metric then tl == s.ms.reverse.map proj
        else if cfg.log then tl == s.ls.reverse.map proj
        else true
      | none => true)

/-- conjunct 4: every transition / rejection the breaker announced was reported to each configured
    hook, as attempt 0 with the breaker's state; no other breaker event was reported -/
def breakerEventsShape (s : St) : Bool := !s.brkBad && s.bm.isNone && s.bl.isNone

/-- a rejected call produces no retry-level event at all -/
def noRetryEvents (cfg : Cfg) (e : Entry) (s : St) (r : Res) : Bool :=
  s.ms.isEmpty && s.ls.isEmpty
  && (match timelineOf cfg e r with
      | some tl => tl.isEmpty
      | none => true)

def verdict (cfg : Cfg) (e : Entry) (t : Trace) (s : St) (r : Res) : Bool :=
  if Mon.rejected t then noRetryEvents cfg e s r && breakerEventsShape s
  else streamShape cfg e s r && terminalTags cfg e s r && sinksAgree cfg e s r
       && breakerEventsShape s

/-- The runs C14 speaks about.  Three guards, nothing else:
    `hasLoop` — "a policy with a retry component"; `endsNormally` — "ends normally (value, failure,
    deferral or abort)", see there; `!attemptHookFault` — an attempt hook or `abort_if` itself raised
    (DESIGN §6.2: e.g. `on_attempt_end` raising AbortRetryError after `success` makes `execute()` emit
    `aborted` as well).  A call the breaker rejected is NOT skipped: it must produce no retry-level event. -/
def guard (cfg : Cfg) (e : Entry) (t : Trace) (r : Res) : Bool :=
  hasLoop cfg e && endsNormally e t r && !Mon.attemptHookFault t

def ok : Monitor := fun cfg e t r =>
  if guard cfg e t r then verdict cfg e t (run cfg t) r else true

end C14

/-! ### C04 — call() surfaces the last attempt; C11 — execute() is faithful -/

namespace C04

/-- Fold state shared by C04 and C11.  Everything is "of the last attempt" unless it says otherwise. -/
structure St where
  ops : Nat := 0                               -- invocations of the operation so far
  opExc : Option Exn := none                   -- the exception the last invocation raised
  opVal : Option Nat := none                   -- the object the last invocation returned
  cls : Option Classification := none          -- FIRST classification announced after the last op
  pending : Bool := false                      -- a result failure was announced; the abort poll
                                               -- that precedes its recording has not been seen yet
  succeeded : Bool := false                    -- last op's value was accepted as success
  earlierSuccess : Bool := false
  delay : Option Nat := none                   -- delay offered to the sleep handler in this attempt
  deferred : Bool := false                     -- … and it answered DEFER
  badDecision : Bool := false                  -- … or something that is not a SleepDecision
  -- the last RECORDED failure (`_RetryState.record_failure` ran for it)
  recAt : Nat := 0                             -- value of `ops` then (0: none yet)
  recExc : Option Exn := none
  recVal : Option Nat := none
  recCls : Option Classification := none
  recCause : Option Cause := none
  -- C11
  abortedSuccess : Bool := false               -- strategy.record_success() raised AbortRetryError
  fault : Bool := false                        -- a strategy / classifier / sleeper / sleep-handler
                                               -- callback raised something other than an abort
  opAfterFault : Bool := false                 -- … and the operation was invoked again afterwards
  hookFault : Bool := false                    -- = `Mon.attemptHookFault`

/-- the failure announced for the last op is recorded -/
def record (s : St) (c : Classification) (cause : Cause) : St :=
  { s with cls := some c, pending := false, recAt := s.ops, recCls := some c, recCause := some cause,
           recExc := if cause = .exception then s.opExc else none,
           recVal := if cause = .exception then none else s.opVal }

/-- a callback of the caller (strategy, classifier, sleeper, sleep handler) raised `e` -/
def faultBy (s : St) (e : Exn) : St := { s with fault := s.fault || !e.isAbort }

def step (cfg : Cfg) (s : St) (x : Req × Ans) : St :=
  match x.1, x.2 with
  | .op _, a =>
    { s with ops := s.ops + 1,
             opExc := (match a with | .raise e _ => some e | _ => none),
             opVal := (match a with | .value v _ => some v | _ => none),
             cls := none, pending := false,
             earlierSuccess := s.earlierSuccess || s.succeeded,
             succeeded := (match a with | .value .. => !cfg.resultClassifier | _ => false),
             delay := none, deferred := false, badDecision := false,
             opAfterFault := s.opAfterFault || s.fault }
  | .resultClassify _, .noFailure _ => { s with succeeded := true }
  | .resultClassify _, .klass c _ =>
    -- `check_abort` is polled between the announcement and `record_failure`
    if cfg.abortIf then { s with cls := some c, pending := true } else record s c .result
  | .resultClassify _, .raise e _ => faultBy s e
  | .abortIf, .bool false _ =>
    if s.pending then (match s.cls with
      | some c => record s c .result
      | none => s) else s
  | .abortIf, .raise _ _ => { s with hookFault := true }
  | .classify _, .klass c _ =>
    -- Policy.call classifies the final exception once more for the breaker: only the first
    -- classification after an op that raised is the failure's class
    if s.cls.isSome || s.opExc.isNone then s else record s c .exception
  | .classify _, .raise e _ => faultBy s e
  | .sleepHandler _ _ d, .decision dec _ =>
    { s with delay := some d, deferred := dec == .defer, badDecision := dec == .other }
  | .sleepHandler .., .raise e _ => faultBy s e
  | .strategy .., .raise e _ => faultBy s e
  | .stratRecordFailure .., .raise e _ => faultBy s e
  | .stratRecordSuccess _, .raise e _ => { faultBy s e with abortedSuccess := s.abortedSuccess || e.isAbort }
  | .sleeper .., .raise e _ => faultBy s e
  | .attemptStart _, .raise _ _ => { s with hookFault := true }
  | .attemptEnd _, .raise _ _ => { s with hookFault := true }
  | _, _ => s

def run (cfg : Cfg) (t : Trace) : St := t.foldl (step cfg) {}

/-- the exception is the one the LAST invocation of the operation raised -/
def opRaised (s : St) (e : Exn) : Bool := s.opExc == some e

/-- some callback other than the operation raised `e` -/
def raisedByCallback (t : Trace) (e : Exn) : Bool := Mon.raisedBy (fun r => !Mon.isOp r) t e

/-- a `RetryExhaustedError` made by the library describes the final attempt -/
def fieldsOk (s : St) (f : ExhaustedFields) : Bool :=
  f.attempts == s.ops
  && s.recAt == s.ops                                   -- the recorded failure is the final attempt's
  && f.lastClass == s.recCls.map (·.klass)
  && (match s.recCause with
      | some .result => f.lastResult == s.recVal && s.recVal.isSome && f.lastExc.isNone
      | some .exception =>
        -- an exception-caused stop re-raises the exception itself unless the retry was deferred
        f.lastResult.isNone && f.lastExc == s.recExc.map Exn.ref && s.recExc.isSome && s.deferred
      | none => false)
  && ((f.stop == .scheduled) == s.deferred)
  && (f.nextSleep == (if s.deferred then s.delay else none))

/--
Guards: `hasLoop` (the entry has a retry loop: `Retry.call`, or `Policy.call` with a retry
component), `!isExecute` (C11's), `!rejected` (the breaker refused the call: C07's).
-/
def ok : Monitor := fun cfg e t r =>
  if hasLoop cfg e && !e.isExecute && !Mon.rejected t then
    let s := run cfg t
    match r with
    | .ret v => s.succeeded && !s.earlierSuccess && s.opVal == some v
    | .outcome .. => false
    | .raised ex =>
      -- the last attempt's own exception (and then no deferral was decided) …
      (opRaised s ex && !s.deferred)
      -- … or an error of one of the caller's callbacks, which is not call()'s to report …
      || raisedByCallback t ex
      -- … or an exception the library makes
      || (match ex with
          | .libExhausted f => fieldsOk s f
          | .libRuntimeError => cfg.maxAttempts == 0 && s.ops == 0
          | .libValueError => s.badDecision              -- C16's
          | .libAbort => true                            -- C13's
          | .stuck => true                               -- model only: the oracle ran dry
          | _ => false)
  else true

end C04

namespace C11

/-- what may come out of execute() as an exception: something the last invocation of the
    operation raised that is not an `Exception` (cancellation kinds) or is a RetryExhaustedError
    (nested policy); an error raised by one of the caller's callbacks; the ValueError for a sleep
    handler that did not return a SleepDecision -/
def mayPropagate (s : C04.St) (t : Trace) (e : Exn) : Bool :=
  (C04.opRaised s e && (!e.isException || e.isExhausted))
  || C04.raisedByCallback t e
  || (e == .libValueError && s.badDecision)
  || e == .stuck                                         -- model only

def failureOk (cfg : Cfg) (s : C04.St) (o : Outcome) : Bool :=
  o.value.isNone && o.stop.isSome
  && ((o.stop == some .scheduled) == s.deferred)
  && (o.nextSleep == (if s.deferred then s.delay else none))
  && (!s.abortedSuccess || o.stop == some .aborted)
  -- the failure described is the last RECORDED one (none if there is none) …
  && o.cause == s.recCause
  && o.lastClass == s.recCls.map (·.klass)
  && o.lastExc == s.recExc.map Exn.ref
  && o.lastResult == s.recVal
  && (match s.recCause with                              -- exactly one of last_exception / last_result
      | some .exception => s.recExc.isSome && s.recVal.isNone
      | some .result => s.recVal.isSome && s.recExc.isNone
      | none => s.recExc.isNone && s.recVal.isNone && s.recCls.isNone)
  -- … which is the final attempt's unless the run was aborted (the abort poll comes before
  -- `record_failure`), and there is one unless no attempt was made
  && (o.stop == some .aborted || s.recAt == s.ops)
  && (o.stop == some .aborted || s.ops != 0 || (cfg.maxAttempts == 0 && o.stop == some .maxAttemptsGlobal))

def successOk (s : C04.St) (o : Outcome) : Bool :=
  o.value == s.opVal && s.opVal.isSome
  && o.stop.isNone && o.lastClass.isNone && o.lastExc.isNone && o.lastResult.isNone
  && o.cause.isNone && o.nextSleep.isNone

/--
Guards: `hasLoop`, `isExecute` (C04's otherwise), `!rejected` (C07's), `!attemptHookFault` (an
attempt hook or `abort_if` itself raised: DESIGN §6.2).
-/
def ok : Monitor := fun cfg e t r =>
  if hasLoop cfg e && e.isExecute && !Mon.rejected t && !Mon.attemptHookFault t then
    let s := C04.run cfg t
    -- an error of the caller's strategy / classifier / sleeper / sleep handler is neither
    -- swallowed nor retried: it ends execute() with an exception and no further invocation
    (!s.fault || ((r matches .raised _) && !s.opAfterFault))
    && (match r with
        | .ret _ => false
        | .raised ex => mayPropagate s t ex
        | .outcome o _ =>
          o.attempts == s.ops
          && (o.ok == (s.succeeded && !s.earlierSuccess && !s.abortedSuccess))
          && (if o.ok then successOk s o else failureOk cfg s o))
  else true

end C11

/-! ### C07 / C08 / C09 — breaker interactions at policy level -/

namespace C09

/-- What the three breaker monitors remember of one call's log. -/
structure St where
  admitted : Option Bool := none      -- the answer of breaker.allow()
  admitState : Option CState := none  -- … and the state it reported
  records : List Req := []            -- record_* calls after admission
  preRecords : Nat := 0               -- record_* calls before/without admission
  early : Nat := 0                    -- any other request made before the breaker was asked
  opsAfterReject : Nat := 0
  otherAfterReject : Nat := 0
  -- the LAST exchange with the classifier: (exception ref, class) if it answered with a class …
  lastClass : Option (String × EClass) := none
  -- … or what it raised, if it raised
  clsRaised : Option Exn := none

/-- admission, records, and what was requested before admission / after a rejection -/
def count (s : St) (x : Req × Ans) : St :=
  match x.1, x.2 with
  | .breakerAllow, .admit a st _ => { s with admitted := some a, admitState := some st }
  | r, _ =>
    if Mon.isRecord r then
      (if s.admitted == some true then { s with records := s.records ++ [r] }
       else { s with preRecords := s.preRecords + 1 })
    else match s.admitted with
      | none => { s with early := s.early + 1 }
      | some true => s
      | some false =>
        (match r with
         | .metric .. | .log .. => s       -- the rejection event itself
         | .op _ => { s with opsAfterReject := s.opsAfterReject + 1 }
         | _ => { s with otherAfterReject := s.otherAfterReject + 1 })

/-- the last exchange with the classifier -/
def noteClassifier (s : St) (x : Req × Ans) : St :=
  match x.1, x.2 with
  | .classify ref, .klass c _ => { s with lastClass := some (ref, c.klass), clsRaised := none }
  | .classify _, .raise e _ => { s with lastClass := none, clsRaised := some e }
  | .classify _, _ => { s with lastClass := none, clsRaised := none }
  | _, _ => s

def step (s : St) (x : Req × Ans) : St := noteClassifier (count s x) x

def run (t : Trace) : St := t.foldl step {}

/-- The record the final outcome dictates (`none` = the property does not determine the kind).

* returned a value / ok outcome ⇒ success;
* ABORTED outcome, AbortRetryError, cancellation kinds, a nested CircuitOpenError ⇒ cancel;
* otherwise failure with the class of the final failure: `outcome.last_class` (execute);
  `RetryExhaustedError.last_class`; the class the classifier gave the raised exception when the
  policy asked it for the breaker (the last classifier exchange), or `default_classifier`'s without a
  retry component; UNKNOWN when absent.
* If the exception the call ends with was raised BY THE CLASSIFIER in its last exchange, the final
  failure has no class (the policy's own request to classify it for the breaker failed, or the
  classifier raised a RetryExhaustedError inside the loop): the kind is not determined. -/
def expected (cfg : Cfg) (s : St) (r : Res) : Option Req :=
  match r with
  | .ret _ => some .breakerSuccess
  | .outcome o _ =>
    if o.ok then some .breakerSuccess
    else if o.stop == some .aborted then some .breakerCancel
    else some (.breakerFailure (o.lastClass.getD .unknown))
  | .raised e =>
    if e.isCancelKind || e.isAbort || e.isCircuitOpen || e == .stuck then some .breakerCancel
    else if cfg.hasRetry && s.clsRaised == some e then none
    else if e.isExhausted then some (.breakerFailure (e.exhaustedClass.getD .unknown))
    else if cfg.hasRetry then
      s.lastClass.bind fun p => if p.1 == e.ref then some (.breakerFailure p.2) else none
    else some (.breakerFailure (Policy.defaultClass e))

end C09

namespace C07

/-- A call the breaker rejects invokes nothing — no request before the breaker is asked, and after
    the rejection no operation, attempt hook, abort poll, classifier, strategy, sleeper (only the
    rejection event on the metric/log hooks) — records nothing with the breaker, and yields
    CircuitOpenError carrying the breaker's state (call) or a not-ok outcome with zero attempts
    (execute).  (If the metric/log hook answers the rejection event by raising a BaseException-only
    kind, that propagates instead.) -/
def ok : Monitor := fun cfg e t r =>
  if e.isPolicy && cfg.breaker.isSome then
    let s := C09.run t
    match s.admitted with
    | some false =>
      s.early == 0 && s.opsAfterReject == 0 && s.otherAfterReject == 0
      && s.records.isEmpty && s.preRecords == 0
      && (match r with
          | .raised (.libCircuitOpen st) => !e.isExecute && s.admitState == some st
          | .outcome o _ => e.isExecute && !o.ok && o.attempts == 0 && o.lastExc == some "libCircuitOpen"
          | .raised x => !x.isException && Mon.raisedBy (fun _ => true) t x   -- a hook raised a BaseException
          | _ => false)
    | _ => true
  else true

end C07

namespace C08

/-- an admitted call has told the breaker that it is over: ≥ 1 record_* follows the admission -/
def ok : Monitor := fun cfg e t _ =>
  if e.isPolicy && cfg.breaker.isSome then
    let s := C09.run t
    match s.admitted with
    | some true => !s.records.isEmpty
    | _ => true
  else true

end C08

namespace C09

/-- exactly one record after the admission (none before it, none without it), of the kind the
    final outcome dictates -/
def ok : Monitor := fun cfg e t r =>
  if e.isPolicy && cfg.breaker.isSome && !Mon.hookBaseFault t && !Mon.attemptHookFault t then
    let s := run t
    s.preRecords == 0
    && (match s.admitted with
        | some true =>
          (match s.records with
           | [rec] => (match expected cfg s r with
               | some want => rec == want
               | none => true)
           | _ => false)
        | _ => s.records.isEmpty)
  else true

end C09

/-! ### C10 (policy level) — every granted retry spends exactly one budget token -/

namespace C10

structure St where
  consumed : Nat := 0          -- granted consumes since the last op
  refused : Nat := 0
  strat : Bool := false        -- since the last op: strategy called
  retryEv : Bool := false      -- since the last op: `retry` event seen (metric)
  used : Bool := false         -- since the last op: a sleeper request or a sleep handler's decision
  bad : Bool := false

def step (cfg : Cfg) (s : St) (x : Req × Ans) : St :=
  match x.1, x.2 with
  | .op _, _ => { s with consumed := 0, refused := 0, strat := false, retryEv := false, used := false }
  | .strategy .., _ => { s with strat := true }
  -- the budget is consulted once per attempt, and only after the strategy has computed a delay
  | .budgetConsume, .granted true =>
    { s with consumed := s.consumed + 1, bad := s.bad || decide (s.consumed + s.refused ≥ 1) || !s.strat }
  | .budgetConsume, .granted false =>
    { s with refused := s.refused + 1, bad := s.bad || decide (s.consumed + s.refused ≥ 1) || !s.strat }
  | .metric .retry .., _ => { s with retryEv := true, bad := s.bad || (cfg.budget.isSome && s.consumed != 1) }
  | .metric .budgetExhausted .., _ => { s with bad := s.bad || s.refused != 1 }
  | .sleeper .., _ => { s with used := true, bad := s.bad || (cfg.budget.isSome && s.consumed != 1) }
  | .sleepHandler .., .decision _ _ => { s with used := true }
  | _, _ => s

def run (cfg : Cfg) (t : Trace) : St := t.foldl (step cfg) {}

/-- a token granted in the last attempt was not wasted: the grant was reported and the backoff at
    least begun, unless the run was aborted or ended with an exception -/
def tokenUsed (cfg : Cfg) (t : Trace) (s : St) (r : Res) : Bool :=
  s.consumed == 0 ||
    ((!cfg.metric || s.retryEv) &&
     (s.used || (match C03.stopOf t r with
        | none => true
        | some .aborted => true
        | some _ => false)))

def ok : Monitor := fun cfg e t r =>
  if hasLoop cfg e && !Mon.attemptHookFault t then
    let s := run cfg t
    !s.bad && tokenUsed cfg t s r
  else true

end C10

end Mon

namespace Monitors

open Mon

/-- registry used by the driver: (property id, monitor name, monitor) -/
def all : List (String × String × Monitor) :=
  [ ("C01", "caps", C01.ok), ("C02", "deadline", C02.ok), ("C03", "permitted", C03.ok),
    ("C04", "call_result", C04.ok), ("C05", "delay_flow", C05.ok), ("C07", "rejected", C07.ok),
    ("C08", "settled", C08.ok), ("C09", "one_record", C09.ok), ("C10", "token_per_retry", C10.ok),
    ("C11", "outcome", C11.ok), ("C13", "abort_cancel", C13.ok), ("C14", "events", C14.ok),
    ("C16", "handler", C16.ok) ]

end Monitors
end Redress
