/-
  Redress.MonitorsNR — C04 and C11 for a `Policy` WITHOUT a retry component (one attempt, no loop).

  `Mon.C04` / `Mon.C11` are guarded by `hasLoop cfg e`: they say nothing about `Policy.call` /
  `Policy.execute` when `retry is None`.  The two monitors below close that gap.  Same shape as
  `Monitors.lean`: a left fold over the exchange log (oldest first) and a verdict on the result; one
  `def …Ok : Monitor` per conjunct and `ok` their conjunction.  `Props/C04NR.lean`, `Props/C11NR.lean`
  prove them true of every run of the model.

  Also here (no Mathlib, iterated by the driver through `MonitorsNR.all`): `Mon.C11H`, the one clause of C11
  — `attempts` = number of invocations — for the runs `Mon.C11` does not judge because an attempt hook or
  the abort predicate RAISED (e.g. a start hook that aborts the run with `AbortRetryError`).
  `Props/C11H.lean` proves it true of every run of the model.
-/
import Redress.Monitors

namespace Redress
namespace Mon

/-! ### C04NR — `Policy.call` without a retry component surfaces the single attempt -/

namespace C04NR

/-- Fold state shared by C04NR and C11NR: what the log says about the (single) invocation. -/
structure St where
  ops : Nat := 0                    -- invocations of the operation so far
  opVal : Option Nat := none        -- the object the last invocation returned
  opExc : Option Exn := none        -- the exception the last invocation raised
  preAbort : Bool := false          -- the abort predicate answered True before any invocation
deriving DecidableEq, Repr, Inhabited

def step (s : St) (x : Req × Ans) : St :=
  match x.1, x.2 with
  | .op _, a =>
    { s with ops := s.ops + 1,
             opVal := (match a with | .value v _ => some v | _ => none),
             opExc := (match a with | .raise e _ => some e | _ => none) }
  | .abortIf, .bool true _ => { s with preAbort := s.preAbort || s.ops == 0 }
  | _, _ => s

def run (t : Trace) : St := t.foldl step {}

/--
Guards (the monitor is `true` without looking otherwise):
* `e.isPolicy && !cfg.hasRetry` — a `Policy` whose `retry` is `None` (with a retry component: `Mon.C04`);
* `!e.isExecute` — `call()` (C11NR's otherwise);
* `!Mon.rejected t` — the breaker refused the call (`CircuitOpenError`: C07's).

No guard for raising attempt hooks / `abort_if`: in `call()` their errors simply propagate (or are
replaced by a later hook's error), which `raiseOk` allows as "raised by another callback in the log".
-/
def applies (cfg : Cfg) (e : Entry) (t : Trace) : Bool :=
  e.isPolicy && !cfg.hasRetry && !e.isExecute && !Mon.rejected t

/-- the exception is the very one the (single) invocation of the operation raised -/
def ownException (s : St) (x : Exn) : Bool := s.ops == 1 && s.opExc == some x

/-- some callback other than the operation raised `x` (attempt hook, abort predicate, metric / log hook
    of a breaker event) -/
def raisedByCallback (t : Trace) (x : Exn) : Bool := Mon.raisedBy (fun r => !Mon.isOp r) t x

/-- the library's own `AbortRetryError()`: the abort predicate answered True before the operation was
    invoked, and then it never was -/
def preflightAbort (s : St) (x : Exn) : Bool := x == .libAbort && s.preAbort && s.ops == 0

/-- the operation is invoked at most once -/
def onceOk : Monitor := fun cfg e t _ =>
  if applies cfg e t then decide ((run t).ops ≤ 1) else true

/-- `call()` returns the very object the (one) invocation returned; it never returns an outcome -/
def returnOk : Monitor := fun cfg e t r =>
  if applies cfg e t then
    (match r with
     | .ret v => (run t).ops == 1 && (run t).opVal == some v
     | .outcome .. => false
     | .raised _ => true)
  else true

/-- what `call()` raises is the operation's own exception object, or an error of another of the caller's
    callbacks, or the library's `AbortRetryError` for a pre-flight abort (`stuck`: model only) — never a
    substitute or a wrapper -/
def raiseOk : Monitor := fun cfg e t r =>
  if applies cfg e t then
    (match r with
     | .raised x =>
       ownException (run t) x || raisedByCallback t x || preflightAbort (run t) x
       || x == .stuck                                       -- model only: the oracle ran dry
     | _ => true)
  else true

def ok : Monitor := fun cfg e t r => onceOk cfg e t r && returnOk cfg e t r && raiseOk cfg e t r

end C04NR

/-! ### C11NR — `Policy.execute` without a retry component returns a faithful outcome -/

namespace C11NR

open C04NR (St run)

/--
Guards:
* `e.isPolicy && !cfg.hasRetry` — a `Policy` whose `retry` is `None` (with a retry component: `Mon.C11`);
* `e.isExecute` — `execute()` (C04NR's otherwise);
* `!Mon.rejected t` — the breaker refused the call (a not-ok outcome carrying `CircuitOpenError`: C07's);
* `!Mon.attemptHookFault t` — an attempt hook or `abort_if` itself RAISED: DESIGN §6.2 (`execute()` treats
  an error of `on_attempt_start` as the failure of an attempt in which the operation was never invoked,
  and an error of `on_attempt_end` / `abort_if` propagates), as in `Mon.C11`.
-/
def applies (cfg : Cfg) (e : Entry) (t : Trace) : Bool :=
  e.isPolicy && !cfg.hasRetry && e.isExecute && !Mon.rejected t && !Mon.attemptHookFault t

/-- the metric / log hooks (here: of the breaker's events) -/
def isObsHook : Req → Bool
  | .metric .. | .log .. => true
  | _ => false

/-- an ABORTED outcome carries no failure information -/
def abortedForm (o : Outcome) : Bool :=
  o.stop == some .aborted && o.cause.isNone && o.lastClass.isNone && o.lastExc.isNone

/-- a failure outcome describes the exception `x` the operation raised -/
def exceptionForm (o : Outcome) (x : Exn) : Bool :=
  o.stop.isNone && o.cause == some .exception && o.lastExc == some x.ref
  && o.lastClass == some (Policy.defaultClass x)

/-- `attempts` is the number of times the operation was invoked -/
def attemptsV (s : St) (o : Outcome) : Bool := o.attempts == s.ops

/-- `ok` exactly when the invocation answered a value; `value` is then that very object and no stop reason
    or failure field is set -/
def okV (s : St) (o : Outcome) : Bool :=
  (o.ok == s.opVal.isSome)
  && (!o.ok || (o.value == s.opVal && o.stop.isNone && o.cause.isNone && o.lastClass.isNone
                && o.lastExc.isNone))

/-- a not-ok outcome: no value; if the operation raised `x` (then `x` is an `Exception`) it is ABORTED
    without failure fields when `x` is an abort kind and otherwise has no stop reason and describes `x`
    (`cause = "exception"`, `last_exception` is `x`, `last_class = default_classifier(x)`); if the operation
    raised nothing it was never invoked: the pre-flight abort poll answered True, and the outcome is
    ABORTED without failure fields -/
def failureV (s : St) (o : Outcome) : Bool :=
  o.ok ||
    (o.value.isNone
     && (match s.opExc with
         | some x => x.isException && (if x.isAbort then abortedForm o else exceptionForm o x)
         | none => s.ops == 0 && s.preAbort && abortedForm o))

/-- `next_sleep_s` and `last_result` are never set -/
def constV (o : Outcome) : Bool := o.nextSleep.isNone && o.lastResult.isNone

/-- what comes out of `execute()` as an exception is never an `Exception`: it is a BaseException-only kind
    (CancelledError, KeyboardInterrupt, SystemExit, GeneratorExit) that the operation itself raised, or
    that a metric / log hook raised (`stuck`: model only) -/
def propagationV (s : St) (t : Trace) (x : Exn) : Bool :=
  !x.isException
  && (s.opExc == some x || Mon.raisedBy isObsHook t x
      || x == .stuck)                                       -- model only: the oracle ran dry

/-- `execute()` never returns like `call()` -/
def neverRetOk : Monitor := fun cfg e t r =>
  if applies cfg e t then
    (match r with
     | .ret _ => false
     | _ => true)
  else true

/-- the operation is invoked at most once, and `attempts` is the number of times it was invoked -/
def attemptsOk : Monitor := fun cfg e t r =>
  if applies cfg e t then
    decide ((run t).ops ≤ 1)
    && (match r with
        | .outcome o _ => attemptsV (run t) o
        | _ => true)
  else true

/-- `ok` ⇔ the invocation answered a value (`okV`) -/
def okOk : Monitor := fun cfg e t r =>
  if applies cfg e t then
    (match r with
     | .outcome o _ => okV (run t) o
     | _ => true)
  else true

/-- a not-ok outcome describes the single attempt's failure, or the pre-flight abort (`failureV`) -/
def failureOk : Monitor := fun cfg e t r =>
  if applies cfg e t then
    (match r with
     | .outcome o _ => failureV (run t) o
     | _ => true)
  else true

/-- `next_sleep_s` and `last_result` are never set (`constV`) -/
def constOk : Monitor := fun cfg e t r =>
  if applies cfg e t then
    (match r with
     | .outcome o _ => constV o
     | _ => true)
  else true

/-- only BaseException-only kinds propagate (`propagationV`) -/
def propagationOk : Monitor := fun cfg e t r =>
  if applies cfg e t then
    (match r with
     | .raised x => propagationV (run t) t x
     | _ => true)
  else true

def ok : Monitor := fun cfg e t r =>
  neverRetOk cfg e t r && attemptsOk cfg e t r && okOk cfg e t r && failureOk cfg e t r
  && constOk cfg e t r && propagationOk cfg e t r

end C11NR

/-! ### C11H — `attempts` = number of invocations, also when an attempt hook ABORTS the run -/

namespace C11H

/-- An error that `execute()`'s `except` ladder hands to its `except Exception` arm, i.e. treats as the
    FAILURE of the current attempt: an `Exception` that is neither an `AbortRetryError` (ends the run as
    ABORTED) nor a `RetryExhaustedError` (re-raised).  `CancelledError`, `KeyboardInterrupt`, `SystemExit`,
    `GeneratorExit` are not `Exception`s (re-raised). -/
def isFault (x : Exn) : Bool := x.isException && !x.isAbort && !x.isExhausted

/-- `on_attempt_start` or `abort_if` — the two callbacks `execute()` runs in an attempt BEFORE it
    invokes the operation — answered by raising such an error -/
def isPreOpFault (x : Req × Ans) : Bool :=
  (match x.1 with
   | .attemptStart _ | .abortIf => true
   | _ => false)
  && (match x.2 with
      | .raise e _ => isFault e
      | _ => false)

/-- Some such error is FOLLOWED, later in the log, by an invocation of the operation.  (`execute()` counts
    the attempt whose start hook / abort poll failed as a failed attempt in which the operation was never
    invoked — DESIGN §6.2 — so once the loop goes on and invokes the operation again, `attempts`, which is
    the attempt NUMBER of the last invocation, is ahead of the number of invocations by design.  As long as
    no invocation follows, the two still agree and the monitor judges the run.) -/
def preOpFault : Trace → Bool
  | [] => false
  | x :: rest => (isPreOpFault x && rest.any (fun y => isOp y.1)) || preOpFault rest

/--
`execute()`'s outcome reports `attempts` = the number of times the operation was invoked.

Guards (the monitor is `true` without looking otherwise):
* `e.isExecute` — `execute()` (`call()` has no outcome);
* `hasLoop cfg e` — there is a retry loop (a `Policy` without a retry component: `Mon.C11NR`);
* `!preOpFault t` — no invocation follows a start hook / abort predicate that raised a plain `Exception`.

NOT guarded (unlike `Mon.C11`): an attempt hook or `abort_if` raising `AbortRetryError`, a cancellation
kind or `RetryExhaustedError`; an end hook raising anything; a start hook / `abort_if` raising a plain
`Exception` after which the operation is not invoked again; a call rejected by the breaker (`attempts = 0`,
no invocation).
-/
def ok : Monitor := fun cfg e t r =>
  if e.isExecute && hasLoop cfg e && !preOpFault t then
    (match r with
     | .outcome o _ => o.attempts == opCount t
     | _ => true)
  else true

end C11H

/-! ### C04S — `RetryExhaustedError.stop_reason` / `last_class` are the ones the hooks were told -/

namespace C04S

/--
C04: "… it raises RetryExhaustedError whose stop_reason, attempts, last_class, … describe that final attempt".
`Mon.C04.fieldsOk` pins `stop_reason` only as far as "SCHEDULED iff deferred".  Which rule stopped the final
attempt is visible in the log whenever a metric / log hook is configured: it is the `stop_reason` tag of
the terminal event (the event is emitted by the rule that stops the run).  This monitor says that the error
`call()` raises carries THAT stop reason and class — `Mon.C14.lastOk` on each configured sink, restricted to
results that are a library-made `RetryExhaustedError`.  Guards: `Mon.C14.guard` (normal end, no attempt hook /
abort predicate raised) and not rejected by the breaker.  `Props/C04Stop.lean` derives it from C14's
`terminal_tags`.
-/
def ok : Monitor := fun cfg e t r =>
  match r with
  | .raised (.libExhausted _) =>
    if C14.guard cfg e t r && !Mon.rejected t then
      (!cfg.metric || C14.lastOk true (C14.run cfg t).ms r)
      && (!cfg.log || C14.lastOk true (C14.run cfg t).ls r)
    else true
  | _ => true

end C04S

/-! ### C09 — exactly one record in EVERY run (no environment guard); proofs in `Props/C09Once.lean` -/

namespace C09

/-- in EVERY run (no environment guard): no record before / without admission, and an admitted call
    makes exactly one.  NOT true of every run of the model: see `Props.C09Once.once_refuted`. -/
def once : Monitor := fun cfg e t _ =>
  if e.isPolicy && cfg.breaker.isSome then
    let s := run t
    s.preRecords == 0
    && (match s.admitted with
        | some true => s.records.length == 1
        | _ => s.records.isEmpty)
  else true

/-- the exceptions that `call()`'s `except` ladder answers with an unconditional `record_cancel`:
    `except (KeyboardInterrupt, SystemExit)`, and `except asyncio.CancelledError` in `AsyncPolicy` -/
def cancelArm (cfg : Cfg) (e : Exn) : Bool := (cfg.isAsync && e == .cancelled) || e.isKiSe

/-- has a `record_success` been seen; did a metric / log hook AFTER it raise a `cancelArm` kind -/
structure DSt where
  seen : Bool := false
  bad : Bool := false

def dstep (cfg : Cfg) (s : DSt) (x : Req × Ans) : DSt :=
  match x.1, x.2 with
  | .breakerSuccess, _ => { s with seen := true }
  | .metric .., .raise e _ => { s with bad := s.bad || (s.seen && cancelArm cfg e) }
  | .log .., .raise e _ => { s with bad := s.bad || (s.seen && cancelArm cfg e) }
  | _, _ => s

/-- The one situation in which a call makes a second record: in `call()` (not `execute()`), after the
    `record_success`, the metric / log hook (reporting the breaker's `circuit_closed` event) raised
    KeyboardInterrupt / SystemExit — or CancelledError, `AsyncPolicy` — which `call()`'s own `except`
    arm for that kind answers with `record_cancel`. -/
def successEventFault (cfg : Cfg) (e : Entry) (t : Trace) : Bool :=
  !e.isExecute && (t.foldl (dstep cfg) {}).bad

/-- `once` under the narrowest guard: unless `successEventFault` -/
def onceGuarded : Monitor := fun cfg e t r =>
  if successEventFault cfg e t then true else once cfg e t r

/-- in EVERY run (no guard at all): no record before / without admission; an admitted call makes
    exactly one record — or exactly `[record_success, record_cancel]`, and that precisely when
    `successEventFault` -/
def onceExact : Monitor := fun cfg e t _ =>
  if e.isPolicy && cfg.breaker.isSome then
    let s := run t
    s.preRecords == 0
    && (match s.admitted with
        | some true =>
          if successEventFault cfg e t then s.records == [.breakerSuccess, .breakerCancel]
          else s.records.length == 1
        | _ => s.records.isEmpty)
  else true

end C09

/-! ### C16 — what may cut a due sleep short; proofs in `Props/C16Cut.lean` -/

namespace C16

/-- errors the log shows being raised by a callback whose errors PROPAGATE (i.e. not an `Exception`
    raised by a metric / log / before_sleep hook, which the library swallows) -/
def props (t : Trace) : List Exn := t.filterMap raisedOf

/-- the run ended with an error that can legitimately end it while a granted retry's sleep is due: one
    that a callback raised and that propagates, or the `AbortRetryError` the library makes when
    `abort_if` answers true, or the model's `stuck`; or it ended as ABORTED -/
def cutBy (t : Trace) : Res → Bool
  | .raised e => (props t).contains e || e == .libAbort || e == .stuck
  | .outcome o _ => o.stop == some .aborted
  | .ret _ => false

/-- a run in which a granted retry's sleep is still due at the end (and no stop decision was taken) was
    cut short by an error that propagates, by `abort_if`, or ended as ABORTED -/
def cutOk : Monitor := fun cfg e t r =>
  !hasLoop cfg e || !((run cfg t).pending && (run cfg t).stopped.isNone) || cutBy t r

end C16

/-! ### C02 — the deadline envelope under the weaker guard `quietTail`; proofs in `Props/C02Tail.lean` -/

namespace C02

/-- requests during which time may pass: attempts, sleeps, and the callbacks that run BEFORE the
    library measures the remaining time -/
def free : Req → Bool
  | .op _ | .sleeper .. | .classify _ | .resultClassify _ | .stratRecordFailure .. => true
  | _ => false

/-- time passes only in `free` requests -/
def quietTail (t : Trace) : Bool := t.all fun x => free x.1 || x.2.dur == 0

/-- `Mon.C02.ok` with the weaker guard -/
def okTail : Monitor := fun cfg e t _ =>
  if hasLoop cfg e && quietTail t then
    let s := run cfg (retryTrace t)
    !s.bad && (!honestSleeper t || decide (s.slept ≤ cfg.deadline))
  else true

end C02

/-! ### C13 — the abort poll that guards a backoff sleep is made after the retry was decided; proofs in `Props/C13Poll.lean` -/

namespace C13

/-- has `abort_if` been polled since the strategy last computed a delay? -/
structure PSt where
  fresh : Bool := false
  bad : Bool := false
deriving DecidableEq, Repr

def pstep (cfg : Cfg) (s : PSt) (x : Req × Ans) : PSt :=
  match x.1 with
  | .strategy .. => { s with fresh := false }
  | .abortIf => { s with fresh := true }
  | .sleeper .. => { s with bad := s.bad || (cfg.abortIf && !s.fresh) }
  | _ => s

/-- every backoff sleep is preceded by an abort poll made AFTER the delay of that retry was computed -/
def pollFresh : Monitor := fun cfg e t _ => !hasLoop cfg e || !(t.foldl (pstep cfg) {}).bad

/-- the same fold with the set of requests that reset `fresh` as a parameter (the `.sleeper` is judged
    first, then resets like any other request) -/
def pstepR (rst : Req → Bool) (cfg : Cfg) (s : PSt) (x : Req × Ans) : PSt :=
  match x.1 with
  | .abortIf => { s with fresh := true }
  | .sleeper l d =>
    { fresh := s.fresh && !rst (.sleeper l d), bad := s.bad || (cfg.abortIf && !s.fresh) }
  | r => if rst r then { s with fresh := false } else s

def pollFreshR (rst : Req → Bool) : Monitor :=
  fun cfg e t _ => !hasLoop cfg e || !(t.foldl (pstepR rst cfg) {}).bad

/-- `pollFresh`'s reset set -/
def stratReq : Req → Bool
  | .strategy .. => true
  | _ => false

/-- what `_handle_failure` does when it grants a retry: the strategy, the budget, the `retry` event -/
def grantReq : Req → Bool
  | .strategy .. | .budgetConsume | .metric .. | .log .. => true
  | _ => false

/-- everything but the two callbacks that lie between the abort poll and the sleep it guards -/
def tightReq : Req → Bool
  | .sleepHandler .. | .beforeSleep .. => false
  | _ => true

/-- every backoff sleep is preceded by an abort poll made after the strategy computed the delay, the
    budget was consulted and the `retry` event was reported -/
def pollFreshLate : Monitor := pollFreshR grantReq

/-- between a backoff sleep and the last abort poll before it, nothing happens but the sleep handler
    and the before-sleep hook -/
def pollFreshTight : Monitor := pollFreshR tightReq

theorem pstep_eq (cfg : Cfg) (s : PSt) (x : Req × Ans) : pstep cfg s x = pstepR stratReq cfg s x := by
  obtain ⟨r, a⟩ := x
  cases r <;> simp [pstep, pstepR, stratReq]

theorem pollFresh_eq : pollFresh = pollFreshR stratReq := by
  funext cfg e t r
  have : pstep cfg = pstepR stratReq cfg := by funext s x; exact pstep_eq cfg s x
  simp [pollFresh, pollFreshR, this]

/-- `s₂` is at least as suspicious as `s₁` -/
def PSt.le (s₁ s₂ : PSt) : Prop := (s₂.fresh = true → s₁.fresh = true) ∧ (s₁.bad = true → s₂.bad = true)

theorem pstepR_mono {rst₁ rst₂ : Req → Bool} (h : ∀ r, rst₁ r = true → rst₂ r = true) (cfg : Cfg)
    (s₁ s₂ : PSt) (x : Req × Ans) (hs : s₁.le s₂) : (pstepR rst₁ cfg s₁ x).le (pstepR rst₂ cfg s₂ x) := by
  obtain ⟨r, a⟩ := x
  obtain ⟨h1, h2⟩ := hs
  have hr := h r
  generalize e₁ : rst₁ r = b₁ at hr
  generalize e₂ : rst₂ r = b₂ at hr
  cases r <;> simp only [pstepR, PSt.le, e₁, e₂] <;> cases b₁ <;> cases b₂ <;> simp_all <;>
    (cases hf₁ : s₁.fresh <;> cases hf₂ : s₂.fresh <;> simp_all <;> grind)

theorem foldl_mono {rst₁ rst₂ : Req → Bool} (h : ∀ r, rst₁ r = true → rst₂ r = true) (cfg : Cfg) :
    ∀ (t : Trace) (s₁ s₂ : PSt), s₁.le s₂ → (t.foldl (pstepR rst₁ cfg) s₁).le (t.foldl (pstepR rst₂ cfg) s₂) := by
  intro t
  induction t with
  | nil => intro s₁ s₂ hs; exact hs
  | cons x t ih => intro s₁ s₂ hs; exact ih _ _ (pstepR_mono h cfg s₁ s₂ x hs)

/-- resetting `fresh` less often makes the monitor weaker -/
theorem pollFreshR_mono {rst₁ rst₂ : Req → Bool} (h : ∀ r, rst₁ r = true → rst₂ r = true) (cfg : Cfg)
    (e : Entry) (t : Trace) (r : Res) (h2 : pollFreshR rst₂ cfg e t r = true) : pollFreshR rst₁ cfg e t r = true := by
  have := (foldl_mono h cfg t {} {} ⟨fun a => a, fun a => a⟩).2
  simp only [pollFreshR, Bool.or_eq_true, Bool.not_eq_true'] at h2 ⊢
  rcases h2 with h2 | h2
  · exact Or.inl h2
  · right
    cases hb : (List.foldl (pstepR rst₁ cfg) {} t).bad
    · rfl
    · rw [this hb] at h2; cases h2

theorem stratReq_grant : ∀ r, stratReq r = true → grantReq r = true := by
  intro r; cases r <;> simp [stratReq, grantReq]

theorem grantReq_tight : ∀ r, grantReq r = true → tightReq r = true := by
  intro r; cases r <;> simp [grantReq, tightReq]

end C13

end Mon

namespace MonitorsNR

open Mon

/-- registry in the shape of `Monitors.all`: (property id, monitor name, monitor) -/
def all : List (String × String × Monitor) :=
  [ ("C04", "no_retry_call", C04NR.ok), ("C11", "no_retry_execute", C11NR.ok),
    ("C11", "attempts_eq_invocations", C11H.ok), ("C04", "exhausted_stop_reason", C04S.ok),
    ("C09", "once_exact", C09.onceExact), ("C16", "cut_by_propagating_error", C16.cutOk),
    ("C02", "deadline_tail_quiet", C02.okTail),
    -- C05 "… and next_sleep_s report": the conjunct of C16 that a deferred run REPORTS the delay (Props/C05Defer.lean)
    ("C05", "deferred_delay_reported", C16.deferOk),
    ("C13", "poll_after_delay_computed", C13.pollFresh) ]

end MonitorsNR
end Redress
