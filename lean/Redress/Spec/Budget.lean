/-
  Redress.Spec.Budget — history-based SPEC of `redress.budget.Budget` (property C10).

  Mathlib-free and executable: the driver (`Driver/BudgetOps.lean`) evaluates the Bool-valued
  checkers of this file on the outputs recorded from the *implementation*.

  Vocabulary
  * `Op`       one call on a shared budget, with the clock value it read:
               `consume now cost` / `remaining now`.
  * `History`  list of `Op`s in the order the lock serialises them.  `Monotone h` says the clock
               values are non-decreasing (`time.monotonic`), starting at any value ≥ 0.
  * `Out`      what the call returned; `Log = List (Op × Out)` is a recorded run.
  * `Log.grants` the times of the *granted* tokens (cost copies of `now` per granted consume) —
               computed from the recorded outputs only, so it is defined for the implementation's
               log exactly as for the model's.
  * `live window now grants`   the grants of age `< window` at `now` (`g + window > now`).
  * `specOut` / `specLog`      the spec: a consume is granted iff `|live| + cost ≤ max_retries`;
               `remaining = max_retries − |live|`.  No deque, no pruning: only the grant history.
  * `run`      the MODEL (`Model/Budget.lean`) iterated over a history.
  * checkers   `windowBoundOk`, `refusalOk`, `remainingOk`, `shapeOk`, `monotoneFrom`.

  All times are `Nat` ticks.  A real-valued interval `(t − w, t]` with `w` a whole number of
  ticks contains the same grid points as `(⌊t⌋ − w, ⌊t⌋]`, so quantifying `t` over `Nat` loses
  nothing for grants on the grid.
-/
import Redress.Model.Budget

namespace Redress.Budget

/-! ## Histories and logs -/

inductive Op
  | consume (now cost : Nat)
  | remaining (now : Nat)
deriving DecidableEq, Repr, Inhabited

def Op.now : Op → Nat
  | .consume now _ => now
  | .remaining now => now

inductive Out
  | granted (ok : Bool)
  | remaining (n : Nat)
deriving DecidableEq, Repr, Inhabited

abbrev History := List Op
abbrev Entry := Op × Out
abbrev Log := List Entry

/-- Clock values are non-decreasing along the history and start at or after `lo`. -/
def monotoneFrom (lo : Nat) : History → Bool
  | [] => true
  | op :: rest => decide (lo ≤ op.now) && monotoneFrom op.now rest

/-- Non-decreasing clock (the hypothesis `time.monotonic` provides). -/
def Monotone (h : History) : Prop := monotoneFrom 0 h = true

instance (h : History) : Decidable (Monotone h) := by unfold Monotone; infer_instance

/-- The clock value of the last operation (`lo` if there is none). -/
def lastNow (lo : Nat) : History → Nat
  | [] => lo
  | op :: rest => lastNow op.now rest

/-- `Budget.consume` raises `ValueError` for `cost < 1`; such an op is not part of a history of the
    property.  (The theorems of `Props/C10.lean` do not need this hypothesis: they hold for
    `cost = 0` as well, where the model grants nothing.) -/
def Op.valid : Op → Bool
  | .consume _ cost => decide (1 ≤ cost)
  | .remaining _ => true

/-- `Budget.__init__` validation: `max_retries < 0` or `window_s <= 0` raise `ValueError`. -/
def mkCfg? (maxRetries window : Int) : Option Cfg :=
  if maxRetries < 0 then none
  else if window ≤ 0 then none
  else some { maxRetries := maxRetries.toNat, window := window.toNat }

/-- `consume` with the argument check of the code (`cost < 1` raises). -/
def consume? (c : Cfg) (s : St) (now : Nat) (cost : Int) : Option (Bool × St) :=
  if cost < 1 then none else some (consume c s now cost.toNat)

/-- The tokens an entry granted: `cost` copies of `now` for a granted consume, nothing otherwise. -/
def entryGrants : Entry → List Nat
  | (.consume now cost, .granted true) => List.replicate cost now
  | _ => []

/-- Times of all granted tokens of a recorded run, oldest first. -/
def Log.grants (l : Log) : List Nat := l.flatMap entryGrants

def Log.ops (l : Log) : History := l.map Prod.fst

/-! ## The spec -/

/-- Grants of age `< window` at time `now`. -/
def live (window now : Nat) (grants : List Nat) : List Nat :=
  grants.filter (fun g => decide (now < g + window))

def liveCount (window now : Nat) (grants : List Nat) : Nat := (live window now grants).length

/-- What the call must return, given only the times of the tokens granted so far. -/
def specOut (c : Cfg) (grants : List Nat) : Op → Out
  | .consume now cost => .granted (decide (liveCount c.window now grants + cost ≤ c.maxRetries))
  | .remaining now => .remaining (c.maxRetries - liveCount c.window now grants)

/-- The spec run: outputs are a function of the grant history alone. -/
def specLog (c : Cfg) (grants : List Nat) : History → Log
  | [] => []
  | op :: rest =>
    let e : Entry := (op, specOut c grants op)
    e :: specLog c (grants ++ entryGrants e) rest

/-! ## The model iterated over a history -/

def step (c : Cfg) (s : St) : Op → Out × St
  | .consume now cost => let r := consume c s now cost; (.granted r.1, r.2)
  | .remaining now => let r := remaining c s now; (.remaining r.1, r.2)

def run (c : Cfg) (s : St) : History → Log × St
  | [] => ([], s)
  | op :: rest =>
    let r := step c s op
    let rr := run c r.2 rest
    ((op, r.1) :: rr.1, rr.2)

/-! ## Sliding-window counting -/

/-- `g ∈ (t − window, t]`, written without subtraction. -/
def inWindow (window t g : Nat) : Bool := decide (g ≤ t) && decide (t < g + window)

/-- `g ∈ [t, t + window)`. -/
def inWindowFwd (window t g : Nat) : Bool := decide (t ≤ g) && decide (g < t + window)

def countIn (window t : Nat) (grants : List Nat) : Nat := grants.countP (inWindow window t)

def countInFwd (window t : Nat) (grants : List Nat) : Nat := grants.countP (inWindowFwd window t)

/-- Closed interval `[t − window, t]` of length exactly `window` (for the counterexample). -/
def countInClosed (window t : Nat) (grants : List Nat) : Nat :=
  grants.countP (fun g => decide (g ≤ t) && decide (t ≤ g + window))

/-! ## Checkers (evaluated by the driver on the implementation's recorded log) -/

/-- It suffices to look at the windows ending at a grant time (`windowBoundOk_iff` in
    `Lemmas/BudgetLemmas.lean` proves that this covers EVERY `t`). -/
def windowBoundOk (max window : Nat) (grants : List Nat) : Bool :=
  grants.all (fun t => decide (countIn window t grants ≤ max))

/-- Walk a log, giving each entry the grants recorded *before* it. -/
def allSteps (p : List Nat → Entry → Bool) (grants : List Nat) : Log → Bool
  | [] => true
  | e :: rest => p grants e && allSteps p (grants ++ entryGrants e) rest

/-- Index of the first entry failing `p` (for diagnostics). -/
def firstBad (p : List Nat → Entry → Bool) (grants : List Nat) (idx : Nat) : Log → Option Nat
  | [] => none
  | e :: rest => if p grants e then firstBad p (grants ++ entryGrants e) (idx + 1) rest else some idx

/-- consume entries carry a `granted`, remaining entries a `remaining`. -/
def shapeEntryOk (_ : List Nat) : Entry → Bool
  | (.consume _ _, .granted _) => true
  | (.remaining _, .remaining _) => true
  | _ => false

/-- A consume is refused iff `|live| + cost > max` (both directions). -/
def refusalEntryOk (c : Cfg) (grants : List Nat) : Entry → Bool
  | (.consume now cost, .granted ok) =>
    ok == decide (liveCount c.window now grants + cost ≤ c.maxRetries)
  | _ => true

/-- `remaining` reports `max − |live|`. -/
def remainingEntryOk (c : Cfg) (grants : List Nat) : Entry → Bool
  | (.remaining now, .remaining n) => n == c.maxRetries - liveCount c.window now grants
  | _ => true

def shapeOk (l : Log) : Bool := allSteps shapeEntryOk [] l
def refusalOk (c : Cfg) (l : Log) : Bool := allSteps (refusalEntryOk c) [] l
def remainingOk (c : Cfg) (l : Log) : Bool := allSteps (remainingEntryOk c) [] l

/-- The deque after the last op of `l` should hold exactly the live grants (oldest first). -/
def eventsOk (c : Cfg) (l : Log) (events : List Nat) : Bool :=
  events == live c.window (lastNow 0 l.ops) l.grants

/-- All C10 monitors on one recorded log. -/
def c10Ok (c : Cfg) (l : Log) : Bool :=
  shapeOk l && refusalOk c l && remainingOk c l && windowBoundOk c.maxRetries c.window l.grants

end Redress.Budget
