/-
  Redress.Spec.Breaker — history-based specification of `redress.circuit.CircuitBreaker`
  (properties C06 and the breaker-level part of C07).  Mathlib-free and executable.

  * `Op`, `Out`            : the four operations (with the clock value they read) and what they return.
  * `mstep` / `mrun`       : the *model* (`Redress.Model.Breaker`) run over a history.
  * `Abs`, `step`, `srun`  : the *specification*: a function of the history alone.  It never looks
                             at the model's state: while CLOSED it remembers the complete, un-pruned
                             list of counted failures `(class, time)` since the last transition and
                             decides by *filtering* (`inWindow`); OPEN carries the opening instant,
                             HALF_OPEN the probe flag; the history is empty after every transition
                             by construction of the type.
  * `stateOf`, `openedAtOf`, `counted`, `countedOfClass`, `specOpens`, `specOutputs`
                           : the history-level readings used in the theorems of `Props/C06`,
                             `Props/C07Breaker`.
  * `historyOk`            : Bool-level checker that the driver evaluates on the IMPLEMENTATION's
                             recorded outputs (op, returned decision/event, observed state after
                             every op); names the violated predicate.
  * `COp`, `G`, `gstep`…   : caller-labelled histories (who was admitted, who settled) for the
                             "at most one outstanding probe" invariant of C07.
-/
import Redress.Model.Breaker

namespace Redress.Breaker

/-! ## Configurations accepted by the Python constructor -/

/-- What `CircuitBreaker.__init__` accepts (it raises `ValueError` otherwise) plus the closure
`trip_on.update(class_thresholds.keys())` that it establishes. -/
structure Cfg.WF (c : Cfg) : Prop where
  ft_pos : 1 ≤ c.failureThreshold
  window_pos : 0 < c.window
  recovery_pos : 0 < c.recovery
  class_pos : ∀ k th, c.classThreshold k = some th → 1 ≤ th
  class_trip : ∀ k th, c.classThreshold k = some th → c.tripOn k = true

/-- Executable form of `Cfg.WF` (used by the driver's `new`). -/
def Cfg.wf (c : Cfg) : Bool :=
  decide (1 ≤ c.failureThreshold) && decide (0 < c.window) && decide (0 < c.recovery) &&
  EClass.all.all fun k =>
    match c.classThreshold k with
    | some th => decide (1 ≤ th) && c.tripOn k
    | none => true

/-! ## Operations, outputs, histories -/

/-- One breaker operation together with the clock value it reads (if it reads the clock). -/
inductive Op
  | allow (now : Nat)
  | success
  | failure (k : EClass) (now : Nat)
  | cancel
deriving DecidableEq, Repr, Inhabited

/-- What an operation returns: `allow` a `_BreakerDecision`, the `record_*` an optional event
(`record_cancel` returns `None`, rendered as `event none`). -/
inductive Out
  | decision (allowed : Bool) (st : CState) (ev : Option Event)
  | event (ev : Option Event)
deriving DecidableEq, Repr, Inhabited

def Op.time : Op → Option Nat
  | .allow now => some now
  | .failure _ now => some now
  | _ => none

/-- The clock values of a history are non-decreasing, starting at or after `clk`. -/
def MonoFrom : Nat → List Op → Prop
  | _, [] => True
  | clk, op :: r =>
    match op.time with
    | some t => clk ≤ t ∧ MonoFrom t r
    | none => MonoFrom clk r

/-- Non-decreasing clock over the whole history. -/
def Mono (H : List Op) : Prop := MonoFrom 0 H

/-- executable form of `MonoFrom` -/
def monoFromB : Nat → List Op → Bool
  | _, [] => true
  | clk, op :: r =>
    match op.time with
    | some t => decide (clk ≤ t) && monoFromB t r
    | none => monoFromB clk r

/-- The last clock value read in `H` (`clk` if none). -/
def lastTime : Nat → List Op → Nat
  | clk, [] => clk
  | clk, op :: r => lastTime (op.time.getD clk) r

/-! ## The model run over a history -/

/-- One operation applied to the model state. -/
def mstep (c : Cfg) (s : St) : Op → Out × St
  | .allow now =>
    (.decision (allow c s now).1.1 (allow c s now).1.2.1 (allow c s now).1.2.2, (allow c s now).2)
  | .success => (.event (recordSuccess s).1, (recordSuccess s).2)
  | .failure k now => (.event (recordFailure c s k now).1, (recordFailure c s k now).2)
  | .cancel => (.event none, recordCancel s)

/-- The model's outputs and final state over a history. -/
def mrun (c : Cfg) : St → List Op → List Out × St
  | s, [] => ([], s)
  | s, op :: r => ((mstep c s op).1 :: (mrun c (mstep c s op).2 r).1, (mrun c (mstep c s op).2 r).2)

/-- a freshly constructed breaker -/
def St.init : St := {}

/-- the state right after opening at `t0` -/
def St.openedAtTime (t0 : Nat) : St :=
  { state := .opened, openedAt := some t0, probe := false, failures := [], classFailures := fun _ => [] }

/-! ## The specification -/

/-- Abstract state = what the history determines.  There is no failure list outside CLOSED:
"history cleared on every transition" and "nothing is counted while OPEN / HALF_OPEN" are part
of the type. -/
inductive Abs
  | closed (log : List (EClass × Nat))   -- counted failures since the last transition, oldest first
  | opened (t0 : Nat)                    -- the instant of the last opening
  | halfOpen (probe : Bool)              -- is an admitted probe still unrecorded?
deriving DecidableEq, Repr, Inhabited

def Abs.mode : Abs → CState
  | .closed _ => .closed
  | .opened _ => .opened
  | .halfOpen _ => .halfOpen

def times (log : List (EClass × Nat)) : List Nat := log.map (·.2)

def timesOf (k : EClass) (log : List (EClass × Nat)) : List Nat :=
  (log.filter (fun e => decide (e.1 = k))).map (·.2)

/-- number of entries of `l` that are *younger* than the window at `now`: `now − x < w`. -/
def inWindow (w now : Nat) (l : List Nat) : Nat := l.countP (fun x => decide (now < x + w))

/-- The opening rule of C06 over an explicit list of counted failures. -/
def opensLog (c : Cfg) (log : List (EClass × Nat)) (k : EClass) (now : Nat) : Bool :=
  c.tripOn k &&
    (decide (c.failureThreshold ≤ inWindow c.window now (times log) + 1) ||
      match c.classThreshold k with
      | some th => decide (th ≤ inWindow c.window now (timesOf k log) + 1)
      | none => false)

/-- The same rule in the order the Python evaluates it (`_note_failure`: class bucket first and
`return True`, else the global comparison).  `opensLog_eq_py` (Props/C06) proves them equal. -/
def opensLogPy (c : Cfg) (log : List (EClass × Nat)) (k : EClass) (now : Nat) : Bool :=
  c.tripOn k &&
    match c.classThreshold k with
    | some th =>
      if th ≤ inWindow c.window now (timesOf k log) + 1 then true
      else decide (c.failureThreshold ≤ inWindow c.window now (times log) + 1)
    | none => decide (c.failureThreshold ≤ inWindow c.window now (times log) + 1)

/-- One operation, as the properties describe it. -/
def step (c : Cfg) : Abs → Op → Out × Abs
  -- CLOSED: everything is admitted; only a counted failure can change anything
  | .closed log, .allow _ => (.decision true .closed none, .closed log)
  | .closed log, .success => (.event none, .closed log)
  | .closed log, .cancel => (.event none, .closed log)
  | .closed log, .failure k now =>
    if opensLog c log k now then (.event (some .circuitOpened), .opened now)
    else if c.tripOn k then (.event none, .closed (log ++ [(k, now)]))
    else (.event none, .closed log)
  -- OPEN: fail fast until the recovery timeout has elapsed, then admit one probe
  | .opened t0, .allow now =>
    if now < t0 + c.recovery then (.decision false .opened (some .circuitRejected), .opened t0)
    else (.decision true .halfOpen (some .circuitHalfOpen), .halfOpen true)
  | .opened t0, .success => (.event none, .opened t0)
  | .opened t0, .failure _ _ => (.event none, .opened t0)
  | .opened t0, .cancel => (.event none, .opened t0)
  -- HALF_OPEN: one probe at a time
  | .halfOpen true, .allow _ => (.decision false .halfOpen (some .circuitRejected), .halfOpen true)
  | .halfOpen false, .allow _ => (.decision true .halfOpen none, .halfOpen true)
  | .halfOpen _, .success => (.event (some .circuitClosed), .closed [])
  | .halfOpen _, .failure _ now => (.event (some .circuitOpened), .opened now)
  | .halfOpen _, .cancel => (.event none, .halfOpen false)

/-- Specification outputs and abstract state over a history, from abstract state `a`. -/
def srun (c : Cfg) : Abs → List Op → List Out × Abs
  | a, [] => ([], a)
  | a, op :: r => ((step c a op).1 :: (srun c (step c a op).2 r).1, (srun c (step c a op).2 r).2)

def Abs.init : Abs := .closed []

/-- what the history determines -/
def absOf (c : Cfg) (H : List Op) : Abs := (srun c .init H).2

/-- the outputs the specification prescribes for every operation of `H` -/
def specOutputs (c : Cfg) (H : List Op) : List Out := (srun c .init H).1

/-- the breaker state after `H` -/
def stateOf (c : Cfg) (H : List Op) : CState := (absOf c H).mode

/-- the time of the last opening, while OPEN -/
def openedAtOf (c : Cfg) (H : List Op) : Option Nat :=
  match absOf c H with
  | .opened t0 => some t0
  | _ => none

/-- times of failures with a class in `trip_on` recorded while CLOSED since the last transition -/
def counted (c : Cfg) (H : List Op) : List Nat :=
  match absOf c H with
  | .closed log => times log
  | _ => []

/-- the same, restricted to class `k` -/
def countedOfClass (c : Cfg) (H : List Op) (k : EClass) : List Nat :=
  match absOf c H with
  | .closed log => timesOf k log
  | _ => []

/-- **The rule of C06**: after history `H` (breaker CLOSED), does `record_failure(k)` at `now` open?
`k ∈ trip_on ∧ (|{x ∈ counted | x + window > now}| + 1 ≥ failure_threshold ∨
  (class threshold th exists ∧ |{x ∈ countedOfClass k | x + window > now}| + 1 ≥ th))`. -/
def specOpens (c : Cfg) (H : List Op) (k : EClass) (now : Nat) : Bool :=
  c.tripOn k &&
    (decide (c.failureThreshold ≤ inWindow c.window now (counted c H) + 1) ||
      match c.classThreshold k with
      | some th => decide (th ≤ inWindow c.window now (countedOfClass c H k) + 1)
      | none => false)

/-- The declarative reading of `counted` for a stretch of history with no transition: the times
of the `record_failure`s whose class is in `trip_on`. -/
def rawCounted (c : Cfg) (H : List Op) : List (EClass × Nat) :=
  H.filterMap fun
    | .failure k t => if c.tripOn k then some (k, t) else none
    | _ => none

/-! ## Checking recorded outputs of the implementation -/

/-- The implementation's internal state as observed after an operation (times in ticks). -/
structure Obs where
  state : CState
  openedAt : Option Nat
  probe : Bool
  failures : List Nat
  classFailures : List (EClass × List Nat)    -- non-empty buckets only
deriving DecidableEq, Repr, Inhabited

/-- One recorded step: the operation, what was returned, the state observed afterwards. -/
structure Rec where
  op : Op
  out : Out
  obs : Obs
deriving DecidableEq, Repr, Inhabited

def Obs.bucket (o : Obs) (k : EClass) : List Nat :=
  match o.classFailures.find? (fun e => decide (e.1 = k)) with
  | some e => e.2
  | none => []

/-- the model state as an observation -/
def St.obs (s : St) : Obs :=
  { state := s.state, openedAt := s.openedAt, probe := s.probe, failures := s.failures
    classFailures := (EClass.all.filter (fun k => !(s.classFailures k).isEmpty)).map
      (fun k => (k, s.classFailures k)) }

/-- the entries of a (sorted) list of counted times that the prune at its last element keeps -/
def kept (w : Nat) (T : List Nat) : List Nat :=
  T.filter (fun x => decide (T.getLastD 0 < x + w))

/-- The retained history is made of counted failures only (a suffix of them) and has lost
nothing that is still inside the window of the most recent counted failure. -/
def retainedOk (w : Nat) (T obs : List Nat) : Bool :=
  obs.isSuffixOf T && (kept w T).isSuffixOf obs

/-- Name of the predicate that governs operation `op` in abstract state `a`
(prefix = property id). -/
def predName : Abs → Op → String
  | .closed _, .failure _ _ => "C06.opens_iff"
  | .closed _, _ => "C06.only_failures_open"
  | .opened _, .allow _ => "C07.open_rejects_until_timeout"
  | .opened _, _ => "C07.rejections_count_nothing"
  | .halfOpen _, .allow _ => "C07.half_open_single_probe"
  | .halfOpen _, .success => "C07.probe_success_closes_empty"
  | .halfOpen _, .failure _ _ => "C07.probe_failure_reopens_fresh"
  | .halfOpen _, .cancel => "C07.probe_cancel_frees_slot"

/-- Is the observed state what the history prescribes?  `none` = fine, `some what` otherwise. -/
def obsBad (c : Cfg) (a : Abs) (o : Obs) : Option String :=
  if o.state ≠ a.mode then some s!"state expected={a.mode.name} got={o.state.name}"
  else match a with
  | .closed log =>
    if o.probe then some "probe-flag-set-while-closed"
    else if !retainedOk c.window (times log) o.failures then
      some s!"failure-history counted={times log} got={o.failures}"
    else
      match EClass.all.find? (fun k =>
        if (c.classThreshold k).isSome then !retainedOk c.window (timesOf k log) (o.bucket k)
        else !(o.bucket k).isEmpty) with
      | some k => some s!"class-history {k.name} counted={timesOf k log} got={o.bucket k}"
      | none => none
  | .opened t0 =>
    if o.openedAt ≠ some t0 then some s!"opened_at expected={t0} got={o.openedAt}"
    else if o.probe then some "probe-flag-set-while-open"
    else if !o.failures.isEmpty || !o.classFailures.isEmpty then
      some s!"failure-history-not-empty-while-open got={o.failures}"
    else none
  | .halfOpen p =>
    if o.probe ≠ p then some s!"probe expected={p} got={o.probe}"
    else if !o.failures.isEmpty || !o.classFailures.isEmpty then
      some s!"failure-history-not-empty-while-half-open got={o.failures}"
    else none

inductive Verdict
  | ok
  | bad (pred : String) (idx : Nat) (detail : String)
deriving DecidableEq, Repr, Inhabited

def Out.render : Out → String
  | .decision al st ev => s!"allowed={al} state={st.name} event={(ev.map Event.name).getD "-"}"
  | .event ev => s!"event={(ev.map Event.name).getD "-"}"

/-- Check records `recs` (numbered from `i`) against the specification started in `a`. -/
def checkFrom (c : Cfg) : Abs → Nat → List Rec → Verdict
  | _, _, [] => .ok
  | a, i, r :: rest =>
    if r.out ≠ (step c a r.op).1 then
      .bad (predName a r.op) i s!"output expected[{(step c a r.op).1.render}] got[{r.out.render}]"
    else match obsBad c (step c a r.op).2 r.obs with
      | some d => .bad (predName a r.op) i ("state-after " ++ d)
      | none => checkFrom c (step c a r.op).2 (i + 1) rest

/-- **The monitor.**  `recs` = a history together with the outputs and after-states recorded from
an implementation.  `ok` iff every output is the one the history-based specification prescribes
and every observed state is consistent with it; otherwise the first offending index and the
predicate that fails there.  (`C06.*` = opening / counting predicates, `C07.*` = open / half-open /
probe predicates.) -/
def historyOk (c : Cfg) (recs : List Rec) : Verdict := checkFrom c .init 0 recs

/-- the records of the model itself -/
def mrecs (c : Cfg) : St → List Op → List Rec
  | _, [] => []
  | s, op :: r => ⟨op, (mstep c s op).1, (mstep c s op).2.obs⟩ :: mrecs c (mstep c s op).2 r

/-! ## Caller-labelled histories (C07: at most one outstanding probe) -/

/-- how an admitted caller settles -/
inductive Settle
  | success
  | failure (k : EClass) (now : Nat)
  | cancel
deriving DecidableEq, Repr, Inhabited

def Settle.op : Settle → Op
  | .success => .success
  | .failure k now => .failure k now
  | .cancel => .cancel

/-- a caller `id` asks for admission at `now`; an admitted caller `id` records its result -/
inductive COp
  | call (id : Nat) (now : Nat)
  | settle (id : Nat) (r : Settle)
deriving DecidableEq, Repr, Inhabited

/-- breaker state plus ghost bookkeeping of admitted-and-unrecorded callers -/
structure G where
  s : St
  outClosed : List Nat := []   -- admitted while CLOSED, not yet recorded
  outProbe : List Nat := []    -- admitted as probe (decision state HALF_OPEN), not yet recorded

def G.init : G := { s := .init }

def gstep (c : Cfg) (g : G) : COp → G
  | .call id now =>
    if (allow c g.s now).1.1 then
      if (allow c g.s now).1.2.1 = .halfOpen then
        { g with s := (allow c g.s now).2, outProbe := id :: g.outProbe }
      else { g with s := (allow c g.s now).2, outClosed := id :: g.outClosed }
    else { g with s := (allow c g.s now).2 }
  | .settle id r =>
    { s := (mstep c g.s r.op).2, outClosed := g.outClosed.erase id, outProbe := g.outProbe.erase id }

def grun (c : Cfg) : G → List COp → G
  | g, [] => g
  | g, op :: r => grun c (gstep c g op) r

/-- The caller discipline: a caller asks once (its id is not outstanding), and only an admitted,
not yet recorded caller records — hence exactly one `record_*` per admitted caller. -/
def disciplined (c : Cfg) : G → List COp → Bool
  | _, [] => true
  | g, .call id now :: r =>
    !g.outClosed.contains id && !g.outProbe.contains id && disciplined c (gstep c g (.call id now)) r
  | g, .settle id x :: r =>
    (g.outClosed.contains id || g.outProbe.contains id) && disciplined c (gstep c g (.settle id x)) r

/-- No *stale completion*: whoever records while the breaker is HALF_OPEN is an outstanding probe
(not a caller admitted while CLOSED, before the last opening).  Finding F7 is the failure of this. -/
def noStale (c : Cfg) : G → List COp → Bool
  | _, [] => true
  | g, .call id now :: r => noStale c (gstep c g (.call id now)) r
  | g, .settle id x :: r =>
    (g.s.state != .halfOpen || g.outProbe.contains id) && noStale c (gstep c g (.settle id x)) r

end Redress.Breaker
