/-
  Redress.Model.Twin — executable two-run comparisons (C15: silent-hook twin; C12: call vs execute).
  Used by the driver on every case (model self-check) and as the vocabulary of Props/C15, Props/C12.
-/
import Redress.Model.Run

namespace Redress.Twin

open Redress

/-- an observability hook request -/
def isHook : Req → Bool
  | .metric .. | .log .. | .beforeSleep .. => true
  | _ => false

/-- requests answered by an embedded component, not by the oracle -/
def isInternal : Req → Bool
  | .budgetConsume | .breakerAllow | .breakerSuccess | .breakerFailure _ | .breakerCancel => true
  | _ => false

/-- a hook answer that raises an `Exception` becomes a normal return of the same duration -/
def silence (x : Req × Ans) : Ans :=
  match x.2 with
  | .raise e d => if isHook x.1 && e.isException then .unit d else x.2
  | a => a

/-- the oracle answers a run consumed (oldest first), with hook faults silenced -/
def silencedAnswers (t : List (Req × Ans)) : List Ans :=
  (t.filter (fun x => !isInternal x.1)).map silence

/-- two logs equal up to the answers of faulty hooks -/
def sameModuloHooks (t t' : List (Req × Ans)) : Bool :=
  t.length == t'.length &&
  (t.zip t').all fun (x, y) => x.1 == y.1 && (x.2 == y.2 || (isHook x.1 && silence x == y.2))

/-- C15 on the model: re-running a script with the hook faults silenced gives the same results,
    the same logs up to those answers, and the same component states. -/
def silentTwinAgrees (cfg : Cfg) (steps : List Step) (w : World) : Bool :=
  let (logs, wf) := runScript cfg steps w
  let consumed := logs.flatMap fun l => silencedAnswers l.trace
  let (logs', wf') := runScript cfg steps { w with answers := consumed ++ wf.answers }
  logs.length == logs'.length
  && (logs.zip logs').all (fun (l, l') => l.res == l'.res && sameModuloHooks l.trace l'.trace)
  && wf.now == wf'.now && wf.budget == wf'.budget && wf.breaker.state == wf'.breaker.state
  && wf.breaker.failures == wf'.breaker.failures && wf.breaker.probe == wf'.breaker.probe
  && wf.answers == wf'.answers

/-! ### call vs execute -/

/-- what C12 requires to agree: operation invocations, strategy calls, sleeps, handler calls,
    emitted events, breaker and budget interactions (not: classifier calls, attempt hooks) -/
def keepC12 : Req → Bool
  | .classify _ | .attemptStart _ | .attemptEnd _ => false
  | _ => true

def projC12 (t : List (Req × Ans)) : List (Req × Ans) := t.filter (keepC12 ·.1)

/-- `call()` delivers by return / raise what `execute()` delivers as a RetryOutcome -/
def deliverRelated (rc re : Res) : Bool :=
  match rc, re with
  | .ret v, .outcome o _ => o.ok && o.value == some v
  | .raised (.libExhausted f), .outcome o _ =>
    !o.ok && o.stop == some f.stop && o.attempts == f.attempts && o.lastClass == f.lastClass
    && o.nextSleep == f.nextSleep
    && (o.lastResult == f.lastResult) && (f.lastExc.isNone || o.lastExc == f.lastExc)
  | .raised .libAbort, .outcome o _ => !o.ok && o.stop == some .aborted
  | .raised (.abort _), .outcome o _ => !o.ok && o.stop == some .aborted
  | .raised (.libCircuitOpen _), .outcome o _ => !o.ok && o.attempts == 0 && o.lastExc == some "libCircuitOpen"
  | .raised .libRuntimeError, .outcome o _ => !o.ok && o.stop == some .maxAttemptsGlobal && o.attempts == 0
  | .raised e, .outcome o _ => !o.ok && o.cause == some .exception && o.lastExc == some e.ref
  | .raised e, .raised e' => e == e'
  | _, _ => false

/-- the library's own exception objects that `deliverRelated` has dedicated clauses for (an operation
    cannot raise *these objects*; the wire format lets an oracle name them, so the environment says so) -/
def isLibMadeTerminal : Exn → Bool
  | .libRuntimeError | .libCircuitOpen _ => true
  | _ => false

/-- the environments C12 speaks about: no attempt hooks, and callbacks other than the operation do
    not raise AbortRetryError / RetryExhaustedError / CircuitOpenError themselves -/
def c12Env (cfg : Cfg) (t : List (Req × Ans)) : Bool :=
  cfg.attemptStart.isNone && cfg.attemptEnd.isNone
  && t.all fun x => match x.1, x.2 with
    | .op _, .raise e _ => !isLibMadeTerminal e
    | .op _, _ => true
    | .abortIf, .raise .. => false      -- a raising predicate is a failed attempt for execute() only (DESIGN §6.2)
    | _, .raise e _ => !(e.isAbort || e.isExhausted || e.isCircuitOpen)
    | _, _ => true

def twinEntry : Entry → Entry
  | .call => .execute | .execute => .call | .pcall => .pexecute | .pexecute => .pcall

/-- C12 on the model: the other flavour of the same entry point, on the same answers -/
def callExecuteAgree (cfg : Cfg) (e : Entry) (w : World) : Option Bool :=
  let (r, w1) := runEntry cfg e w
  let t := w1.trace.reverse
  let cfg' := { cfg with timeline := false }
  let (r', w2) := runEntry cfg' (twinEntry e) { w with answers := (t.filter (fun x => !isInternal x.1)).map (·.2) ++ w1.answers }
  let t' := w2.trace.reverse
  if !e.isPolicy && c12Env cfg t && c12Env cfg t' then
    some (projC12 t == projC12 t' && (if e.isExecute then deliverRelated r' r else deliverRelated r r')
          && w1.budget == w2.budget && w1.breaker.state == w2.breaker.state && w1.breaker.probe == w2.breaker.probe)
  else none

end Redress.Twin
