/-
  Redress.Model.Signature — `strategies.py::_normalize_strategy`: how a registered strategy callable is
  recognised as context-style `(ctx)` or legacy `(attempt, klass, prev_sleep_s)` from the shape of its
  signature (`inspect.signature`).
-/
import Redress.Model.Basic

namespace Redress

/-- The shape of a callable's signature as `inspect.signature` reports it. -/
structure Sig where
  /-- positional parameters (positional-only or positional-or-keyword) without a default -/
  req : Nat
  /-- positional parameters with a default -/
  opt : Nat
  /-- has `*args` -/
  varargs : Bool
  /-- keyword-only parameters without a default -/
  kwReq : Nat
  /-- keyword-only parameters with a default -/
  kwOpt : Nat
  /-- has `**kwargs` -/
  varkw : Bool
deriving DecidableEq, Repr, Inhabited

/-- `_normalize_strategy`: `none` is `TypeError("Strategy must accept (ctx) or (attempt, klass,
    prev_sleep_s)")`.  Only the REQUIRED parameters decide. -/
def normalizeSig (s : Sig) : Option SKind :=
  if s.kwReq > 0 then none
  else if s.req = 1 then some .ctx
  else if s.req = 3 then some .legacy
  else none

end Redress
