/-
  Redress.Model.Run — entry points, results and scripts (sequences of calls on one policy object).
-/
import Redress.Model.Policy

namespace Redress

/-- The four modelled entry points; everything else (RetryPolicy, contexts, @retry, async twins)
    is argument forwarding to one of these (checked by the correspondence, DESIGN §5 C12). -/
inductive Entry | call | execute | pcall | pexecute
deriving DecidableEq, Repr, Inhabited

def Entry.name : Entry → String
  | .call => "call" | .execute => "execute" | .pcall => "pcall" | .pexecute => "pexecute"

def Entry.isExecute : Entry → Bool
  | .execute | .pexecute => true
  | _ => false

def Entry.isPolicy : Entry → Bool
  | .pcall | .pexecute => true
  | _ => false

/-- How a call ends. -/
inductive Res
  | ret (v : Nat)
  | raised (e : Exn)
  | outcome (o : Outcome) (timeline : List TimelineEv)    -- timeline oldest first
deriving DecidableEq, Repr, Inhabited

def toRes : EStateM.Result Exn World Nat → Res × World
  | .ok v w => (.ret v, w)
  | .error e w => (.raised e, w)

def toResO (tl : Bool) : EStateM.Result Exn World Outcome → Res × World
  | .ok o w => (.outcome o (if tl then w.timeline.reverse else []), w)
  | .error e w => (.raised e, w)

/-- Run one call from world `w` (trace reset, components and clock kept). -/
def runEntry (cfg : Cfg) (e : Entry) (w : World) : Res × World :=
  let w := { w with trace := [], timeline := [], opCalls := 0 }
  match e with
  | .call => toRes ((Retry.runCall cfg).run w)
  | .execute => toResO cfg.timeline ((Retry.runExecute cfg).run w)
  | .pcall => toRes ((Policy.call cfg).run w)
  | .pexecute => toResO (cfg.timeline && cfg.hasRetry) ((Policy.execute cfg).run w)

/-- One step of a script. -/
inductive Step
  | run (e : Entry)
  | advance (d : Nat)
deriving DecidableEq, Repr, Inhabited

/-- What one step produced: the exchange log (oldest first) and the result. -/
structure StepLog where
  entry : Entry
  trace : List (Req × Ans)
  res : Res
  startNow : Nat
deriving Repr, Inhabited

/-- Run a script; each call starts from a fresh `_RetryState` (by `initState`). -/
def runScript (cfg : Cfg) : List Step → World → List StepLog × World
  | [], w => ([], w)
  | .advance d :: rest, w => runScript cfg rest { w with now := w.now + d }
  | .run e :: rest, w =>
    let (r, w') := runEntry cfg e w
    let (logs, wf) := runScript cfg rest w'
    ({ entry := e, trace := w'.trace.reverse, res := r, startNow := w.now } :: logs, wf)

end Redress
