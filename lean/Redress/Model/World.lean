/-
  Redress.Model.World — configuration, mutable state, the monad and `ask`.
-/
import Redress.Model.Basic
import Redress.Model.Budget
import Redress.Model.Breaker

namespace Redress

/-- Construction-time configuration of a `Retry` (and of the surrounding `Policy`). -/
structure Cfg where
  -- Retry(...)
  maxAttempts : Nat := 6
  deadline : Nat := 60
  maxUnknown : Option Nat := some 2
  perClass : EClass → Option Nat := fun _ => none
  stratDefault : Option SKind := some .ctx
  stratFor : EClass → Option SKind := fun _ => none
  stratRecords : SKey → Bool := fun _ => false      -- strategy has record_failure / record_success
  resultClassifier : Bool := false
  budget : Option Budget.Cfg := none
  pHandler : Bool := false
  pBeforeSleep : Bool := false
  pSleeper : Bool := false
  pAttemptStart : Bool := false
  pAttemptEnd : Bool := false
  -- Policy(...)
  hasRetry : Bool := true
  breaker : Option Breaker.Cfg := none
  isAsync : Bool := false
  -- keyword arguments of call()/execute()
  metric : Bool := false
  log : Bool := false
  operation : Option String := none
  abortIf : Bool := false
  cHandler : Bool := false
  cBeforeSleep : Bool := false
  cSleeper : Bool := false
  cAttemptStart : Bool := false
  cAttemptEnd : Bool := false
  timeline : Bool := false        -- execute() only

namespace Cfg

/-- `_resolve_sleep`: the call-level handler wins. -/
def handler (c : Cfg) : Option Lvl :=
  if c.cHandler then some .call else if c.pHandler then some .policy else none

def beforeSleep (c : Cfg) : Option Lvl :=
  if c.cBeforeSleep then some .call else if c.pBeforeSleep then some .policy else none

/-- `sleeper or time.sleep` -/
def sleeper (c : Cfg) : Lvl :=
  if c.cSleeper then .call else if c.pSleeper then .policy else .dflt

def attemptStart (c : Cfg) : Option Lvl :=
  if c.cAttemptStart then some .call else if c.pAttemptStart then some .policy else none

def attemptEnd (c : Cfg) : Option Lvl :=
  if c.cAttemptEnd then some .call else if c.pAttemptEnd then some .policy else none

/-- `_select_strategy`: `self._strategies.get(klass, self._default_strategy)` -/
def selectStrategy (c : Cfg) (k : EClass) : Option (SKey × SKind) :=
  match c.stratFor k with
  | some kind => some (.cls k, kind)
  | none => match c.stratDefault with
    | some kind => some (.default, kind)
    | none => none

/-- Does the *normalised* strategy object expose `record_failure`/`record_success`?  A legacy
    3-argument strategy is wrapped in a closure by `_normalize_strategy`, which hides them. -/
def records (c : Cfg) (key : SKey) : Bool :=
  c.stratRecords key && (match key with
    | .default => c.stratDefault == some .ctx
    | .cls k => c.stratFor k == some .ctx)

/-- `if self.operation:` — the empty string is falsy. -/
def opTag (c : Cfg) : Option String :=
  match c.operation with
  | some s => if s.isEmpty then none else some s
  | none => none

end Cfg

/-- `_RetryState` -/
structure RState where
  start : Nat := 0
  prevSleep : Option Nat := none
  lastExc : Option Exn := none
  lastResult : Option Nat := none
  lastClass : Option EClass := none
  lastClassification : Option Classification := none
  lastCause : Option Cause := none
  lastStop : Option StopReason := none
  unknownAttempts : Nat := 0
  perClassCounts : EClass → Nat := fun _ => 0
  lastStrategy : Option SKey := none

/-- `AttemptState` -/
structure AState where
  started : Bool := false
  returned : Bool := false
  endCalled : Bool := false
  classification : Option Classification := none
  result : Option Nat := none
  cause : Option Cause := none

/-- `ExecutionContext` -/
structure XCtx where
  start : Nat := 0
  admitted : Bool := false
  settled : Bool := false

/-- Everything mutable.  Survives exceptions, like Python objects do. -/
structure World where
  answers : List Ans
  now : Nat := 0
  trace : List (Req × Ans) := []        -- newest first
  rs : RState := {}
  as : AState := {}
  attempts : Nat := 0                   -- the `attempts` local of execute()
  opCalls : Nat := 0                    -- invocations of the operation in this call (what `op` observes)
  timeline : List TimelineEv := []      -- newest first
  tlStart : Nat := 0
  budget : Budget.St := {}
  breaker : Breaker.St := {}
  xc : XCtx := {}
  /-- C15's twin semantics: when set, an `Exception` raised by an observability hook (metric / log /
      before_sleep) counts as a normal return of the same duration.  `false` in every real run. -/
  silent : Bool := false

abbrev M := EStateM Exn World

/-- Pop an answer, let its duration pass, log the exchange, raise if the answer is a raise. -/
def ask (r : Req) : M Ans := do
  let w ← get
  match w.answers with
  | [] =>
    -- oracle exhausted (model-only): the request is still logged, answered by `stuck`
    set { w with trace := (r, Ans.raise .stuck 0) :: w.trace }
    throw .stuck
  | a :: rest =>
    set { w with answers := rest, now := w.now + a.dur, trace := (r, a) :: w.trace }
    match a with
    | .raise e _ => throw e
    | _ => pure a

/-- What an observability hook's answer amounts to under the silent-hook twin semantics. -/
def Ans.silenced : Ans → Ans
  | .raise e d => if e.isException then .unit d else .raise e d
  | a => a

/-- `ask` at an observability-hook call site (`on_metric`, `on_log`, `before_sleep`).  Identical to
    `ask` unless `World.silent` is set (C15's twin: "the same run with silent hooks"). -/
def askHook (r : Req) : M Ans := do
  let w ← get
  match w.answers with
  | [] =>
    set { w with trace := (r, Ans.raise .stuck 0) :: w.trace }
    throw .stuck
  | a :: rest =>
    let a' := if w.silent then a.silenced else a
    set { w with answers := rest, now := w.now + a.dur, trace := (r, a') :: w.trace }
    match a' with
    | .raise e _ => throw e
    | _ => pure a'

/-- Record an interaction with an embedded component (no oracle answer is consumed). -/
def logInternal (r : Req) (a : Ans) : M Unit :=
  modify fun w => { w with trace := (r, a) :: w.trace }

/-- `try: x finally: fin` -/
def withFinally (x : M α) (fin : M Unit) : M α := do
  let a ← tryCatch x (fun e => do fin; throw e)
  fin
  pure a

/-- `except Exception: pass` -/
def swallowException (e : Exn) : M Unit :=
  if e.isException then pure () else throw e

def getRS : M RState := do return (← get).rs
def modifyRS (f : RState → RState) : M Unit := modify fun w => { w with rs := f w.rs }
def getAS : M AState := do return (← get).as
def modifyAS (f : AState → AState) : M Unit := modify fun w => { w with as := f w.as }
def getNow : M Nat := do return (← get).now

/-- `state.elapsed()` -/
def elapsed : M Nat := do
  let w ← get
  return w.now - w.rs.start

end Redress
