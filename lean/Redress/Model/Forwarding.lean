/-
  Redress.Model.Forwarding — the *shape* of the argument-forwarding glue (`policy/wrappers.py`,
  `policy/context.py`, the `from_config` constructors, `Policy.call`, the `context()` factories) as
  extracted from the source by `harness/extract_forwarding.py`, and the predicate "this site forwards
  every option, under its own name, to the expected callee".

  The Lean model has ONE function per model entry (`Entry`): RetryPolicy, the context managers and
  `from_config` are identities there.  This file is what makes that identity an obligation about the
  code that is re-checked on every run (C12: "wrappers/decorator/context forward every argument").
-/
namespace Redress.Forwarding

/-- how an option `p` of the site must appear among the callee's arguments -/
inductive Rule
  | sameName            -- keyword `p = p`
  | selfAttr            -- keyword `p = self.p`          (context managers: dataclass field → call option)
  | configAttr          -- keyword `m p = config.p`      (`from_config`; `m` renames two fields)
  | positionalAfterSelf -- `self, f₁, …, fₙ` positionally in the callee's own field order, or `self` + keywords `f = f`
deriving DecidableEq, Repr

/-- one forwarding site as found in the source -/
structure Site where
  name : String                        -- e.g. "wrappers.RetryPolicy.call"
  options : List String                -- what must be forwarded (kw-only params / dataclass fields / config fields)
  calleeOptions : List String          -- what the callee accepts (its kw-only params / dataclass fields)
  callee : String                      -- dotted name of the function actually called ("" if not found)
  positional : List String             -- unparsed positional arguments of that call
  keywords : List (String × String)    -- (keyword, unparsed value) of that call
deriving Repr

/-- `RetryConfig` field → constructor parameter -/
def cfgParam (f : String) : String :=
  if f = "default_strategy" then "strategy" else if f = "class_strategies" then "strategies" else f

/-- `alias`: options that travel under a computed local name (the decorator computes `effective_strategy` and
    `op_name` first); empty everywhere else -/
def Site.ruleOk (s : Site) (alias : List (String × String)) : Rule → Bool
  | .sameName => s.options.all fun p => s.keywords.contains (p, (alias.lookup p).getD p)
  | .selfAttr => s.options.all fun p => s.keywords.contains (p, "self." ++ p)
  | .configAttr => s.options.all fun p => s.keywords.contains (cfgParam p, "config." ++ p)
  | .positionalAfterSelf =>
    (s.positional == "self" :: s.calleeOptions && s.keywords.isEmpty) ||
    (s.positional == ["self"] && s.calleeOptions.all fun f => s.keywords.contains (f, f))

/-- the site exposes exactly the callee's options (`cover = false`: at least forwards its own) -/
def Site.coversCallee (s : Site) (cover : Bool) : Bool :=
  !cover || (s.calleeOptions.all (s.options.contains ·) && s.options.all (s.calleeOptions.contains ·))

/-- what is expected of a site: which function it must call, how, and whether it must expose all of the
    callee's options -/
structure Expect where
  name : String
  callee : String
  rule : Rule
  cover : Bool
  alias : List (String × String)
deriving Repr

def Site.ok (e : Expect) (s : Site) : Bool :=
  s.name == e.name && s.callee == e.callee && s.ruleOk e.alias e.rule && s.coversCallee e.cover

/-- every expected site was found and is well-forwarding -/
def allOk (es : List Expect) (ss : List Site) : Bool :=
  es.all fun e => ss.any fun s => s.ok e

end Redress.Forwarding
