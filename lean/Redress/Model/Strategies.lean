/-
  Redress.Model.Strategies — `redress/strategies.py` (the built-in backoff strategies).

  **Floats are modelled as exact rationals** (core `Rat`, no Mathlib).  Every Python `float`
  that is finite is an exact dyadic rational (`float.as_integer_ratio()`), and the model
  performs the same sequence of `+ - * / min max <=` on those rationals without rounding.
  Consequently the model cannot exhibit IEEE-754 behaviour: rounding, overflow to `inf`,
  `inf * 0 = nan`, underflow to 0, and CPython's `OverflowError` from `float.__pow__`.
  The conjunct of C18 that speaks about those ("none of them raises", "for very large
  attempts") is carried by the correspondence check (harness/families/strategies.py),
  which compares the real functions with this model within a relative tolerance and
  checks the Lean-defined envelopes on the implementation's own return values.

  The random draw is an explicit argument `u` (`0 ≤ u ≤ 1`):
  CPython's `random.uniform(a, b)` is literally `a + (b - a) * self.random()`.

  Where a Python value may be non-finite by *construction of the caller* (the hint and the
  fallback strategy's return value in `retry_after_or`) it is an `FVal`.
-/

namespace Redress.Strategies

/-- A Python `float` that may be non-finite (compare `Redress.SOut`, which is on the µs grid). -/
inductive FVal
  | nan | posInf | negInf
  | fin (q : Rat)
deriving DecidableEq, Repr, Inhabited

/-- `math.isfinite` -/
def FVal.isFinite : FVal → Bool
  | .fin _ => true
  | _ => false

/-- `random.uniform(a, b)` with the draw `random.random() = u` made explicit. -/
def uniform (a b u : Rat) : Rat := a + (b - a) * u

/-! ### decorrelated_jitter -/

/-- `prev = prev_sleep or base_s` — Python truthiness: `None` **and** `0.0` fall back to `base_s`. -/
def prevOr (base : Rat) : Option Rat → Rat
  | none => base
  | some p => if p = 0 then base else p

/-- `min(max_s, random.uniform(base_s, prev * 3.0))` -/
def decorrelatedJitter (base mx : Rat) (prev : Option Rat) (u : Rat) : Rat :=
  min mx (uniform base (prevOr base prev * 3) u)

/-! ### the exponential cap `min(max_s, _grow(base_s, g, attempt))` -/

/--
`acc * g ^ n`, except that the multiplication stops as soon as the running product has reached
`mx` (then `min mx ·` is `mx` whatever follows, for `g ≥ 1`) or is `0` (then it stays `0`).
This keeps `attempt = 10^6` cheap.  `Props/C18.lean::cap_eq_capSpec` proves that `cap` below is
exactly the specified `min mx (base * g ^ attempt)` whenever `0 ≤ base` and `1 ≤ g`.
-/
def growCapped (mx g : Rat) : Nat → Rat → Rat
  | 0, acc => acc
  | n + 1, acc => if mx ≤ acc ∨ acc = 0 then acc else growCapped mx g n (acc * g)

/-- `cap = min(max_s, _grow(base_s, g, attempt))` (executable form). -/
def cap (base mx g : Rat) (attempt : Nat) : Rat := min mx (growCapped mx g attempt base)

/-- The literal transcription `min(max_s, base_s * g ** attempt)`. -/
def capSpec (base mx g : Rat) (attempt : Nat) : Rat := min mx (base * g ^ attempt)

/-! ### equal_jitter, token_backoff -/

/-- `cap = min(max_s, _grow(base_s, 2.0, attempt)); cap / 2.0 + random.uniform(0.0, cap / 2.0)` -/
def equalJitter (base mx : Rat) (attempt : Nat) (u : Rat) : Rat :=
  let c := cap base mx 2 attempt
  c / 2 + uniform 0 (c / 2) u

/-- `cap = min(max_s, _grow(base_s, 1.5, attempt)); random.uniform(cap / 2.0, cap)` -/
def tokenBackoff (base mx : Rat) (attempt : Nat) (u : Rat) : Rat :=
  let c := cap base mx (3 / 2) attempt
  uniform (c / 2) c u

/-! ### adaptive -/

/-- The arguments of `adaptive(...)`. -/
structure AdaptiveParams where
  window : Rat
  targetSuccess : Rat
  minM : Rat
  maxM : Rat
deriving DecidableEq, Repr, Inhabited

/-- The four `ValueError` checks of `adaptive()`, in order; `false` = the constructor raises. -/
def AdaptiveParams.valid (p : AdaptiveParams) : Bool :=
  if p.window ≤ 0 then false
  else if ¬ (0 < p.targetSuccess ∧ p.targetSuccess ≤ 1) then false
  else if p.minM < 1 then false
  else if p.maxM < p.minM then false
  else true

/-- `AdaptiveStrategy._events`: `(time, success)`, oldest first. -/
abbrev Events := List (Rat × Bool)

/-- `while self._events and self._events[0][0] <= cutoff: self._events.popleft()` —
pop-left-while, *not* a filter (the two differ when the clock is not monotone). -/
def prune (cutoff : Rat) : Events → Events
  | [] => []
  | (t, s) :: rest => if t ≤ cutoff then prune cutoff rest else (t, s) :: rest

/-- `_record(success)`: append, then prune with `cutoff = now - window_s`. -/
def record (p : AdaptiveParams) (now : Rat) (success : Bool) (ev : Events) : Events :=
  prune (now - p.window) (ev ++ [(now, success)])

/-- The body of `_multiplier()` after pruning, with `target_failure` as a parameter. -/
def multiplierTF (minM maxM tf : Rat) (ev : Events) : Rat :=
  let total := ev.length
  if total = 0 then minM
  else
    let failures := (ev.filter (fun e => !e.2)).length
    let rate : Rat := (failures : Rat) / (total : Rat)
    if rate ≤ tf then minM
    else if 1 ≤ tf then maxM
    else
      let frac := (rate - tf) / (1 - tf)
      min maxM (max minM (minM + frac * (maxM - minM)))

/-- `target_failure = 1.0 - self.target_success` -/
def AdaptiveParams.targetFailure (p : AdaptiveParams) : Rat := 1 - p.targetSuccess

/-- `_multiplier()` on an already pruned deque. -/
def multiplierOf (p : AdaptiveParams) (ev : Events) : Rat :=
  multiplierTF p.minM p.maxM p.targetFailure ev

/-- `_multiplier()` at clock reading `now`: prunes (the deque is mutated), then computes. -/
def multiplier (p : AdaptiveParams) (now : Rat) (ev : Events) : Rat × Events :=
  let ev' := prune (now - p.window) ev
  (multiplierOf p ev', ev')

/-- The multiplier an `AdaptiveStrategy` holding `events` reports at time `now`. -/
def adaptiveMultiplier (p : AdaptiveParams) (events : Events) (now : Rat) : Rat :=
  (multiplier p now events).1

/-- `return sleep_s * multiplier` -/
def adaptive (fallbackValue m : Rat) : Rat := fallbackValue * m

/-- `AdaptiveStrategy.__call__` with the fallback's return value and the clock reading given. -/
def adaptiveCall (p : AdaptiveParams) (fallbackValue now : Rat) (ev : Events) : Rat × Events :=
  let (m, ev') := multiplier p now ev
  (adaptive fallbackValue m, ev')

/-- What can be done to an `AdaptiveStrategy`. -/
inductive AOp
  | record (now : Rat) (success : Bool)      -- record_success() / record_failure()
  | query (now : Rat)                        -- _multiplier()
  | call (now : Rat) (fallbackValue : Rat)   -- __call__(ctx)
deriving Repr, Inhabited

/-- Run a history against a fresh `AdaptiveStrategy`; returns the outputs of `query`/`call`
operations in order and the final deque.  `tf? = some tf` overrides `1 - target_success`
(used by the correspondence to hand over the *float-rounded* subtraction). -/
def runOps (p : AdaptiveParams) (tf? : Option Rat) : List AOp → Events → List Rat → List Rat × Events
  | [], ev, out => (out.reverse, ev)
  | .record now s :: ops, ev, out => runOps p tf? ops (record p now s ev) out
  | .query now :: ops, ev, out =>
    let ev' := prune (now - p.window) ev
    let m := multiplierTF p.minM p.maxM (tf?.getD p.targetFailure) ev'
    runOps p tf? ops ev' (m :: out)
  | .call now fb :: ops, ev, out =>
    let ev' := prune (now - p.window) ev
    let m := multiplierTF p.minM p.maxM (tf?.getD p.targetFailure) ev'
    runOps p tf? ops ev' (adaptive fb m :: out)

/-! ### retry_after_or -/

/-- `jitter = max(0.0, jitter_s)` -/
def jitterOf (jitterS : Rat) : Rat := max 0 jitterS

/-- non-finite ↦ `0.0` (`if not math.isfinite(sleep_s): sleep_s = 0.0`) -/
def finiteOrZero : FVal → Rat
  | .fin q => q
  | _ => 0

/--
The closure returned by `retry_after_or(fallback, jitter_s=jitterS)`, applied to a context whose
`classification.retry_after_s` is `hint` and whose `remaining_s` is `remaining`;
`fallbackOut` is what `fallback_fn(ctx)` returns (only consulted when there is no finite hint).

```
if retry_after is not None and math.isfinite(retry_after):
    sleep_s = max(0.0, float(retry_after))
    if jitter: sleep_s += random.uniform(0.0, jitter)
else: sleep_s = fallback_fn(ctx)
if not math.isfinite(sleep_s): sleep_s = 0.0
sleep_s = max(0.0, sleep_s)
if ctx.remaining_s is not None: sleep_s = min(sleep_s, ctx.remaining_s)
```
-/
def retryAfterOr (jitterS : Rat) (hint : Option FVal) (fallbackOut : FVal)
    (remaining : Option Rat) (u : Rat) : Rat :=
  let jitter := jitterOf jitterS
  let sleep : FVal :=
    match hint with
    | some (.fin h) =>
      let s := max 0 h
      .fin (if jitter ≠ 0 then s + uniform 0 jitter u else s)
    | _ => fallbackOut
  let s := max 0 (finiteOrZero sleep)
  match remaining with
  | some r => min s r
  | none => s

/-- The runner's own post-processing of a strategy's return value
(`policy/state.py::_handle_failure`): non-finite ↦ 0, `max 0`, `min remaining`. -/
def sanitize (s : FVal) (remaining : Rat) : Rat :=
  min (max 0 (finiteOrZero s)) remaining

/-! ### envelopes as executable predicates (evaluated by the driver on the implementation's values) -/

def absQ (q : Rat) : Rat := if q < 0 then -q else q

/-- `lo ≤ v ≤ hi` up to a relative tolerance `rel` (float rounding) and an absolute one `eps`
(results in the subnormal range). -/
def within (lo hi rel eps v : Rat) : Bool :=
  decide (lo - (rel * absQ lo + eps) ≤ v) && decide (v ≤ hi + (rel * absQ hi + eps))

/-- C18: `decorrelated_jitter` returns a finite value in `[0, max_s]`. -/
def decorrelatedEnv (mx rel eps : Rat) : FVal → Bool
  | .fin v => within 0 mx rel eps v
  | _ => false

/-- C18: `[cap/2, cap]`. -/
def capEnv (c rel eps : Rat) : FVal → Bool
  | .fin v => within (c / 2) c rel eps v
  | _ => false

/-- C18: the multiplier lies in `[min_multiplier, max_multiplier]`. -/
def multiplierEnv (minM maxM rel : Rat) : FVal → Bool
  | .fin v => within minM maxM rel 0 v
  | _ => false

/-- C18: for a non-negative fallback value, `fb ≤ fb*min ≤ v ≤ fb*max`. -/
def adaptiveEnv (fb minM maxM rel eps : Rat) : FVal → Bool
  | .fin v => within (max fb (fb * minM)) (fb * maxM) rel eps v
  | _ => false

/-- C18: finite, non-negative, `≤ remaining` when given (no tolerance: `max`/`min` are exact). -/
def retryAfterOrEnv (remaining : Option Rat) : FVal → Bool
  | .fin v => decide (0 ≤ v) && (match remaining with | some r => decide (v ≤ r) | none => true)
  | _ => false

/-- C20 (last sentence): with a finite hint `h`, `min(h⁺, r) ≤ v ≤ min(h⁺ + jitter, r)`. -/
def hintEnv (jitterS h : Rat) (remaining : Option Rat) (rel eps : Rat) : FVal → Bool
  | .fin v =>
    let lo := max 0 h
    let hi := lo + jitterOf jitterS
    match remaining with
    | some r => within (min lo r) (min hi r) rel eps v
    | none => within lo hi rel eps v
  | _ => false

end Redress.Strategies
