/-
  Redress.Model.Threads — a one-mutex thread calculus (C17).

  `Budget` and `CircuitBreaker` each guard all of their mutable state with a single
  `threading.Lock` (`self._lock`).  This file defines

  * `Instr`  — the *shape* of one source line: `loc | acq | rel | sh` (no payload).  The translator
               `harness/extract_locks.py` emits, for every control-flow path of every public
               method, a `List Instr` (`Redress/Generated/LockShape.lean`);
  * `Cmd L S` — an instruction *with* its meaning (`loc f`, `acq`, `rel`, `sh f`) over a thread-local
               state `L` and the shared state `S`; `Cmd.instr` forgets the meaning;
  * `Conf`   — any number of threads (`Nat → TState`), the shared state, the lock holder;
  * `step`   — the fine-grained semantics: ONE instruction of ONE thread.  `sh` is enabled whether or
               not the lock is held — nothing in the semantics protects shared state, the lock
               discipline `wl` has to;
  * `astep`  — the coarse semantics: a local step, or a whole `acq … rel` block at once;
  * `wl`     — the lock discipline of one thread: every `sh` and every `rel` only while holding, no
               nested `acq`, nothing held at the end;  `WL` — every thread obeys it.

  Import-free (no Mathlib, no Std): usable from the compiled driver and from the generated file.
-/

namespace Redress.Threads

/-- Shape of one instruction (what the extractor emits per source line). -/
inductive Instr
  | loc   -- touches only thread-local data (arguments, locals, clock read, immutable config)
  | acq   -- `with self._lock:` entered
  | rel   -- the `with` block left (normally, by `return`, or by `raise`)
  | sh    -- reads or writes a mutable attribute of the component
deriving DecidableEq, Repr, Inhabited

/-- Instruction with meaning. -/
inductive Cmd (L S : Type)
  | loc (f : L → L)
  | acq
  | rel
  | sh (f : L → S → L × S)

/-- Forget the meaning. -/
def Cmd.instr {L S : Type} : Cmd L S → Instr
  | .loc _ => .loc
  | .acq => .acq
  | .rel => .rel
  | .sh _ => .sh

variable {L S : Type}

structure TState (L S : Type) where
  loc : L
  code : List (Cmd L S)

structure Conf (L S : Type) where
  threads : Nat → TState L S
  shared : S
  holder : Option Nat

def upd {α : Type} (f : Nat → α) (i : Nat) (v : α) : Nat → α := fun j => if j = i then v else f j

/-- Fine-grained step of thread `i`.  `acq` blocks while the lock is taken, `rel` is only possible
    for the holder, `sh` is ALWAYS enabled (with or without the lock). -/
def step (c : Conf L S) (i : Nat) : Option (Conf L S) :=
  match (c.threads i).code with
  | [] => none
  | .loc f :: r => some { c with threads := upd c.threads i ⟨f (c.threads i).loc, r⟩ }
  | .acq :: r =>
    if c.holder = none then
      some { c with threads := upd c.threads i ⟨(c.threads i).loc, r⟩, holder := some i }
    else none
  | .rel :: r =>
    if c.holder = some i then
      some { c with threads := upd c.threads i ⟨(c.threads i).loc, r⟩, holder := none }
    else none
  | .sh f :: r =>
    let p := f (c.threads i).loc c.shared
    some { c with threads := upd c.threads i ⟨p.1, r⟩, shared := p.2 }

/-- Run a schedule (a list of thread indices); `none` if some scheduled thread is not enabled. -/
def exec (c : Conf L S) : List Nat → Option (Conf L S)
  | [] => some c
  | i :: is => (step c i).bind (fun c' => exec c' is)

/-- Run the rest of a critical section: up to and including the first `rel`. -/
def finish : L → S → List (Cmd L S) → L × S × List (Cmd L S)
  | l, s, [] => (l, s, [])
  | l, s, .loc f :: r => finish (f l) s r
  | l, s, .sh f :: r => finish (f l s).1 (f l s).2 r
  | l, s, .rel :: r => (l, s, r)
  | l, s, .acq :: r => (l, s, .acq :: r)

/-- Coarse step: a local step outside a critical section, or a whole critical section at once. -/
def astep (c : Conf L S) (i : Nat) : Option (Conf L S) :=
  match (c.threads i).code with
  | .loc f :: r => some { c with threads := upd c.threads i ⟨f (c.threads i).loc, r⟩ }
  | .acq :: r =>
    if c.holder = none then
      let p := finish (c.threads i).loc c.shared r
      some { c with threads := upd c.threads i ⟨p.1, p.2.2⟩, shared := p.2.1 }
    else none
  | _ => none

def aexec (c : Conf L S) : List Nat → Option (Conf L S)
  | [] => some c
  | i :: is => (astep c i).bind (fun c' => aexec c' is)

/-- Lock discipline of an instruction shape, given whether the thread currently holds the lock. -/
def wl : Bool → List Instr → Bool
  | h, [] => !h
  | h, .loc :: r => wl h r
  | h, .acq :: r => !h && wl true r
  | h, .rel :: r => h && wl false r
  | h, .sh :: r => h && wl true r

/-- The same on code with meaning (`wlc_eq_wl` in `ThreadsLemmas`: `wlc h c = wl h (c.map Cmd.instr)`). -/
def wlc : Bool → List (Cmd L S) → Bool
  | h, [] => !h
  | h, .loc _ :: r => wlc h r
  | h, .acq :: r => !h && wlc true r
  | h, .rel :: r => h && wlc false r
  | h, .sh _ :: r => h && wlc true r

/-- Every thread obeys the lock discipline for its current holding status. -/
def WL (c : Conf L S) : Prop := ∀ i, wlc (c.holder == some i) (c.threads i).code = true

/-- All threads have run to completion. -/
def Terminal (c : Conf L S) : Prop := ∀ i, (c.threads i).code = []

/-- The coarse configuration a fine configuration stands for: the holder's section completed. -/
def complete (c : Conf L S) : Conf L S :=
  match c.holder with
  | none => c
  | some i =>
    let p := finish (c.threads i).loc c.shared (c.threads i).code
    { threads := upd c.threads i ⟨p.1, p.2.2⟩, shared := p.2.1, holder := none }

end Redress.Threads
