/-
  Redress.Model.RetryAfter — executable model of the Retry-After machinery of
  `/repo/src/redress/extras/http.py`:

    _lookup_header            ↦ `lookupHeader`
    _parse_retry_after        ↦ `parseRetryAfter`
    _coerce_retry_after       ↦ `coerceRetryAfter`
    http_retry_after_classifier ↦ `httpRetryAfterClassifier`  (parametrised by the class that
                                   `http_classifier` returned; that function belongs to C19)

  The model has an explicit Python-exception outcome (`Py α = Except ExcKind α`) and the `except`
  clauses of the source are modelled one for one, so "never raises" is a statement about the
  modelled exception flow and not an artefact of Lean's totality.

  ORACLE PARAMETERS (trusted stdlib, supplied per request by the harness from the real functions):
    * `dateOracle : String → DateAns` — what `email.utils.parsedate_to_datetime(raw)` does on the
      *stripped* string: returns an aware/naive datetime (given as epoch microseconds, a naive one
      read as UTC, which is what `parsed.replace(tzinfo=UTC)` makes of it), returns `None`, or raises
      an exception of some kind;
    * `now : Int` — `datetime.now(UTC)` in epoch microseconds;
    * the `str()` of a float and of an arbitrary object (`PyVal.float _ repr`, `PyVal.other`).

  NOT MODELLED (stated once, here):
    * Rounding of `float(n)` to the nearest double: the hint is the exact integer `n`; the
      correspondence compares with `float(n)`.  Likewise `timedelta.total_seconds()` is the exact
      rational `µs / 10^6`; Python returns the nearest double.  The sign of zero is not modelled
      (`max(0.0, -0.0)` is `0.0` in Python and `0` here).
    * `int()` on NON-ASCII DECIMAL DIGITS (Unicode category Nd, e.g. "１２", "١٢"): Python accepts
      them, `pyInt` does not.  The model is claimed faithful on every string that contains no
      non-ASCII character with the Unicode `Decimal` property (and no lone surrogate, which a Lean
      `String` cannot hold).  Unicode *whitespace* IS covered: `isPySpace` is the complete table of
      `str.isspace()` code points of CPython 3.12 (29 code points).
    * `str.lower()` is modelled by ASCII lowering; this is exact for the comparison with
      `"retry-after"` because no non-ASCII code point lower-cases to a string containing one of the
      letters of `retry-after` (checked exhaustively over U+0000..U+10FFFF by the harness).
    * `getattr(exc, …)` on a property that raises, a container whose `__bool__`/`__len__` raises,
      `isinstance` hooks: outside the model (they are not "values a server or SDK supplies").
-/
import Redress.Model.Basic

namespace Redress.RetryAfter

/-! ## Python exception outcomes -/

/-- Kinds of Python exceptions the modelled code can meet. -/
inductive ExcKind
  | typeError | valueError | indexError | overflowError
  | otherException      -- any other subclass of `Exception`
  | baseException       -- KeyboardInterrupt / SystemExit / GeneratorExit: NOT an `Exception`
  | stuck               -- model-only: the driver's date-oracle table has no entry for the query
deriving DecidableEq, Repr, Inhabited

namespace ExcKind

/-- `isinstance(e, Exception)` — what `except Exception:` catches. -/
def isException : ExcKind → Bool
  | .baseException | .stuck => false
  | _ => true

def name : ExcKind → String
  | .typeError => "TypeError" | .valueError => "ValueError" | .indexError => "IndexError"
  | .overflowError => "OverflowError" | .otherException => "Exception"
  | .baseException => "BaseException" | .stuck => "stuck"

def all : List ExcKind :=
  [.typeError, .valueError, .indexError, .overflowError, .otherException, .baseException, .stuck]

def ofName? (s : String) : Option ExcKind := all.find? (·.name == s)

end ExcKind

/-- A Python computation: returns a value or raises. -/
abbrev Py (α : Type) := Except ExcKind α

/-- `try: return body  except <kinds for which catches is true>: return handler` -/
def tryExcept {α : Type} (catches : ExcKind → Bool) (body : Py α) (handler : α) : Py α :=
  match body with
  | .ok a => .ok a
  | .error k => if catches k then .ok handler else .error k

/-! ## Python floats (values only; no rounding) -/

/-- A Python `float`: NaN, ±∞, or a finite value given exactly. -/
inductive PyFloat
  | nan | inf | negInf
  | fin (q : Rat)
deriving DecidableEq, Repr, Inhabited

namespace PyFloat

/-- `x > 0.0` (false for NaN) -/
def gtZero : PyFloat → Bool
  | .nan => false
  | .inf => true
  | .negInf => false
  | .fin q => decide (0 < q)

/-- "a non-negative number of seconds": not NaN, not negative (`inf` is a number ≥ 0). -/
def NonNeg : PyFloat → Prop
  | .inf => True
  | .fin q => 0 ≤ q
  | .nan => False
  | .negInf => False

instance : DecidablePred NonNeg := fun x => by
  cases x <;> simp only [NonNeg] <;> infer_instance

end PyFloat

/-- `max(0.0, x)`: CPython's `max` keeps its first argument unless a later one is strictly greater,
so NaN (every comparison false) yields `0.0`. -/
def pyMax0 (x : PyFloat) : PyFloat := if x.gtZero then x else .fin 0

/-- `float(n)` raises `OverflowError` iff `|n| ≥ 2^1024 − 2^970` (round-half-even: that integer is
the midpoint between the largest double and 2^1024 and rounds to even = 2^1024 = overflow; one less
rounds down).  *Measured* on /venv/bin/python 3.12.1. -/
def floatOverflowBound : Nat := 2 ^ 1024 - 2 ^ 970

/-- `float(n)` for a Python int; the value is `n` itself (rounding not modelled). -/
def floatOfInt (n : Int) : Py PyFloat :=
  if n.natAbs < floatOverflowBound then .ok (.fin n) else .error .overflowError

/-! ## Strings: `str.strip()`, `int(str)` -/

/-- `str.isspace()` / the characters `str.strip()` removes: the complete CPython 3.12 table. -/
def isPySpace (c : Char) : Bool :=
  let n := c.toNat
  (0x09 ≤ n && n ≤ 0x0d) || (0x1c ≤ n && n ≤ 0x20) || n == 0x85 || n == 0xa0 || n == 0x1680 ||
  (0x2000 ≤ n && n ≤ 0x200a) || n == 0x2028 || n == 0x2029 || n == 0x202f || n == 0x205f ||
  n == 0x3000

/-- The whitespace `int(str)` skips: C `isspace` on ASCII (9–13, 32 — NOT 0x1c–0x1f) and, because
`_PyUnicode_TransformDecimalAndSpaceToASCII` maps every non-ASCII `Py_UNICODE_ISSPACE` code point
to `' '`, the non-ASCII members of `isPySpace`. -/
def isIntSpace (c : Char) : Bool :=
  isPySpace c && !(0x1c ≤ c.toNat && c.toNat ≤ 0x1f)

/-- `str.strip()` on a character list. -/
def pyStripL (l : List Char) : List Char :=
  ((l.dropWhile isPySpace).reverse.dropWhile isPySpace).reverse

/-- `str.strip()` -/
def pyStrip (s : String) : String := String.ofList (pyStripL s.toList)

/-- Outcome of `int(s)`; the last two are both `ValueError`. -/
inductive IntParse
  | value (n : Int)
  | invalidLiteral      -- ValueError: invalid literal for int() with base 10
  | tooManyDigits       -- ValueError: Exceeds the limit (4300 digits) for integer string conversion
deriving DecidableEq, Repr, Inhabited

/-- characters of the digit run scanned by `long_from_string_base` -/
def isRunChar (c : Char) : Bool := c.isDigit || c == '_'

/-- two adjacent underscores -/
def hasDoubleUnderscore : List Char → Bool
  | a :: b :: t => (a == '_' && b == '_') || hasDoubleUnderscore (b :: t)
  | _ => false

/-- value of a list of ASCII digits (Horner); `Nat.ofDigitChars 10 ds 0` from core. -/
def decVal (ds : List Char) : Nat := Nat.ofDigitChars 10 ds 0

/-- CPython's default `sys.get_int_max_str_digits()` (*measured*: 4300). -/
def pyMaxStrDigits : Nat := 4300

/--
`int(s)` for a `str`, base 10, after `PyLong_FromString` / `long_from_string_base` (CPython 3.12):
skip leading whitespace; one optional sign; a run of digits and underscores with no leading,
trailing or doubled underscore; no digits ⇒ ValueError; skip trailing whitespace; anything left
⇒ ValueError; more than `maxDigits` digits (underscores not counted, leading zeros counted;
`maxDigits = 0` disables the limit) ⇒ ValueError.  Which of the two ValueErrors is reported when
both apply was *measured*: the syntax error wins, except that the C parser stops at an embedded
NUL, so `"9"*4301 + "\0…"` reports the digit limit and `"12\0"` is an invalid literal.
-/
def pyIntBody (maxDigits : Nat) (neg : Bool) (s2 : List Char) : IntParse :=
  let run := s2.takeWhile isRunChar
  let rest := s2.dropWhile isRunChar
  let digits := run.filter Char.isDigit
  let tail := rest.dropWhile isIntSpace
  if run.head? == some '_' then .invalidLiteral
  else if hasDoubleUnderscore run then .invalidLiteral
  else if run.getLast? == some '_' then .invalidLiteral
  else if run.isEmpty then .invalidLiteral
  else if !tail.isEmpty && tail.head? != some '\x00' then .invalidLiteral
  else if 0 < maxDigits && maxDigits < digits.length then .tooManyDigits
  else if !tail.isEmpty then .invalidLiteral
  else .value (if neg then -(decVal digits : Int) else (decVal digits : Int))

/-- leading whitespace and the optional sign, then `pyIntBody` -/
def pyIntL (maxDigits : Nat) (s : List Char) : IntParse :=
  let s1 := s.dropWhile isIntSpace
  let neg := s1.head? == some '-'
  let s2 := if s1.head? == some '+' || s1.head? == some '-' then s1.tail else s1
  pyIntBody maxDigits neg s2

def pyInt (maxDigits : Nat) (s : String) : IntParse := pyIntL maxDigits s.toList

/-! ## `_parse_retry_after` -/

/-- What `email.utils.parsedate_to_datetime(raw)` did (oracle answer). -/
inductive DateAns
  | parsed (aware : Bool) (epochUs : Int)  -- a datetime; `aware = false` ⇔ `parsed.tzinfo is None`;
                                           -- `epochUs` = µs since 1970-01-01T00:00Z, naive read as UTC
  | pyNone                                 -- returned `None` (older Pythons; the branch exists)
  | raised (k : ExcKind)
deriving DecidableEq, Repr, Inhabited

/-- `except (TypeError, ValueError, IndexError, OverflowError):` at http.py:100 — the tree as it is
(`OverflowError` was added by /repo commit 95684a2, finding F10: `parsedate_to_datetime` lets the
`OverflowError` of `datetime(...)`/`timedelta(...)` escape for fields beyond a C int, e.g.
`"01 Jan 2147483648 00:00:00 GMT"`). -/
def dateExceptCatches (k : ExcKind) : Bool :=
  k == .typeError || k == .valueError || k == .indexError || k == .overflowError

/-- `except OverflowError:` (http.py:110, :119) -/
def overflowCatches (k : ExcKind) : Bool := k == .overflowError

/-- `(parsed - now).total_seconds()` as an exact rational. -/
def deltaSeconds (epochUs now : Int) : PyFloat := .fin (((epochUs - now : Int) : Rat) / 1000000)

/-- The `except ValueError:` arm of `_parse_retry_after`. -/
def datePath (raw : String) (dateOracle : String → DateAns) (now : Int) : Py (Option PyFloat) :=
  match dateOracle raw with
  | .raised k =>                                   -- try: parsed = parsedate_to_datetime(raw)
      if dateExceptCatches k then .ok none         -- except (TypeError, ValueError, IndexError, OverflowError): return None
      else .error k
  | .pyNone => .ok none                            -- if parsed is None: return None
  | .parsed _aware epochUs =>                      -- if parsed.tzinfo is None: parsed = parsed.replace(tzinfo=UTC)
      .ok (some (pyMax0 (deltaSeconds epochUs now)))  -- return max(0.0, delta)

/-- `_parse_retry_after(value)` -/
def parseRetryAfter (maxDigits : Nat) (value : String) (dateOracle : String → DateAns) (now : Int) :
    Py (Option PyFloat) :=
  if value.toList.isEmpty then .ok none            -- if not value: return None
  else
    let raw := pyStrip value                       -- raw = value.strip()
    if raw.toList.isEmpty then .ok none            -- if not raw: return None
    else
      match pyInt maxDigits raw with               -- try: seconds = int(raw)
      | .value seconds =>
          -- try: return max(0.0, float(seconds))  except OverflowError: return None
          tryExcept overflowCatches ((floatOfInt seconds).map (fun f => some (pyMax0 f))) none
      | .invalidLiteral | .tooManyDigits =>        -- except ValueError:
          datePath raw dateOracle now

/-! ## Python values met as attribute / header key / header value -/

inductive PyVal
  | none
  | bool (b : Bool)
  | int (z : Int)
  | float (f : PyFloat) (repr : String)   -- `repr` = oracle for `str(f)` (float formatting not modelled)
  | str (s : String)
  | other (str : Py String)               -- any other object (bytes, list, custom): `str(obj)` returns or raises
deriving Repr, Inhabited

/-- number of decimal digits of `|z|` -/
def numDigits (z : Int) : Nat := (Nat.toDigits 10 z.natAbs).length

/-- `str(v)`.  `str(int)` raises ValueError beyond the digit limit. -/
def pyStr (maxDigits : Nat) : PyVal → Py String
  | .none => .ok "None"
  | .bool true => .ok "True"
  | .bool false => .ok "False"
  | .int z => if 0 < maxDigits && maxDigits < numDigits z then .error .valueError else .ok (Int.repr z)
  | .float _ r => .ok r
  | .str s => .ok s
  | .other r => r

def PyVal.isNone : PyVal → Bool
  | .none => true
  | _ => false

/-! ## `_lookup_header` -/

/-- ASCII `str.lower()` as a character list. -/
def lowerL (s : String) : List Char := s.toList.map Char.toLower

/-- `name.lower()` -/
def pyLower (s : String) : String := String.ofList (lowerL s)

/-- One item yielded by `.items()` / by iterating the container. -/
inductive Entry
  | pair (k v : PyVal)
  | bad              -- an item that does not unpack into `key, val` (ValueError / TypeError)
deriving Repr, Inhabited

/-- Container shapes of `headers`. -/
inductive Headers
  /-- `None` / attribute missing -/
  | absent
  /-- `isinstance(headers, Mapping)`: `get` looks the key up exactly (`ciGet = false`, a dict) or
      case-insensitively (`ciGet = true`, e.g. a CaseInsensitiveDict); `get` / `items()` may raise.
      Truthiness is `len(headers) != 0`. -/
  | mapping (es : List Entry) (ciGet : Bool) (getRaises itemsRaises : Option ExcKind)
  /-- not a Mapping, has a callable `.get`; `items = none`: no callable `.items`;
      `items = some r`: `.items()` raises `r` or yields `es`; `iterable`: `iter(headers)` works and
      yields `es` (only consulted when there is no `.items`). -/
  | getter (es : List Entry) (ciGet : Bool) (getRaises : Option ExcKind)
      (items : Option (Option ExcKind)) (iterable : Bool) (truthy : Bool)
  /-- no callable `.get`, iterable: list / tuple / str (`isIterator = false`, truthy iff non-empty)
      or an iterator / generator (`isIterator = true`, always truthy). -/
  | pairs (es : List Entry) (isIterator : Bool)
  /-- anything else (an int, an arbitrary object): iterating raises TypeError. -/
  | inert (truthy : Bool)
deriving Repr, Inhabited

/-- `bool(headers)` -/
def Headers.truthy : Headers → Bool
  | .absent => false
  | .mapping es _ _ _ => !es.isEmpty
  | .getter _ _ _ _ _ t => t
  | .pairs es it => it || !es.isEmpty
  | .inert t => t

/-- Does the entry answer `get(name)`?  Only a `str` key equals a `str`. -/
def Entry.keyIs (ci : Bool) (name : String) : Entry → Bool
  | .pair (.str k) _ => if ci then lowerL k == lowerL name else k == name
  | _ => false

/-- `headers.get(name)` on an entry list (default `None`). -/
def getEntry (ci : Bool) (es : List Entry) (name : String) : PyVal :=
  match es.find? (Entry.keyIs ci name) with
  | some (.pair _ v) => v
  | _ => .none

/-- the call `getter(name)` -/
def getCall (getRaises : Option ExcKind) (ci : Bool) (es : List Entry) (name : String) : Py PyVal :=
  match getRaises with
  | some k => .error k
  | none => .ok (getEntry ci es name)

/-- `for key, val in <items>: if str(key).lower() == name.lower(): return str(val)` then `return None` -/
def scanEntries (maxDigits : Nat) (name : String) : List Entry → Py (Option String)
  | [] => .ok none
  | .bad :: _ => .error .valueError
  | .pair k v :: rest =>
      match pyStr maxDigits k with
      | .error e => .error e
      | .ok ks =>
          if lowerL ks == lowerL name then (pyStr maxDigits v).map some
          else scanEntries maxDigits name rest

/-- The common prefix of the Mapping and getter branches:
```
value = get(name)
if value is None: value = get(name.lower())
if value is not None: return str(value)
```
`some s` = returned `s`; `none` = fell through to the scan. -/
def getPhase (maxDigits : Nat) (getRaises : Option ExcKind) (ci : Bool) (es : List Entry)
    (name : String) : Py (Option String) :=
  match getCall getRaises ci es name with                      -- value = get(name)
  | .error k => .error k
  | .ok v1 =>
    let second : Py PyVal :=                                   -- if value is None: value = get(name.lower())
      if v1.isNone then getCall getRaises ci es (pyLower name) else .ok v1
    match second with
    | .error k => .error k
    | .ok v =>
      if v.isNone then .ok none                                -- (fall through to the scan)
      else (pyStr maxDigits v).map some                        -- if value is not None: return str(value)

/-- `.items()` then the scan -/
def itemsScan (maxDigits : Nat) (itemsRaises : Option ExcKind) (es : List Entry) (name : String) :
    Py (Option String) :=
  match itemsRaises with
  | some k => .error k
  | none => scanEntries maxDigits name es

/-- `_lookup_header(headers, name)` -/
def lookupHeader (maxDigits : Nat) (headers : Headers) (name : String) : Py (Option String) :=
  match headers with
  | .absent => .ok none                                        -- if headers is None: return None
  | .mapping es ci getRaises itemsRaises =>                    -- if isinstance(headers, Mapping):
      tryExcept ExcKind.isException                            --   try: … except Exception: return None
        (match getPhase maxDigits getRaises ci es name with
         | .error k => .error k
         | .ok (some s) => .ok (some s)
         | .ok none => itemsScan maxDigits itemsRaises es name) none
  | .getter es ci getRaises items iterable _ =>
      -- first try-block: `some r` = it returned `r`, `none` = it fell through
      let first : Py (Option (Option String)) :=
        tryExcept ExcKind.isException
          (match getPhase maxDigits getRaises ci es name with
           | .error k => .error k
           | .ok (some s) => .ok (some (some s))
           | .ok none =>
              match items with                                 -- items = getattr(headers, "items", None)
              | some itemsRaises => (itemsScan maxDigits itemsRaises es name).map some
              | none => .ok none) (some none)
      match first with
      | .error k => .error k
      | .ok (some r) => .ok r
      | .ok none =>
          -- second try-block: `for key, val in headers`
          if iterable then tryExcept ExcKind.isException (scanEntries maxDigits name es) none
          else .ok none                                        -- TypeError: not iterable → None
  | .pairs es _ => tryExcept ExcKind.isException (scanEntries maxDigits name es) none
  | .inert _ => .ok none                                      -- TypeError: not iterable → None

/-! ## `_coerce_retry_after`, `http_retry_after_classifier` -/

/-- What the code reads off the exception. -/
structure ExcRec where
  /-- `getattr(exc, "retry_after", None)` -/
  retryAfter : PyVal := .none
  /-- `getattr(exc, "headers", None)` -/
  headers : Headers := .absent
  /-- `getattr(exc, "response", None)`: `none` = absent / None; `some h` = an object whose
      `getattr(response, "headers", None)` is `h` -/
  response : Option Headers := none
deriving Repr, Inhabited

/-- `try: return max(0.0, float(direct))  except OverflowError: return None` -/
def directNumber (f : Py PyFloat) : Py (Option PyFloat) :=
  tryExcept overflowCatches (f.map (fun x => some (pyMax0 x))) none

/-- `getattr(exc, "headers", None) or getattr(response, "headers", None)` -/
def ExcRec.pickHeaders (exc : ExcRec) : Headers :=
  if exc.headers.truthy then exc.headers
  else match exc.response with
    | none => .absent
    | some h => h

/-- the part of `_coerce_retry_after` after the `direct` attribute -/
def coerceFromHeaders (maxDigits : Nat) (exc : ExcRec) (dateOracle : String → DateAns) (now : Int) :
    Py (Option PyFloat) :=
  match lookupHeader maxDigits exc.pickHeaders "Retry-After" with
  | .error k => .error k
  | .ok none => .ok none                                       -- if header_val is None: return None
  | .ok (some hv) => parseRetryAfter maxDigits hv dateOracle now

/-- `_coerce_retry_after(exc)` -/
def coerceRetryAfter (maxDigits : Nat) (exc : ExcRec) (dateOracle : String → DateAns) (now : Int) :
    Py (Option PyFloat) :=
  match exc.retryAfter with
  -- isinstance(direct, int | float): bool is an int
  | .bool b => directNumber (.ok (.fin (if b then 1 else 0)))
  | .int z => directNumber (floatOfInt z)
  | .float f _ => directNumber (.ok f)
  | .str s =>                                                  -- isinstance(direct, str)
      match parseRetryAfter maxDigits s dateOracle now with
      | .error k => .error k
      | .ok (some p) => .ok (some p)                           -- if parsed is not None: return parsed
      | .ok none => coerceFromHeaders maxDigits exc dateOracle now
  | .none | .other _ => coerceFromHeaders maxDigits exc dateOracle now

/-- `ErrorClass | Classification` -/
inductive ClassifierResult
  | bare (k : EClass)
  | classification (k : EClass) (retryAfterS : PyFloat)
deriving DecidableEq, Repr, Inhabited

/-- `http_retry_after_classifier(exc)`, given `klass = http_classifier(exc)`. -/
def httpRetryAfterClassifier (maxDigits : Nat) (klass : EClass) (exc : ExcRec)
    (dateOracle : String → DateAns) (now : Int) : Py ClassifierResult :=
  if klass ≠ .rateLimit then .ok (.bare klass)                 -- if klass is not RATE_LIMIT: return klass
  else
    match coerceRetryAfter maxDigits exc dateOracle now with
    | .error k => .error k
    | .ok none => .ok (.bare klass)                            -- if retry_after_s is None: return klass
    | .ok (some s) => .ok (.classification klass s)

/-! ## The C20 monitor (evaluated by the driver on the *implementation's* outputs as well) -/

/-- "never raises and yields either no hint or a non-negative number of seconds" -/
def specOk : Py (Option PyFloat) → Bool
  | .ok none => true
  | .ok (some h) => decide h.NonNeg
  | .error _ => false

/-- the same for the classifier's return value -/
def classifierSpecOk : Py ClassifierResult → Bool
  | .ok (.bare _) => true
  | .ok (.classification _ h) => decide h.NonNeg
  | .error _ => false

end Redress.RetryAfter
