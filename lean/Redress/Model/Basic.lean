/-
  Redress.Model.Basic — vocabulary shared by the runner / policy models.

  Time is `Nat` microseconds.  The environment is an *answer stream* consumed on demand by
  `ask`; every user-visible callback invocation is a `Req`.  See DESIGN.md §2.
-/

namespace Redress

/-- `redress.errors.ErrorClass` -/
inductive EClass
  | auth | permission | permanent | concurrency | rateLimit | serverError | transient | unknown
deriving DecidableEq, Repr, Inhabited

def EClass.all : List EClass :=
  [.auth, .permission, .permanent, .concurrency, .rateLimit, .serverError, .transient, .unknown]

def EClass.name : EClass → String
  | .auth => "AUTH" | .permission => "PERMISSION" | .permanent => "PERMANENT"
  | .concurrency => "CONCURRENCY" | .rateLimit => "RATE_LIMIT" | .serverError => "SERVER_ERROR"
  | .transient => "TRANSIENT" | .unknown => "UNKNOWN"

def EClass.ofName? (s : String) : Option EClass := EClass.all.find? (·.name == s)

/-- PERMANENT, AUTH, PERMISSION: never retried (`state.py::_handle_failure`). -/
def EClass.nonRetryable : EClass → Bool
  | .permanent | .auth | .permission => true
  | _ => false

/-- `redress.errors.StopReason` -/
inductive StopReason
  | maxAttemptsGlobal | maxAttemptsPerClass | deadlineExceeded | maxUnknownAttempts
  | nonRetryableClass | noStrategy | budgetExhausted | scheduled | aborted
deriving DecidableEq, Repr, Inhabited

def StopReason.name : StopReason → String
  | .maxAttemptsGlobal => "MAX_ATTEMPTS_GLOBAL" | .maxAttemptsPerClass => "MAX_ATTEMPTS_PER_CLASS"
  | .deadlineExceeded => "DEADLINE_EXCEEDED" | .maxUnknownAttempts => "MAX_UNKNOWN_ATTEMPTS"
  | .nonRetryableClass => "NON_RETRYABLE_CLASS" | .noStrategy => "NO_STRATEGY"
  | .budgetExhausted => "BUDGET_EXHAUSTED" | .scheduled => "SCHEDULED" | .aborted => "ABORTED"

/-- `FailureCause = Literal["exception", "result"]` -/
inductive Cause | exception | result
deriving DecidableEq, Repr, Inhabited

def Cause.name : Cause → String
  | .exception => "exception" | .result => "result"

/-- `redress.events.EventName` -/
inductive Event
  | success | retry | permanentFail | deadlineExceeded | maxAttemptsExceeded
  | maxUnknownAttemptsExceeded | noStrategyConfigured | budgetExhausted | scheduled | aborted
  | circuitOpened | circuitHalfOpen | circuitClosed | circuitRejected
deriving DecidableEq, Repr, Inhabited

def Event.name : Event → String
  | .success => "success" | .retry => "retry" | .permanentFail => "permanent_fail"
  | .deadlineExceeded => "deadline_exceeded" | .maxAttemptsExceeded => "max_attempts_exceeded"
  | .maxUnknownAttemptsExceeded => "max_unknown_attempts_exceeded"
  | .noStrategyConfigured => "no_strategy_configured" | .budgetExhausted => "budget_exhausted"
  | .scheduled => "scheduled" | .aborted => "aborted"
  | .circuitOpened => "circuit_opened" | .circuitHalfOpen => "circuit_half_open"
  | .circuitClosed => "circuit_closed" | .circuitRejected => "circuit_rejected"

/-- `redress.sleep.SleepDecision`; `other` = a handler return value that is not a `SleepDecision`. -/
inductive SleepDecision | sleep | defer | abort | other
deriving DecidableEq, Repr, Inhabited

/-- `AttemptDecision` -/
inductive AttemptDecision | success | retry | raise | scheduled | aborted
deriving DecidableEq, Repr, Inhabited

def AttemptDecision.name : AttemptDecision → String
  | .success => "success" | .retry => "retry" | .raise => "raise"
  | .scheduled => "scheduled" | .aborted => "aborted"

/-- `redress.circuit.CircuitState` -/
inductive CState | closed | opened | halfOpen
deriving DecidableEq, Repr, Inhabited

def CState.name : CState → String
  | .closed => "closed" | .opened => "open" | .halfOpen => "half_open"

/-- `Classification(klass, retry_after_s)`; `retryAfter` in µs (may be negative). -/
structure Classification where
  klass : EClass
  retryAfter : Option Int := none
deriving DecidableEq, Repr, Inhabited

/-- Fields of a `RetryExhaustedError`. -/
structure ExhaustedFields where
  stop : StopReason
  attempts : Nat
  lastClass : Option EClass
  lastExc : Option String      -- `Exn.ref`
  lastResult : Option Nat
  nextSleep : Option Nat
deriving DecidableEq, Repr, Inhabited

/--
What a callback — or the run itself — can raise.  The first group are objects created by the
*environment* (identity = `id`); the second group are raised by the library; the third group
derive from `BaseException` only.  `stuck` is model-only (oracle exhausted / ill-shaped answer).
-/
inductive Exn
  | ordinary (id : Nat) (dk : EClass)     -- any other `Exception`; `dk` = what default_classifier says
  | abort (id : Nat)                      -- AbortRetryError raised by the environment
  | exhausted (id : Nat) (lastClass : Option EClass) -- RetryExhaustedError raised by the environment
  | circuitOpen (id : Nat)                -- CircuitOpenError raised by the environment (nested policy)
  | libAbort                              -- AbortRetryError() raised by the library
  | libExhausted (f : ExhaustedFields)    -- RetryExhaustedError(...) raised by the library
  | libCircuitOpen (st : CState)          -- CircuitOpenError(state) raised by check_breaker
  | libValueError                         -- "sleep handler must return a SleepDecision."
  | libRuntimeError                       -- "Retry attempts exhausted with no captured exception"
  | cancelled | keyboardInterrupt | systemExit | generatorExit
  | stuck
deriving DecidableEq, Repr, Inhabited

namespace Exn

/-- `isinstance(e, Exception)` -/
def isException : Exn → Bool
  | .cancelled | .keyboardInterrupt | .systemExit | .generatorExit | .stuck => false
  | _ => true

def isAbort : Exn → Bool
  | .abort _ | .libAbort => true
  | _ => false

def isExhausted : Exn → Bool
  | .exhausted .. | .libExhausted _ => true
  | _ => false

def isCircuitOpen : Exn → Bool
  | .circuitOpen _ | .libCircuitOpen _ => true
  | _ => false

/-- `(KeyboardInterrupt, SystemExit)` -/
def isKiSe : Exn → Bool
  | .keyboardInterrupt | .systemExit => true
  | _ => false

/-- the cancellation-type exceptions of C13 -/
def isCancelKind : Exn → Bool
  | .cancelled | .keyboardInterrupt | .systemExit | .generatorExit => true
  | _ => false

/-- `exc.last_class` of a RetryExhaustedError -/
def exhaustedClass : Exn → Option EClass
  | .exhausted _ k => k
  | .libExhausted f => f.lastClass
  | _ => none

/-- Python-side identity used in requests that receive the exception object. -/
def ref : Exn → String
  | .ordinary id _ => s!"o{id}"
  | .abort id => s!"a{id}"
  | .exhausted id _ => s!"x{id}"
  | .circuitOpen id => s!"c{id}"
  | .libAbort => "libAbort"
  | .libExhausted _ => "libExhausted"
  | .libCircuitOpen _ => "libCircuitOpen"
  | .libValueError => "libValueError"
  | .libRuntimeError => "libRuntimeError"
  | .cancelled => "cancelled" | .keyboardInterrupt => "keyboardInterrupt"
  | .systemExit => "systemExit" | .generatorExit => "generatorExit" | .stuck => "stuck"

/-- `type(exc).__name__` as the harness defines its exception classes -/
def typeName : Exn → String
  | .ordinary id dk =>
    -- the harness builds every token with `id % 3 ≠ 0 ∧ id % 4 = 1` (except TRANSIENT) from ONE shared type `XGEN`
    -- whose class is carried by the instance (`status`), cf. `harness/loopenv.py::make_exception`
    if id % 3 != 0 && id % 4 == 1 && dk != .transient then "XGEN" else "X" ++ dk.name
  | .abort _ | .libAbort => "AbortRetryError"
  | .exhausted .. | .libExhausted _ => "RetryExhaustedError"
  | .circuitOpen _ | .libCircuitOpen _ => "CircuitOpenError"
  | .libValueError => "ValueError"
  | .libRuntimeError => "RuntimeError"
  | .cancelled => "CancelledError" | .keyboardInterrupt => "KeyboardInterrupt"
  | .systemExit => "SystemExit" | .generatorExit => "GeneratorExit" | .stuck => "Stuck"

end Exn

/-- Which registered strategy is invoked. -/
inductive SKey | default | cls (k : EClass)
deriving DecidableEq, Repr, Inhabited

/-- Signature style of a registered strategy (`strategies.py::_normalize_strategy`). -/
inductive SKind | ctx | legacy
deriving DecidableEq, Repr, Inhabited

/-- Where a handler / hook / sleeper was supplied. `dflt` = `time.sleep` / `asyncio.sleep`. -/
inductive Lvl | call | policy | dflt
deriving DecidableEq, Repr, Inhabited

def Lvl.name : Lvl → String
  | .call => "call" | .policy => "policy" | .dflt => "default"

/-- What a strategy sees. -/
structure BackoffCtx where
  attempt : Nat
  klass : EClass
  retryAfter : Option Int      -- not visible to legacy strategies
  prev : Option Nat
  remaining : Nat              -- not visible to legacy strategies
  cause : Cause                -- not visible to legacy strategies
deriving DecidableEq, Repr, Inhabited

/-- The tag dictionary of an event (`state.py::emit`, `policy_helpers.py::_emit_breaker_event`). -/
structure Tags where
  klass : Option EClass := none
  err : Option String := none
  stop : Option StopReason := none
  cause : Option Cause := none
  operation : Option String := none
  state : Option CState := none
deriving DecidableEq, Repr, Inhabited

/-- `AttemptContext` as passed to attempt hooks (`elapsed_s` included). -/
structure AttemptCtx where
  attempt : Nat
  elapsed : Nat
  klass : Option EClass := none
  retryAfter : Option Int := none
  exc : Option String := none          -- `Exn.ref`
  result : Option Nat := none
  decision : Option AttemptDecision := none
  stop : Option StopReason := none
  cause : Option Cause := none
  sleep : Option Nat := none
deriving DecidableEq, Repr, Inhabited

/-- Every user-visible callback invocation, with the arguments it receives. -/
inductive Req
  | abortIf
  | attemptStart (c : AttemptCtx)
  | attemptEnd (c : AttemptCtx)
  | op (attempt : Nat)
  | classify (exc : String)
  | resultClassify (val : Nat)
  | strategy (key : SKey) (kind : SKind) (c : BackoffCtx)
  | stratRecordFailure (key : SKey) (k : EClass)
  | stratRecordSuccess (key : SKey)
  | sleepHandler (lvl : Lvl) (c : BackoffCtx) (d : Nat)
  | beforeSleep (lvl : Lvl) (c : BackoffCtx) (d : Nat)
  | sleeper (lvl : Lvl) (d : Nat)
  | metric (ev : Event) (attempt : Nat) (sleep : Nat) (tags : Tags)
  | log (ev : Event) (attempt : Nat) (sleep : Nat) (tags : Tags) (retryAfter : Option Int)
  -- interactions with the (real, embedded) components; answered by the component model, not the oracle
  | budgetConsume
  | breakerAllow | breakerSuccess | breakerFailure (k : EClass) | breakerCancel
deriving DecidableEq, Repr, Inhabited

/-- Strategy return values (`float`). -/
inductive SOut | nan | posInf | negInf | fin (us : Int)
deriving DecidableEq, Repr, Inhabited

/-- What the environment answers.  Every answer has a duration (µs). -/
inductive Ans
  | unit (dur : Nat)
  | bool (b : Bool) (dur : Nat)
  | value (v : Nat) (dur : Nat)                     -- the operation returned object `v`
  | klass (c : Classification) (dur : Nat)          -- classifier / result classifier: a failure class
  | noFailure (dur : Nat)                           -- result classifier returned None
  | delay (s : SOut) (dur : Nat)                    -- strategy return value
  | decision (d : SleepDecision) (dur : Nat)        -- sleep handler
  | raise (e : Exn) (dur : Nat)
  -- component answers (never taken from the oracle)
  | granted (b : Bool)
  | admit (allowed : Bool) (st : CState) (ev : Option Event)
  | recorded (ev : Option Event) (st : CState)
deriving DecidableEq, Repr, Inhabited

def Ans.dur : Ans → Nat
  | .unit d | .bool _ d | .value _ d | .klass _ d | .noFailure d | .delay _ d | .decision _ d
  | .raise _ d => d
  | .granted _ | .admit .. | .recorded .. => 0

/-- `TimelineEvent` -/
structure TimelineEv where
  attempt : Nat
  event : Event
  elapsed : Nat
  sleep : Nat
  klass : Option EClass
  stop : Option StopReason
  cause : Option Cause
deriving DecidableEq, Repr, Inhabited

/-- `RetryOutcome` (the timeline is kept in the world). -/
structure Outcome where
  ok : Bool
  value : Option Nat
  stop : Option StopReason
  attempts : Nat
  lastClass : Option EClass
  lastExc : Option String      -- `Exn.ref`
  lastResult : Option Nat
  cause : Option Cause
  elapsed : Nat
  nextSleep : Option Nat
deriving DecidableEq, Repr, Inhabited

end Redress
