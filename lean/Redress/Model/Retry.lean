/-
  Redress.Model.Retry — the retry loop: `policy/state.py`, `policy/retry_helpers.py`,
  `policy/runner/logic.py`, `policy/runner/sync_core.py` (= `async_core.py` modulo await).

  Procedure by procedure, in the same order of effects as the Python source (tree as repaired by
  the `fix:` commits).  Style: small procedures, `match` in tail position.
-/
import Redress.Model.World

namespace Redress.Retry

open Redress

/-! ### state.py -/

def setStop (s : StopReason) : M Unit := modifyRS fun r => { r with lastStop := some s }

/-- `_TimelineCollector.record` -/
def recordTimeline (ev : Event) (attempt sleep : Nat) (tags : Tags) : M Unit :=
  modify fun w => { w with timeline :=
    { attempt, event := ev, elapsed := w.now - w.tlStart, sleep,
      klass := tags.klass, stop := tags.stop, cause := tags.cause } :: w.timeline }

def askMetric (ev : Event) (attempt sleep : Nat) (tags : Tags) : M Unit := do
  let _ ← askHook (.metric ev attempt sleep tags)
  pure ()

def askLog (ev : Event) (attempt sleep : Nat) (tags : Tags) (ra : Option Int) : M Unit := do
  let _ ← askHook (.log ev attempt sleep tags ra)
  pure ()

/-- The metric hook installed on `_RetryState`: with a timeline, `_resolve_timeline`'s composite. -/
def metricHook (cfg : Cfg) (tl : Bool) (ev : Event) (attempt sleep : Nat) (tags : Tags) : M Unit :=
  if tl then do
    recordTimeline ev attempt sleep tags
    if cfg.metric then askMetric ev attempt sleep tags else pure ()
  else if cfg.metric then askMetric ev attempt sleep tags
  else pure ()

/-- `_RetryState.emit` -/
def emit (cfg : Cfg) (tl : Bool) (ev : Event) (attempt sleep : Nat) (klass : Option EClass := none)
    (exc : Option Exn := none) (stop : Option StopReason := none) (cause : Option Cause := none)
    (cls : Option Classification := none) : M Unit := do
  let tags : Tags := { klass, err := exc.map Exn.typeName, stop, cause, operation := cfg.opTag }
  tryCatch (metricHook cfg tl ev attempt sleep tags) swallowException
  if cfg.log then
    let ra := if ev = .retry then cls.bind (·.retryAfter) else none
    tryCatch (askLog ev attempt sleep tags ra) swallowException
  else pure ()

/-- `_RetryState.check_abort` -/
def checkAbort (cfg : Cfg) (tl : Bool) (attempt : Nat) : M Unit :=
  if cfg.abortIf then do
    let a ← ask .abortIf
    match a with
    | .bool false _ => pure ()
    | .bool true _ => do
      setStop .aborted
      emit cfg tl .aborted attempt 0 (stop := some .aborted)
      throw .libAbort
    | _ => throw .stuck
  else pure ()

/-- `_RetryState.record_failure` -/
def recordFailure (c : Classification) (cause : Cause) (exc : Option Exn) (result : Option Nat) :
    M Unit :=
  modifyRS fun r =>
    { r with lastClass := some c.klass, lastClassification := some c, lastCause := some cause,
             lastExc := if cause = .exception then exc else none,
             lastResult := if cause = .exception then none else result }

/-- `_RetryState.record_success`: feeds an adaptive strategy -/
def recordStrategySuccess (cfg : Cfg) : M Unit := do
  let r ← getRS
  match r.lastStrategy with
  | none => pure ()
  | some key =>
    if cfg.records key then do
      let _ ← ask (.stratRecordSuccess key)
      pure ()
    else pure ()

/-- What `_handle_failure` returns. -/
inductive Decision
  | raise
  | retry (sleep : Nat) (ctx : BackoffCtx)
deriving DecidableEq, Repr, Inhabited

def Decision.isRaise : Decision → Bool
  | .raise => true
  | _ => false

/-- non-finite ↦ 0, `max 0`, `min remaining` -/
def sanitize (s : SOut) (remaining : Nat) : Nat :=
  match s with
  | .fin us => if us ≤ 0 then 0 else min us.toNat remaining
  | _ => 0

def callStrategy (key : SKey) (kind : SKind) (ctx : BackoffCtx) : M SOut := do
  let a ← ask (.strategy key kind ctx)
  match a with
  | .delay s _ => pure s
  | _ => throw .stuck

def stratRecordFailure (cfg : Cfg) (key : SKey) (k : EClass) : M Unit :=
  if cfg.records key then do
    let _ ← ask (.stratRecordFailure key k)
    pure ()
  else pure ()

/-- `policy.budget.consume()` on the embedded budget; `true` when there is no budget. -/
def budgetConsume (cfg : Cfg) : M Bool :=
  match cfg.budget with
  | none => pure true
  | some bc => do
    let w ← get
    let (g, st) := Budget.consume bc w.budget w.now
    set { w with budget := st, trace := (Req.budgetConsume, Ans.granted g) :: w.trace }
    pure g

/-- terminal branch of `_handle_failure`: set the stop reason, emit, decide "raise" -/
def stopWith (cfg : Cfg) (tl : Bool) (s : StopReason) (ev : Event) (attempt : Nat) (k : EClass)
    (exc : Option Exn) (cause : Cause) : M Decision := do
  setStop s
  emit cfg tl ev attempt 0 (some k) exc (some s) (some cause)
  pure .raise

/-- `_handle_failure`, part 3: strategy call, sanitising, budget, `retry` event -/
def grantRetry (cfg : Cfg) (tl : Bool) (c : Classification) (attempt : Nat) (cause : Cause)
    (exc : Option Exn) (key : SKey) (kind : SKind) (remaining : Nat) : M Decision := do
  let r ← getRS
  let ctx : BackoffCtx := { attempt, klass := c.klass, retryAfter := c.retryAfter, prev := r.prevSleep,
                            remaining, cause }
  let out ← callStrategy key kind ctx
  let sleep := sanitize out remaining
  let granted ← budgetConsume cfg
  if granted then do
    modifyRS fun r => { r with prevSleep := some sleep }
    emit cfg tl .retry attempt sleep (some c.klass) exc none (some cause) (some c)
    pure (.retry sleep ctx)
  else
    stopWith cfg tl .budgetExhausted .budgetExhausted attempt c.klass exc cause

/-- `_handle_failure`, part 2: deadline, global cap, strategy selection -/
def handleFailure2 (cfg : Cfg) (tl : Bool) (c : Classification) (attempt : Nat) (cause : Cause)
    (exc : Option Exn) : M Decision := do
  let el ← elapsed
  if el > cfg.deadline then
    stopWith cfg tl .deadlineExceeded .deadlineExceeded attempt c.klass exc cause
  else if attempt ≥ cfg.maxAttempts then
    stopWith cfg tl .maxAttemptsGlobal .maxAttemptsExceeded attempt c.klass exc cause
  else
    match cfg.selectStrategy c.klass with
    | none => stopWith cfg tl .noStrategy .noStrategyConfigured attempt c.klass exc cause
    | some (key, kind) => do
      modifyRS fun r => { r with lastStrategy := some key }
      stratRecordFailure cfg key c.klass
      let el ← elapsed
      if cfg.deadline ≤ el then
        stopWith cfg tl .deadlineExceeded .deadlineExceeded attempt c.klass exc cause
      else
        grantRetry cfg tl c attempt cause exc key kind (cfg.deadline - el)

/-- `limit is not None and self.per_class_counts[klass] > limit` -/
def overPerClass (cfg : Cfg) (counts : EClass → Nat) (k : EClass) : Bool :=
  match cfg.perClass k with
  | some l => decide (counts k > l)
  | none => false

/-- `max_unknown_attempts is not None and self.unknown_attempts > max_unknown_attempts` -/
def overUnknown (cfg : Cfg) (n : Nat) : Bool :=
  match cfg.maxUnknown with
  | some m => decide (n > m)
  | none => false

/-- `_handle_failure`, the UNKNOWN branch -/
def handleUnknown (cfg : Cfg) (tl : Bool) (c : Classification) (attempt : Nat) (cause : Cause)
    (exc : Option Exn) : M Decision := do
  modifyRS fun r => { r with unknownAttempts := r.unknownAttempts + 1 }
  let r ← getRS
  if overUnknown cfg r.unknownAttempts then
    stopWith cfg tl .maxUnknownAttempts .maxUnknownAttemptsExceeded attempt c.klass exc cause
  else handleFailure2 cfg tl c attempt cause exc

/-- `_handle_failure`, part 1: per-class cap, non-retryable classes, UNKNOWN cap -/
def handleFailure1 (cfg : Cfg) (tl : Bool) (c : Classification) (attempt : Nat) (cause : Cause)
    (exc : Option Exn) : M Decision := do
  let r ← getRS
  if overPerClass cfg r.perClassCounts c.klass then
    stopWith cfg tl .maxAttemptsPerClass .maxAttemptsExceeded attempt c.klass exc cause
  else if c.klass.nonRetryable then
    stopWith cfg tl .nonRetryableClass .permanentFail attempt c.klass exc cause
  else if c.klass = .unknown then handleUnknown cfg tl c attempt cause exc
  else handleFailure2 cfg tl c attempt cause exc

/-- `per_class_counts[klass] += 1` -/
def bumpCount (f : EClass → Nat) (k : EClass) : EClass → Nat :=
  fun k' => if k' = k then f k' + 1 else f k'

/-- `_RetryState._handle_failure` -/
def handleFailure (cfg : Cfg) (tl : Bool) (c : Classification) (attempt : Nat) (cause : Cause)
    (exc : Option Exn) (result : Option Nat) : M Decision := do
  recordFailure c cause exc result
  modifyRS fun r => { r with perClassCounts := bumpCount r.perClassCounts c.klass }
  handleFailure1 cfg tl c attempt cause exc

def callClassifier (exc : Exn) : M Classification := do
  let a ← ask (.classify exc.ref)
  match a with
  | .klass c _ => pure c
  | _ => throw .stuck

/-- `_RetryState.handle_exception` -/
def handleException (cfg : Cfg) (tl : Bool) (exc : Exn) (attempt : Nat) : M Decision := do
  let c ← callClassifier exc
  handleFailure cfg tl c attempt .exception (some exc) none

/-! ### retry_helpers.py -/

/-- `_AttemptOutcome` -/
structure AOutcome where
  decision : AttemptDecision
  classification : Option Classification
  exc : Option Exn
  result : Option Nat
  cause : Option Cause
  stop : Option StopReason
  sleep : Option Nat
deriving Repr, Inhabited

/-- `_build_outcome` -/
def buildOutcome (ok : Bool) (value : Option Nat) (attempts : Nat) (nextSleep : Option Nat := none) :
    M Outcome := do
  let r ← getRS
  let el ← elapsed
  pure { ok, value := if ok then value else none,
         stop := if ok then none else r.lastStop,
         attempts,
         lastClass := if ok then none else r.lastClass,
         lastExc := if !ok && r.lastCause = some .exception then r.lastExc.map Exn.ref else none,
         lastResult := if !ok && r.lastCause = some .result then r.lastResult else none,
         cause := if ok then none else r.lastCause,
         elapsed := el, nextSleep }

/-- `if state.last_stop_reason is not ABORTED: set + emit aborted` -/
def emitAbortedOnce (cfg : Cfg) (tl : Bool) (attempt : Nat) : M Unit := do
  let r ← getRS
  if r.lastStop = some .aborted then pure ()
  else do
    setStop .aborted
    emit cfg tl .aborted attempt 0 (stop := some .aborted)

/-- `_abort_outcome` -/
def abortOutcome (cfg : Cfg) (tl : Bool) (attempts : Nat) : M Outcome := do
  emitAbortedOnce cfg tl attempts
  buildOutcome false none attempts

/-- `_call_attempt_start` -/
def callAttemptStart (cfg : Cfg) (attempt : Nat) : M Unit :=
  match cfg.attemptStart with
  | none => pure ()
  | some _ => do
    let el ← elapsed
    let _ ← ask (.attemptStart { attempt, elapsed := el })
    pure ()

/-- `_call_attempt_end` -/
def callAttemptEnd (cfg : Cfg) (attempt : Nat) (cls : Option Classification) (exc : Option Exn)
    (result : Option Nat) (decision : AttemptDecision) (stop : Option StopReason)
    (cause : Option Cause) (sleep : Option Nat) : M Unit :=
  match cfg.attemptEnd with
  | none => pure ()
  | some _ => do
    let el ← elapsed
    let _ ← ask (.attemptEnd { attempt, elapsed := el, klass := cls.map (·.klass),
                               retryAfter := cls.bind (·.retryAfter), exc := exc.map Exn.ref, result,
                               decision := some decision, stop, cause, sleep })
    pure ()

def callAttemptEndFromOutcome (cfg : Cfg) (attempt : Nat) (o : AOutcome) : M Unit :=
  callAttemptEnd cfg attempt o.classification o.exc o.result o.decision o.stop o.cause o.sleep

/-- `_finalize_attempt` -/
def finalizeAttempt (cfg : Cfg) (tl : Bool) (attempt : Nat) (d : Decision)
    (action : Option SleepDecision) (cls : Option Classification) (exc : Option Exn)
    (result : Option Nat) (cause : Option Cause) : M AOutcome := do
  let r ← getRS
  let mk (dec : AttemptDecision) (stop : Option StopReason) (sleep : Option Nat) : AOutcome :=
    { decision := dec, classification := cls, exc, result, cause, stop, sleep }
  match d with
  | .raise => pure (mk .raise r.lastStop none)
  | .retry sleep _ =>
    if action = some .defer then pure (mk .scheduled (some .scheduled) (some sleep))
    else if action = some .abort then pure (mk .aborted (some .aborted) none)
    else do
      let el ← elapsed
      if el > cfg.deadline then do
        setStop .deadlineExceeded
        emit cfg tl .deadlineExceeded attempt 0 r.lastClass exc (some .deadlineExceeded) cause
        pure (mk .raise (some .deadlineExceeded) none)
      else if attempt = cfg.maxAttempts then do
        setStop .maxAttemptsGlobal
        emit cfg tl .maxAttemptsExceeded attempt 0 r.lastClass exc (some .maxAttemptsGlobal) cause
        pure (mk .raise (some .maxAttemptsGlobal) none)
      else pure (mk .retry none (some sleep))

/-- `_handle_sleep_decision` -/
def handleSleepDecision (cfg : Cfg) (tl : Bool) (action : SleepDecision) (attempt sleep : Nat) :
    M SleepDecision :=
  match action with
  | .sleep => pure .sleep
  | .defer => do
    let r ← getRS
    setStop .scheduled
    emit cfg tl .scheduled attempt sleep r.lastClass r.lastExc (some .scheduled) r.lastCause
    pure .defer
  | .abort => do
    emitAbortedOnce cfg tl attempt
    pure .abort
  | .other => throw .libValueError

/-- `_call_before_sleep` -/
def callBeforeSleep (cfg : Cfg) (ctx : BackoffCtx) (sleep : Nat) : M Unit :=
  match cfg.beforeSleep with
  | none => pure ()
  | some lvl =>
    tryCatch (do let _ ← askHook (.beforeSleep lvl ctx sleep); pure ()) swallowException

def callSleeper (cfg : Cfg) (sleep : Nat) : M Unit := do
  let _ ← ask (.sleeper cfg.sleeper sleep)
  pure ()

def callSleepHandler (lvl : Lvl) (ctx : BackoffCtx) (sleep : Nat) : M SleepDecision := do
  let a ← ask (.sleepHandler lvl ctx sleep)
  match a with
  | .decision d _ => pure d
  | _ => throw .stuck

/-- `_sync_sleep_action` / `_async_sleep_action` -/
def sleepAction (cfg : Cfg) (tl : Bool) (attempt sleep : Nat) (ctx : BackoffCtx) : M SleepDecision :=
  match cfg.handler with
  | none => do
    callBeforeSleep cfg ctx sleep
    callSleeper cfg sleep
    pure .sleep
  | some lvl => do
    let action ← callSleepHandler lvl ctx sleep
    let r ← handleSleepDecision cfg tl action attempt sleep
    if r = .sleep then do
      callBeforeSleep cfg ctx sleep
      callSleeper cfg sleep
      pure r
    else pure r

/-- `_sync_failure_outcome` / `_async_failure_outcome` -/
def failureOutcome (cfg : Cfg) (tl : Bool) (attempt : Nat) (d : Decision)
    (cls : Option Classification) (exc : Option Exn) (result : Option Nat) (cause : Option Cause) :
    M AOutcome :=
  match d with
  | .raise => finalizeAttempt cfg tl attempt d none cls exc result cause
  | .retry sleep ctx => do
    let action ← sleepAction cfg tl attempt sleep ctx
    finalizeAttempt cfg tl attempt d (some action) cls exc result cause

/-! ### runner/logic.py -/

/-- `LoopAction` -/
inductive Action
  | continue_ | abort | raise
  | scheduled (f : ExhaustedFields)
deriving Repr, Inhabited

/-- `determine_action_from_outcome` -/
def determineAction (o : AOutcome) (r : RState) (attempt : Nat) (forResult : Bool) : Action :=
  match o.decision with
  | .retry => .continue_
  | .aborted => .abort
  | .scheduled =>
    .scheduled { stop := (o.stop <|> r.lastStop).getD .scheduled, attempts := attempt,
                 lastClass := r.lastClass,
                 lastExc := if forResult then none else r.lastExc.map refOf,
                 lastResult := if forResult then r.lastResult else none,
                 nextSleep := o.sleep }
  | _ =>
    if forResult then
      .scheduled { stop := (o.stop <|> r.lastStop).getD .maxAttemptsGlobal, attempts := attempt,
                   lastClass := r.lastClass, lastExc := none, lastResult := r.lastResult,
                   nextSleep := none }
    else .raise
where
  refOf : Exn → String := fun e => Exn.ref e

/-- `should_classify_result`: `none` = success -/
def shouldClassifyResult (cfg : Cfg) (v : Nat) : M (Option Classification) :=
  if cfg.resultClassifier then do
    let a ← ask (.resultClassify v)
    match a with
    | .noFailure _ => pure none
    | .klass c _ => pure (some c)
    | _ => throw .stuck
  else pure none

/-- `emit_success` + `_call_attempt_end(... SUCCESS ...)` -/
def handleSuccessAttemptEnd (cfg : Cfg) (tl : Bool) (attempt v : Nat) : M Unit := do
  recordStrategySuccess cfg
  emit cfg tl .success attempt 0
  callAttemptEnd cfg attempt none none (some v) .success none none none

/-- `_handle_abort_attempt_end` -/
def handleAbortAttemptEnd (cfg : Cfg) (attempt : Nat) (exc : Exn) : M Unit := do
  let a ← getAS
  if a.started && !a.endCalled then do
    callAttemptEnd cfg attempt a.classification (some exc) a.result .aborted (some .aborted) a.cause none
    modifyAS fun a => { a with endCalled := true }
  else pure ()

/-- `emit_max_attempts_exceeded` -/
def emitMaxAttemptsExceeded (cfg : Cfg) (tl : Bool) : M Unit := do
  let r ← getRS
  emit cfg tl .maxAttemptsExceeded cfg.maxAttempts 0 r.lastClass r.lastExc (some .maxAttemptsGlobal) r.lastCause
  setStop .maxAttemptsGlobal

/-- `raise_exhausted_call` -/
def raiseExhaustedCall (cfg : Cfg) : M Nat := do
  emitMaxAttemptsExceeded cfg false
  let r ← getRS
  if r.lastCause = some .result then
    throw (.libExhausted { stop := .maxAttemptsGlobal, attempts := cfg.maxAttempts,
                           lastClass := r.lastClass, lastExc := none, lastResult := r.lastResult,
                           nextSleep := none })
  else match r.lastExc with
    | some e => throw e
    | none => throw .libRuntimeError

/-! ### runner/sync_core.py, async_core.py -/

def invokeOp (_attempt : Nat) : M Nat := do
  modify fun w => { w with opCalls := w.opCalls + 1 }
  let w ← get
  let a ← ask (.op w.opCalls)
  match a with
  | .value v _ => pure v
  | _ => throw .stuck

/-- what follows `determine_action_from_outcome` in call mode -/
def deliverCall (act : Action) (orig : Option Exn) (fallback : ExhaustedFields) : M (Option Nat) :=
  match act with
  | .continue_ => pure none
  | .abort => throw .libAbort
  | .scheduled f => throw (.libExhausted f)
  | .raise => match orig with
    | some e => throw e
    | none => throw (.libExhausted fallback)

/-- the `except Exception as exc:` arm of `_run_sync_call` -/
def callExceptionPath (cfg : Cfg) (attempt : Nat) (e : Exn) : M (Option Nat) := do
  modifyAS fun a => { a with cause := some .exception }
  checkAbort cfg false attempt
  let d ← handleException cfg false e attempt
  let r ← getRS
  modifyAS fun a => { a with classification := r.lastClassification }
  if d.isRaise then pure () else checkAbort cfg false attempt
  let o ← failureOutcome cfg false attempt d r.lastClassification (some e) none (some .exception)
  callAttemptEndFromOutcome cfg attempt o
  modifyAS fun a => { a with endCalled := true }
  let r ← getRS
  deliverCall (determineAction o r attempt false) (some e) default

/-- the `except` ladder around `func()` in `_run_sync_call` -/
def callOpHandler (cfg : Cfg) (attempt : Nat) (e : Exn) : M (Option Nat) :=
  if e.isAbort then do
    handleAbortAttemptEnd cfg attempt e
    emitAbortedOnce cfg false attempt
    throw e
  else if e = .cancelled then throw e
  else if e.isKiSe then throw e
  else if e.isExhausted then throw e
  else if e.isException then callExceptionPath cfg attempt e
  else throw e

/-- result-based failure in call mode -/
def callResultFailure (cfg : Cfg) (attempt v : Nat) (c : Classification) : M (Option Nat) := do
  checkAbort cfg false attempt
  modifyAS fun a => { a with classification := some c, result := some v, cause := some .result }
  let d ← handleFailure cfg false c attempt .result none (some v)
  if d.isRaise then pure () else checkAbort cfg false attempt
  let o ← failureOutcome cfg false attempt d (some c) none (some v) (some .result)
  callAttemptEndFromOutcome cfg attempt o
  modifyAS fun a => { a with endCalled := true }
  let r ← getRS
  deliverCall (determineAction o r attempt true) none
    { stop := r.lastStop.getD .maxAttemptsGlobal, attempts := attempt, lastClass := r.lastClass,
      lastExc := none, lastResult := r.lastResult, nextSleep := none }

/-- after `func()` returned, call mode -/
def callResultPath (cfg : Cfg) (attempt v : Nat) : M (Option Nat) := do
  let c ← shouldClassifyResult cfg v
  match c with
  | none => do
    handleSuccessAttemptEnd cfg false attempt v
    pure (some v)
  | some c => callResultFailure cfg attempt v c

/-- one iteration of the `for attempt in range(...)` loop of `_run_sync_call`;
    `some v` = return `v`, `none` = `continue` -/
def callAttempt (cfg : Cfg) (attempt : Nat) : M (Option Nat) := do
  modify fun w => { w with as := {} }
  checkAbort cfg false (attempt - 1)
  callAttemptStart cfg attempt
  modifyAS fun a => { a with started := true }
  let r ← tryCatch (do let v ← invokeOp attempt; pure (Sum.inl v))
            (fun e => do let x ← callOpHandler cfg attempt e; pure (Sum.inr x))
  match r with
  | .inl v => callResultPath cfg attempt v
  | .inr x => pure x

def callLoop (cfg : Cfg) : (fuel : Nat) → (attempt : Nat) → M Nat
  | 0, _ => raiseExhaustedCall cfg
  | fuel + 1, attempt => do
    let r ← callAttempt cfg attempt
    match r with
    | some v => pure v
    | none => callLoop cfg fuel (attempt + 1)

/-- `_RetryState(...)`: a fresh state per call -/
def initState : M Unit :=
  modify fun w => { w with rs := { start := w.now }, as := {}, attempts := 0 }

/-- `_run_sync_call` / `_run_async_call` -/
def runCall (cfg : Cfg) : M Nat := do
  initState
  callLoop cfg cfg.maxAttempts 1

/-! #### execute -/

/-- what follows `determine_action_from_outcome` in execute mode -/
def deliverExecute (cfg : Cfg) (tl : Bool) (act : Action) (o : AOutcome) : M (Option Outcome) := do
  let w ← get
  match act with
  | .continue_ => pure none
  | .abort => do
    let out ← abortOutcome cfg tl w.attempts
    pure (some out)
  | _ => do
    let out ← buildOutcome false none w.attempts
              (if o.decision = .scheduled then o.sleep else none)
    pure (some out)

/-- result-based failure in execute mode -/
def execResultFailure (cfg : Cfg) (tl : Bool) (attempt v : Nat) (c : Classification) :
    M (Option Outcome) := do
  checkAbort cfg tl attempt
  modifyAS fun a => { a with classification := some c, result := some v, cause := some .result }
  let d ← handleFailure cfg tl c attempt .result none (some v)
  if d.isRaise then pure () else checkAbort cfg tl attempt
  let o ← failureOutcome cfg tl attempt d (some c) none (some v) (some .result)
  callAttemptEndFromOutcome cfg attempt o
  modifyAS fun a => { a with endCalled := true }
  let r ← getRS
  deliverExecute cfg tl (determineAction o r attempt true) o

/-- the `try:` body of `_run_sync_execute` up to and including `func()` -/
def execPre (cfg : Cfg) (tl : Bool) (attempt : Nat) : M Nat := do
  checkAbort cfg tl (attempt - 1)
  callAttemptStart cfg attempt
  modifyAS fun a => { a with started := true }
  modify fun w => { w with attempts := attempt }
  let v ← invokeOp attempt
  modifyAS fun a => { a with returned := true }
  pure v

/-- the rest of the `try:` body, after `func()` returned `v` -/
def execResultPath (cfg : Cfg) (tl : Bool) (attempt v : Nat) : M (Option Outcome) := do
  let c ← shouldClassifyResult cfg v
  match c with
  | none => do
    handleSuccessAttemptEnd cfg tl attempt v
    let out ← buildOutcome true (some v) attempt
    pure (some out)
  | some c => execResultFailure cfg tl attempt v c

def execAbortExit (cfg : Cfg) (tl : Bool) (attempt : Nat) (e : Exn) : M (Option Outcome) := do
  handleAbortAttemptEnd cfg attempt e
  let w ← get
  let out ← abortOutcome cfg tl w.attempts
  pure (some out)

/-- `try: state.check_abort(attempt) except AbortRetryError: …` — `true` when aborted -/
def abortToTrue (e : Exn) : M Bool := if e.isAbort then pure true else throw e

def checkAbortCaught (cfg : Cfg) (tl : Bool) (attempt : Nat) : M Bool :=
  tryCatch (do checkAbort cfg tl attempt; pure false) abortToTrue

def execExceptionPath3 (cfg : Cfg) (tl : Bool) (attempt : Nat) (e : Exn) (d : Decision) :
    M (Option Outcome) := do
  let r ← getRS
  let o ← failureOutcome cfg tl attempt d r.lastClassification (some e) none (some .exception)
  callAttemptEndFromOutcome cfg attempt o
  modifyAS fun a => { a with endCalled := true }
  let r ← getRS
  deliverExecute cfg tl (determineAction o r attempt false) o

def execExceptionPath2 (cfg : Cfg) (tl : Bool) (attempt : Nat) (e : Exn) : M (Option Outcome) := do
  let d ← handleException cfg tl e attempt
  let r ← getRS
  modifyAS fun a => { a with classification := r.lastClassification }
  if d.isRaise then execExceptionPath3 cfg tl attempt e d
  else do
    let aborted ← checkAbortCaught cfg tl attempt
    if aborted then execAbortExit cfg tl attempt e
    else execExceptionPath3 cfg tl attempt e d

/-- the `except Exception as exc:` arm of `_run_sync_execute`, when the operation itself raised
    (`attempt_state.returned` is false) -/
def execExceptionPath (cfg : Cfg) (tl : Bool) (attempt : Nat) (e : Exn) : M (Option Outcome) := do
  modifyAS fun a => { a with cause := some .exception }
  let aborted ← checkAbortCaught cfg tl attempt
  if aborted then execAbortExit cfg tl attempt e
  else execExceptionPath2 cfg tl attempt e

/-- the `except` ladder of `_run_sync_execute` for an exception raised before `func()` returned -/
def execHandler (cfg : Cfg) (tl : Bool) (attempt : Nat) (e : Exn) : M (Option Outcome) :=
  if e.isAbort then execAbortExit cfg tl attempt e
  else if e = .cancelled then throw e
  else if e.isKiSe then throw e
  else if e.isExhausted then throw e
  else if e.isException then execExceptionPath cfg tl attempt e
  else throw e

/-- the same ladder once `attempt_state.returned` is set: AbortRetryError still ends the run as
    aborted; every other arm re-raises (the `except Exception` arm because of the flag) -/
def execReturnedHandler (cfg : Cfg) (tl : Bool) (attempt : Nat) (e : Exn) : M (Option Outcome) :=
  if e.isAbort then execAbortExit cfg tl attempt e else throw e

/-- One iteration of the loop of `_run_sync_execute`.  The single Python `try` whose `except
    Exception` arm consults `attempt_state.returned` is written as two consecutive regions — before
    and after `func()` returns — which is the same control flow without the flag. -/
def execAttempt (cfg : Cfg) (tl : Bool) (attempt : Nat) : M (Option Outcome) := do
  modify fun w => { w with as := {} }
  let r ← tryCatch (do let v ← execPre cfg tl attempt; pure (Sum.inl v))
            (fun e => do let o ← execHandler cfg tl attempt e; pure (Sum.inr o))
  match r with
  | .inr o => pure o
  | .inl v => tryCatch (execResultPath cfg tl attempt v) (execReturnedHandler cfg tl attempt)

/-- `build_exhausted_outcome` -/
def buildExhaustedOutcome (cfg : Cfg) (tl : Bool) : M Outcome := do
  emitMaxAttemptsExceeded cfg tl
  let w ← get
  buildOutcome false none w.attempts

def execLoop (cfg : Cfg) (tl : Bool) : (fuel : Nat) → (attempt : Nat) → M Outcome
  | 0, _ => buildExhaustedOutcome cfg tl
  | fuel + 1, attempt => do
    let r ← execAttempt cfg tl attempt
    match r with
    | some o => pure o
    | none => execLoop cfg tl fuel (attempt + 1)

/-- `_run_sync_execute` / `_run_async_execute` -/
def runExecute (cfg : Cfg) : M Outcome := do
  modify fun w => { w with tlStart := w.now, timeline := [] }
  initState
  execLoop cfg cfg.timeline cfg.maxAttempts 1

end Redress.Retry
