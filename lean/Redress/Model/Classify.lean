/-
  Redress.Model.Classify — executable model of the built-in classifiers (property C19).

  Python sources modelled (read on the tree at /repo, statement by statement, same order of tests):

    src/redress/classify.py          `_classify`, `default_classifier`, `strict_classifier`
    src/redress/extras/http.py       `_coerce_status`, `http_classifier`
    src/redress/extras/sqlstate.py   `_SQLSTATE_RE`, `_extract_sqlstate`, `sqlstate_classifier`
    src/redress/extras/pyodbc.py     `_SQLSTATE_RE`, `_extract_sqlstate`, `pyodbc_classifier`
    src/redress/extras/{aiohttp,grpc,boto3,redis,urllib3}.py   — only the import-failure branch

  An exception object is a record of exactly the things those functions inspect:

    * five `isinstance` answers (builtin `TimeoutError`, and the four redress marker classes),
    * `type(err).__name__`,
    * the four attributes `status`, `status_code`, `code`, `sqlstate` (`getattr(…, None)`: an absent
      attribute and an attribute holding `None` are indistinguishable to the code, both are `.none`),
    * the `args` tuple.

  A Python value is abstracted to what the code can observe of it:

    * truthiness (`x or y`): `None`, `False`, `0`, `0.0`/`-0.0`, `""`, `b""`, empty containers are
      falsy; NaN, ±inf, every other number, non-empty strings/bytes/containers are truthy; a plain
      `object()` is truthy (the `obj` constructor carries the answer so that objects whose class
      defines `__bool__` can be represented too);
    * `isinstance(x, int)` — true for `bool` (`True == 1`, `False == 0`) and `int` only;
    * `isinstance(x, str)` and, for strings, their characters;
    * `str(x)` — only `sqlstate_classifier`/`pyodbc_classifier` call it, on a *truthy* `sqlstate`
      attribute.  It is modelled exactly for `None`/bools/ints/strings, and for floats by carrying the
      float's `repr` (so `sqlstate = 28.5` really is `"28.5"`, which starts with `"28"` → AUTH, as in
      Python).  For bytes, containers and plain objects `str()` begins with one of
      ``b [ ( { f d <`` (`b'…'`, `[…]`, `(…)`, `{…}`, `frozenset(…)`, `deque(…)`, `<… object at …>`);
      `Redress.Classify.sqlTable_of_head` (Lemmas) proves that *every* string whose first character
      is not one of `0 2 4 H` is mapped to UNKNOWN by the SQLSTATE table, so one fixed representative
      (`"<opaque>"`) is used for all of them.
    * `str(x)` can RAISE: CPython (3.11+) refuses to convert an `int` with more than 4300 decimal
      digits (`ValueError: Exceeds the limit (4300 digits) for integer string conversion`), the same
      error escapes from `str()` of a container that holds such an int, and `str()` of a list nested
      deeper than the recursion limit raises `RecursionError`.  `pyStr` therefore returns `none`
      (= "raised an `Exception`") for those.  On the tree as repaired by commits 12f78ca and
      fec6c4b (finding F9) both classifiers wrap the call in `try … except Exception` and answer
      UNKNOWN; the model does the same (`Found.strRaises ↦ .unknown`).  Before those commits the
      exception escaped from both classifiers.  An object whose `__str__` raises a
      `BaseException`-only kind (`KeyboardInterrupt`, …) would still escape; such objects are not
      among the property's "built-in values" and are not representable here.

  Strings: the model's `lower()` is ASCII lower-casing and the regex classes `\w`, `[0-9A-Z]` are the
  ASCII ones.  Python's are Unicode-aware (`"İ".lower()`, `\w` matching `é`); the model is tied to the
  implementation for printable-ASCII strings only (hypothesis "ASCII", DESIGN §7).

  No Mathlib; everything here is executable and linked into the `driver` executable.
-/
import Redress.Model.Basic

namespace Redress.Classify

open Redress

/-! ## Python values -/

/-- A Python `float`, as far as the classifiers can tell floats apart: NaN and the infinities, and
for finite floats their `repr` (e.g. `"28.5"`, `"0.0"`, `"-0.0"`, `"1e+16"`). -/
inductive PyFloat
  | nan | inf | negInf
  | fin (repr : String)
deriving DecidableEq, Repr, Inhabited

inductive PyVal
  | none
  | bool (b : Bool)
  | int (z : Int)
  | float (f : PyFloat)
  | str (s : String)
  | bytes (len : Nat)
  /-- list / tuple / dict / set …; `strOk = false` iff `str()` of it raises an `Exception` (it holds
      an int beyond CPython's int→str digit limit, or is nested beyond the recursion limit). -/
  | container (len : Nat) (strOk : Bool)
  /-- any other object; `truthy` is what `bool(x)` answers (`True` for a plain `object()`). -/
  | obj (truthy : Bool)
deriving DecidableEq, Repr, Inhabited

/-- `bool(f)` for a float: only `0.0` and `-0.0` are falsy (NaN is truthy). -/
def PyFloat.truthy : PyFloat → Bool
  | .fin r => !(r.toList == ['0', '.', '0'] || r.toList == ['-', '0', '.', '0'])
  | _ => true

/-- Python truthiness, as used by `a or b`. -/
def PyVal.truthy : PyVal → Bool
  | .none => false
  | .bool b => b
  | .int z => decide (z ≠ 0)
  | .float f => f.truthy
  | .str s => decide (s.toList ≠ [])
  | .bytes n => decide (n ≠ 0)
  | .container n _ => decide (n ≠ 0)
  | .obj t => t

/-- `isinstance(x, int)`, returning the integer value: bools are ints (`True == 1`, `False == 0`). -/
def PyVal.asInt : PyVal → Option Int
  | .bool b => some (if b then 1 else 0)
  | .int z => some z
  | _ => Option.none

/-- `x or y` -/
def PyVal.or (x y : PyVal) : PyVal := if x.truthy then x else y

/-- CPython's default `sys.get_int_max_str_digits()` is 4300: `str(n)` raises `ValueError` iff
`abs(n) ≥ 10 ** 4300`. -/
def intStrLimit : Nat := 10 ^ 4300

/-- representative of `str(x)` for bytes / containers / plain objects (see the file header). -/
def opaqueStr : List Char := ['<', 'o', 'p', 'a', 'q', 'u', 'e', '>']

/-- `str(x)`; `none` = raises an `Exception` (`ValueError` of the int→str digit limit, `RecursionError`). -/
def pyStr : PyVal → Option (List Char)
  | .none => some "None".toList
  | .bool true => some "True".toList
  | .bool false => some "False".toList
  | .int z => if z.natAbs < intStrLimit then some (toString z).toList else none
  | .float .nan => some "nan".toList
  | .float .inf => some "inf".toList
  | .float .negInf => some "-inf".toList
  | .float (.fin r) => some r.toList
  | .str s => some s.toList
  | .bytes _ => some opaqueStr
  | .container _ ok => if ok then some opaqueStr else none
  | .obj _ => some opaqueStr

/-! ## Exception objects -/

structure PyExc where
  /-- `isinstance(err, TimeoutError)` (the builtin) -/
  isTimeout : Bool := false
  /-- `isinstance(err, PermanentError)` -/
  isPermanent : Bool := false
  /-- `isinstance(err, RateLimitError)` -/
  isRateLimit : Bool := false
  /-- `isinstance(err, ConcurrencyError)` -/
  isConcurrency : Bool := false
  /-- `isinstance(err, ServerError)` -/
  isServer : Bool := false
  /-- `type(err).__name__` -/
  tname : String := "Exception"
  status : PyVal := .none
  statusCode : PyVal := .none
  code : PyVal := .none
  sqlstate : PyVal := .none
  args : List PyVal := []
deriving DecidableEq, Repr, Inhabited

/-- no marker base class at all -/
def PyExc.noMarker (e : PyExc) : Bool :=
  !e.isTimeout && !e.isPermanent && !e.isRateLimit && !e.isConcurrency && !e.isServer

/-! ## `classify.py` -/

/-- The `isinstance` ladder at the top of `_classify`, in source order. -/
def markerClass (e : PyExc) : Option EClass :=
  if e.isTimeout then some .transient
  else if e.isPermanent then some .permanent
  else if e.isRateLimit then some .rateLimit
  else if e.isConcurrency then some .concurrency
  else if e.isServer then some .serverError
  else none

/-- The body of `if isinstance(code, int):` in `_classify`; `none` = fell through. -/
def codeTable (z : Int) : Option EClass :=
  if z = 401 then some .auth
  else if z = 403 then some .permission
  else if z = 400 ∨ z = 404 ∨ z = 422 then some .permanent
  else if z = 409 then some .concurrency
  else if z = 408 then some .transient
  else if z = 429 then some .rateLimit
  else if 500 ≤ z ∧ z < 600 then some .serverError
  else none

/-- `code = getattr(err, "status", None) or getattr(err, "code", None)` -/
def codeOf (e : PyExc) : PyVal := e.status.or e.code

/-- ASCII `str.lower()` -/
def asciiLower (s : List Char) : List Char := s.map Char.toLower

/-- `pat in s` for strings (substring test). -/
def hasInfix (pat : List Char) : List Char → Bool
  | [] => pat.isEmpty
  | c :: cs => pat.isPrefixOf (c :: cs) || hasInfix pat cs

/-- The `if use_name_heuristics:` block; argument is `type(err).__name__`. `none` = fell through. -/
def nameClass (tname : String) : Option EClass :=
  let name := asciiLower tname.toList
  if hasInfix "auth".toList name || hasInfix "unauthoriz".toList name
      || hasInfix "credential".toList name then some .auth
  else if hasInfix "forbid".toList name || hasInfix "permission".toList name then some .permission
  else if hasInfix "timeout".toList name || hasInfix "connection".toList name then some .transient
  else none

/-- `_classify(err, use_name_heuristics=…)` -/
def classify (useNames : Bool) (e : PyExc) : EClass :=
  match markerClass e with
  | some k => k
  | none =>
    match (codeOf e).asInt.bind codeTable with
    | some k => k
    | none =>
      match (if useNames then nameClass e.tname else none) with
      | some k => k
      | none => .unknown

/-- `default_classifier` -/
def default (e : PyExc) : EClass := classify true e

/-- `strict_classifier` -/
def strict (e : PyExc) : EClass := classify false e

/-! ## `extras/http.py` -/

/-- second loop of `_coerce_status`: first `arg` with `isinstance(arg, int) and 100 <= arg <= 599` -/
def firstStatusArg : List PyVal → Option Int
  | [] => none
  | a :: rest =>
    match a.asInt with
    | some z => if 100 ≤ z ∧ z ≤ 599 then some z else firstStatusArg rest
    | none => firstStatusArg rest

/-- `_coerce_status`: the first of `status`, `status_code`, `code` that is an `int` (a bool, or 0,
counts) wins; then the args. -/
def coerceStatus (e : PyExc) : Option Int :=
  match e.status.asInt with
  | some z => some z
  | none =>
    match e.statusCode.asInt with
    | some z => some z
    | none =>
      match e.code.asInt with
      | some z => some z
      | none => firstStatusArg e.args

/-- the table of `http_classifier` after `status is None` has been excluded -/
def httpTable (z : Int) : EClass :=
  if z = 401 ∨ z = 403 then (if z = 401 then .auth else .permission)
  else if z = 409 then .concurrency
  else if z = 429 then .rateLimit
  else if z = 408 then .transient
  else if 500 ≤ z ∧ z < 600 then .serverError
  else if z = 400 ∨ z = 404 then .permanent
  else .unknown

/-- `http_classifier` -/
def http (e : PyExc) : EClass :=
  match coerceStatus e with
  | none => default e
  | some z => httpTable z

/-! ## `extras/sqlstate.py`, `extras/pyodbc.py` -/

/-- ASCII `\w` -/
def isWord (c : Char) : Bool := c.isAlphanum || c == '_'

/-- the character class `[0-9A-Z]` -/
def isCode (c : Char) : Bool := c.isDigit || c.isUpper

/-- `([0-9A-Z]{5})\b` anchored at the head of the list (the leading `\b` is the caller's business):
five code characters followed by the end of the string or a non-word character. -/
def wordMatchHere (s : List Char) : Option (List Char) :=
  let m := s.take 5
  if m.length = 5 ∧ m.all isCode = true ∧ (s.drop 5).head?.all (fun x => !isWord x) = true
  then some m else none

/-- `re.compile(r"\b([0-9A-Z]{5})\b").search(s)` → `group(1)`; leftmost match.  `prevWord` says
whether the character before the current position is a word character (`false` at the start).
Since the first pattern character is a word character, the leading `\b` holds at a position iff the
previous character is not a word character. -/
def searchWord (prevWord : Bool) : List Char → Option (List Char)
  | [] => none
  | c :: cs =>
    match (if prevWord then none else wordMatchHere (c :: cs)) with
    | some m => some m
    | none => searchWord (isWord c) cs

/-- `\[([0-9A-Z]{5})\]` anchored at the head of the list. -/
def bracketMatchHere (s : List Char) : Option (List Char) :=
  let m := (s.drop 1).take 5
  if s.head? = some '[' ∧ m.length = 5 ∧ m.all isCode = true ∧ (s.drop 6).head? = some ']'
  then some m else none

/-- `re.compile(r"\[([0-9A-Z]{5})\]").search(s)` → `group(1)`; leftmost match. -/
def searchBracket : List Char → Option (List Char)
  | [] => none
  | c :: cs =>
    match bracketMatchHere (c :: cs) with
    | some m => some m
    | none => searchBracket cs

/-- `_extract_sqlstate(args)`: the first `str` argument in which the regex matches decides. -/
def extract (find : List Char → Option (List Char)) : List PyVal → Option (List Char)
  | [] => none
  | .str s :: rest =>
    match find s.toList with
    | some m => some m
    | none => extract find rest
  | _ :: rest => extract find rest

/-- the regex of `extras/sqlstate.py` -/
def findWord (s : List Char) : Option (List Char) := searchWord false s

/-- the regex of `extras/pyodbc.py` -/
def findBracket (s : List Char) : Option (List Char) := searchBracket s

/-- `str(sqlstate)` where `sqlstate = getattr(exc,"sqlstate",None) or _extract_sqlstate(args)` -/
inductive Found
  | none                        -- `sqlstate is None`
  | code (c : List Char)        -- `str(sqlstate)`
  | strRaises                   -- `str(sqlstate)` raised (an `Exception`)
deriving DecidableEq, Repr, Inhabited

def findSqlstate (find : List Char → Option (List Char)) (e : PyExc) : Found :=
  if e.sqlstate.truthy then
    match pyStr e.sqlstate with
    | some c => .code c
    | none => .strRaises
  else
    match extract find e.args with
    | some c => .code c
    | none => .none

def c40001 : List Char := ['4', '0', '0', '0', '1']
def c40P01 : List Char := ['4', '0', 'P', '0', '1']
def cHYT00 : List Char := ['H', 'Y', 'T', '0', '0']
def cHYT01 : List Char := ['H', 'Y', 'T', '0', '1']
def c08S01 : List Char := ['0', '8', 'S', '0', '1']
def c42000 : List Char := ['4', '2', '0', '0', '0']
def c42P01 : List Char := ['4', '2', 'P', '0', '1']

/-- The `if code in {…}` ladder shared (textually duplicated) by `sqlstate_classifier` and
`pyodbc_classifier`.  `code` is any string, not necessarily of length 5 (a string-valued
`sqlstate` attribute is used as is). -/
def sqlTable (code : List Char) : EClass :=
  if code = c40001 ∨ code = c40P01 then .concurrency
  else if (code = cHYT00 ∨ code = cHYT01 ∨ code = c08S01) ∨ ['0', '8'].isPrefixOf code then .transient
  else if ['2', '8'].isPrefixOf code then .auth
  else if code = c42000 ∨ code = c42P01 then .permanent
  else .unknown

/-- `sqlstate_classifier`.  `try: code = str(sqlstate)  except Exception: return UNKNOWN`. -/
def sqlstate (e : PyExc) : EClass :=
  match findSqlstate findWord e with
  | .none => default e
  | .code c => sqlTable c
  | .strRaises => .unknown

/-- `pyodbc_classifier`.  `except Exception: code = None`, and `code is None` falls to UNKNOWN. -/
def pyodbc (e : PyExc) : EClass :=
  match findSqlstate findBracket e with
  | .none => .unknown
  | .code c => sqlTable c
  | .strRaises => .unknown

/-! ## optional-library classifiers, library absent

Each of `aiohttp_classifier`, `grpc_classifier`, `boto3_classifier`, `redis_classifier`,
`urllib3_classifier` starts with

    try:    mod = importlib.import_module("<lib>…")
    except Exception:  return default_classifier(exc)

(read in all five files: same statement, nothing before it).  With the library absent
`import_module` raises `ModuleNotFoundError`, an `Exception`, so the call *is*
`default_classifier(exc)`.  What they do when the library is present is not modelled. -/

inductive Lib | aiohttp | grpc | boto3 | redis | urllib3
deriving DecidableEq, Repr, Inhabited

def Lib.name : Lib → String
  | .aiohttp => "aiohttp" | .grpc => "grpc" | .boto3 => "boto3" | .redis => "redis"
  | .urllib3 => "urllib3"

def Lib.all : List Lib := [.aiohttp, .grpc, .boto3, .redis, .urllib3]

/-- `<lib>_classifier(exc)` when `importlib.import_module` raises. -/
def optionalAbsent (_lib : Lib) (e : PyExc) : EClass := default e

/-! ## all classifiers behind one name -/

inductive Classifier
  | default | strict | http | sqlstate | pyodbc
  | optional (lib : Lib)
deriving DecidableEq, Repr, Inhabited

def run : Classifier → PyExc → EClass
  | .default, e => default e
  | .strict, e => strict e
  | .http, e => http e
  | .sqlstate, e => sqlstate e
  | .pyodbc, e => pyodbc e
  | .optional lib, e => optionalAbsent lib e

/-! ## which branch decided (for coverage measurement by the correspondence harness) -/

/-- `marker` / `code` / `name` / `fallback` for `_classify`. -/
def classifyBranch (useNames : Bool) (e : PyExc) : String :=
  match markerClass e with
  | some _ => "marker"
  | none =>
    match (codeOf e).asInt.bind codeTable with
    | some _ => "code"
    | none =>
      match (if useNames then nameClass e.tname else none) with
      | some _ => "name"
      | none => "fallback"

def httpBranch (e : PyExc) : String :=
  match e.status.asInt with
  | some _ => "attr-status"
  | none =>
    match e.statusCode.asInt with
    | some _ => "attr-status_code"
    | none =>
      match e.code.asInt with
      | some _ => "attr-code"
      | none =>
        match firstStatusArg e.args with
        | some _ => "arg"
        | none => "default/" ++ classifyBranch true e

def sqlBranch (find : List Char → Option (List Char)) (fallback : PyExc → String) (e : PyExc) :
    String :=
  match findSqlstate find e with
  | .none => fallback e
  | .code _ => if e.sqlstate.truthy then "attr" else "args"
  | .strRaises => "attr-str-raises"

def branch : Classifier → PyExc → String
  | .default, e => classifyBranch true e
  | .strict, e => classifyBranch false e
  | .http, e => httpBranch e
  | .sqlstate, e => sqlBranch findWord (fun e => "default/" ++ classifyBranch true e) e
  | .pyodbc, e => sqlBranch findBracket (fun _ => "fallback") e
  | .optional _, e => "absent/" ++ classifyBranch true e

/-! ## The documented table, stated independently of the code's control flow (the *specification*)

`Spec.expected cl e = some k` means: the documentation / property C19 promises class `k` for this
input; `none` means nothing is promised.  `Redress.C19.model_meets_spec` proves the model always
delivers what is promised; the driver evaluates `expected` for every record so that the harness can
judge the *implementation's* answer against it. -/

namespace Spec

/-- "Explicit redress error types" (and builtin TimeoutError), first match wins. -/
def marker (e : PyExc) : Option EClass :=
  if e.isTimeout then some .transient
  else if e.isPermanent then some .permanent
  else if e.isRateLimit then some .rateLimit
  else if e.isConcurrency then some .concurrency
  else if e.isServer then some .serverError
  else none

/-- rows common to `default_classifier` and `http_classifier`; "5xx" is read as "the hundreds
digit is 5" (`/` is floor division, as Python's `//`) -/
def statusRow (z : Int) : Option EClass :=
  if z / 100 = 5 then some .serverError
  else if z = 429 then some .rateLimit
  else if z = 409 then some .concurrency
  else if z = 408 then some .transient
  else if z = 404 ∨ z = 400 then some .permanent
  else if z = 403 then some .permission
  else if z = 401 then some .auth
  else none

/-- `default_classifier` also documents 422 -/
def defaultRow (z : Int) : Option EClass := if z = 422 then some .permanent else statusRow z

/-- "We look at `err.status` or `err.code`" -/
def numericCode (e : PyExc) : Option Int := (if e.status.truthy then e.status else e.code).asInt

def contains (pat : String) (name : List Char) : Bool := hasInfix pat.toList name

/-- documented name heuristics, on the lower-cased type name -/
def nameRow (tname : String) : Option EClass :=
  let n := asciiLower tname.toList
  if contains "auth" n || contains "unauthoriz" n || contains "credential" n then some .auth
  else if contains "forbid" n || contains "permission" n then some .permission
  else if contains "timeout" n || contains "connection" n then some .transient
  else none

def dflt (e : PyExc) : EClass :=
  ((marker e).orElse fun _ =>
    ((numericCode e).bind defaultRow).orElse fun _ => nameRow e.tname).getD .unknown

def strict (e : PyExc) : EClass :=
  ((marker e).orElse fun _ => (numericCode e).bind defaultRow).getD .unknown

/-- documented SQLSTATE codes; `none` for a code the documentation does not mention -/
def sqlRow (code : List Char) : Option EClass :=
  if code = "40001".toList ∨ code = "40P01".toList then some .concurrency
  else if code = "HYT00".toList ∨ code = "HYT01".toList ∨ code = "08S01".toList then some .transient
  else if code.take 2 = "08".toList then some .transient
  else if code.take 2 = "28".toList then some .auth
  else if code = "42000".toList ∨ code = "42P01".toList then some .permanent
  else none

/-- the SQLSTATE the classifier is documented to look at, when that is a string: the `sqlstate`
attribute if it is a non-empty string, else what the regex finds in the args. -/
def sqlCode (find : List Char → Option (List Char)) (e : PyExc) : Option (List Char) :=
  match e.sqlstate with
  | .str s => if s.toList ≠ [] then some s.toList else extract find e.args
  | v => if v.truthy then none else extract find e.args

def expected : Classifier → PyExc → Option EClass
  | .default, e => some (dflt e)
  | .strict, e => some (strict e)
  | .http, e => (coerceStatus e).bind statusRow
  | .sqlstate, e => (sqlCode findWord e).bind sqlRow
  | .pyodbc, e => (sqlCode findBracket e).bind sqlRow
  | .optional _, e => some (dflt e)

/-- the Lean-side judge of an observed answer -/
def ok (cl : Classifier) (e : PyExc) (out : EClass) : Bool :=
  match expected cl e with
  | some k => out == k
  | none => true

end Spec

end Redress.Classify
