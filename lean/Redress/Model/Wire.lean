/-
  Redress.Model.Wire — canonical text form of requests, answers, results (line protocol between
  the Python harness and the driver).  Tokens are space separated; `-` is None.
-/
import Redress.Model.World
import Redress.Model.Signature

namespace Redress.Wire

open Redress

def optTok (f : α → String) : Option α → String
  | none => "-"
  | some a => f a

def strTok (s : String) : String := if s.isEmpty then "~" else s
def boolTok (b : Bool) : String := if b then "1" else "0"

def skeyTok : SKey → String
  | .default => "default"
  | .cls k => "cls:" ++ k.name

def skindTok : SKind → String
  | .ctx => "ctx" | .legacy => "legacy"

def soutTok : SOut → String
  | .nan => "nan" | .posInf => "inf" | .negInf => "-inf" | .fin us => toString us

def sdTok : SleepDecision → String
  | .sleep => "sleep" | .defer => "defer" | .abort => "abort" | .other => "other"

def exhTok (f : ExhaustedFields) : String :=
  String.intercalate ":" [f.stop.name, toString f.attempts, optTok EClass.name f.lastClass,
    optTok id f.lastExc, optTok toString f.lastResult, optTok toString f.nextSleep]

def exnTok : Exn → String
  | .ordinary id dk => s!"ordinary:{id}:{dk.name}"
  | .abort id => s!"abort:{id}"
  | .exhausted id k => s!"exhausted:{id}:{optTok EClass.name k}"
  | .circuitOpen id => s!"circuitOpen:{id}"
  | .libAbort => "libAbort"
  | .libExhausted f => "libExhausted:" ++ exhTok f
  | .libCircuitOpen st => "libCircuitOpen:" ++ st.name
  | .libValueError => "libValueError"
  | .libRuntimeError => "libRuntimeError"
  | .cancelled => "cancelled" | .keyboardInterrupt => "keyboardInterrupt"
  | .systemExit => "systemExit" | .generatorExit => "generatorExit" | .stuck => "stuck"

def tagsToks (t : Tags) : List String :=
  [optTok EClass.name t.klass, optTok strTok t.err, optTok StopReason.name t.stop,
   optTok Cause.name t.cause, optTok strTok t.operation, optTok CState.name t.state]

/-- For legacy strategies the harness cannot see retry_after / remaining / cause: printed as `*`. -/
def bctxToks (legacy : Bool) (c : BackoffCtx) : List String :=
  [toString c.attempt, c.klass.name,
   if legacy then "*" else optTok toString c.retryAfter,
   optTok toString c.prev,
   if legacy then "*" else toString c.remaining,
   if legacy then "*" else c.cause.name]

def actxToks (c : AttemptCtx) : List String :=
  [toString c.attempt, toString c.elapsed, optTok EClass.name c.klass, optTok toString c.retryAfter,
   optTok id c.exc, optTok toString c.result, optTok AttemptDecision.name c.decision,
   optTok StopReason.name c.stop, optTok Cause.name c.cause, optTok toString c.sleep]

def reqToks : Req → List String
  | .abortIf => ["abortIf"]
  | .attemptStart c => "attemptStart" :: actxToks c
  | .attemptEnd c => "attemptEnd" :: actxToks c
  | .op n => ["op", toString n]
  | .classify e => ["classify", e]
  | .resultClassify v => ["resultClassify", toString v]
  | .strategy key kind c => ["strategy", skeyTok key, skindTok kind] ++ bctxToks (kind == .legacy) c
  | .stratRecordFailure key k => ["stratRecordFailure", skeyTok key, k.name]
  | .stratRecordSuccess key => ["stratRecordSuccess", skeyTok key]
  | .sleepHandler lvl c d => ["sleepHandler", lvl.name] ++ bctxToks false c ++ [toString d]
  | .beforeSleep lvl c d => ["beforeSleep", lvl.name] ++ bctxToks false c ++ [toString d]
  | .sleeper lvl d => ["sleeper", lvl.name, toString d]
  | .metric ev a s t => ["metric", ev.name, toString a, toString s] ++ tagsToks t
  | .log ev a s t ra => ["log", ev.name, toString a, toString s] ++ tagsToks t ++ [optTok toString ra]
  | .budgetConsume => ["budgetConsume"]
  | .breakerAllow => ["breakerAllow"]
  | .breakerSuccess => ["breakerSuccess"]
  | .breakerFailure k => ["breakerFailure", k.name]
  | .breakerCancel => ["breakerCancel"]

def ansToks : Ans → List String
  | .unit d => ["unit", toString d]
  | .bool b d => ["bool", boolTok b, toString d]
  | .value v d => ["value", toString v, toString d]
  | .klass c d => ["klass", c.klass.name, optTok toString c.retryAfter, toString d]
  | .noFailure d => ["noFailure", toString d]
  | .delay s d => ["delay", soutTok s, toString d]
  | .decision x d => ["decision", sdTok x, toString d]
  | .raise e d => ["raise", exnTok e, toString d]
  | .granted b => ["granted", boolTok b]
  | .admit a st ev => ["admit", boolTok a, st.name, optTok Event.name ev]
  | .recorded ev st => ["recorded", optTok Event.name ev, st.name]

def join (l : List String) : String := String.intercalate " " l

def exchangeLine (x : Req × Ans) : String := join (reqToks x.1) ++ " => " ++ join (ansToks x.2)

def outcomeToks (o : Outcome) : List String :=
  ["outcome", boolTok o.ok, optTok toString o.value, optTok StopReason.name o.stop, toString o.attempts,
   optTok EClass.name o.lastClass, optTok id o.lastExc, optTok toString o.lastResult,
   optTok Cause.name o.cause, toString o.elapsed, optTok toString o.nextSleep]

def tlToks (t : TimelineEv) : List String :=
  ["tl", toString t.attempt, t.event.name, toString t.elapsed, toString t.sleep,
   optTok EClass.name t.klass, optTok StopReason.name t.stop, optTok Cause.name t.cause]

/-! ### parsing -/

abbrev P := StateT (List String) Option

def tok : P String := fun
  | [] => none
  | t :: ts => some (t, ts)

def pNat : P Nat := do let t ← tok; t.toNat?
def pInt : P Int := do let t ← tok; t.toInt?
def pBool : P Bool := do
  let t ← tok
  match t with
  | "1" => pure true
  | "0" => pure false
  | _ => failure

def pOptWith (f : String → Option α) : P (Option α) := do
  let t ← tok
  if t == "-" then pure none else match f t with
    | some a => pure (some a)
    | none => failure

def unStr (s : String) : String := if s == "~" then "" else s

def stopOfName? (s : String) : Option StopReason :=
  [StopReason.maxAttemptsGlobal, .maxAttemptsPerClass, .deadlineExceeded, .maxUnknownAttempts,
   .nonRetryableClass, .noStrategy, .budgetExhausted, .scheduled, .aborted].find? (·.name == s)

def causeOfName? (s : String) : Option Cause :=
  [Cause.exception, .result].find? (·.name == s)

def eventOfName? (s : String) : Option Event :=
  [Event.success, .retry, .permanentFail, .deadlineExceeded, .maxAttemptsExceeded,
   .maxUnknownAttemptsExceeded, .noStrategyConfigured, .budgetExhausted, .scheduled, .aborted,
   .circuitOpened, .circuitHalfOpen, .circuitClosed, .circuitRejected].find? (·.name == s)

def cstateOfName? (s : String) : Option CState :=
  [CState.closed, .opened, .halfOpen].find? (·.name == s)

def lvlOfName? (s : String) : Option Lvl := [Lvl.call, .policy, .dflt].find? (·.name == s)

def decisionOfName? (s : String) : Option AttemptDecision :=
  [AttemptDecision.success, .retry, .raise, .scheduled, .aborted].find? (·.name == s)

def pVia (f : String → Option α) : P α := do
  let t ← tok
  match f t with
  | some a => pure a
  | none => failure

def skeyOf? (s : String) : Option SKey :=
  if s == "default" then some .default
  else if s.startsWith "cls:" then (EClass.ofName? (s.drop 4).toString).map SKey.cls
  else none

/-- `r.o.v.kr.ko.vk` -/
def sigOf? (s : String) : Option Sig :=
  match s.splitOn "." with
  | [r, o, v, kr, ko, vk] => do
    pure { req := ← r.toNat?, opt := ← o.toNat?, varargs := v == "1", kwReq := ← kr.toNat?,
           kwOpt := ← ko.toNat?, varkw := vk == "1" }
  | _ => none

/-- a strategy's kind: given outright (`ctx` / `legacy`) or as the shape of its signature
    (`sig=r.o.v.kr.ko.vk`), from which `normalizeSig` decides as `_normalize_strategy` does -/
def skindOf? (s : String) : Option SKind :=
  match s with
  | "ctx" => some .ctx
  | "legacy" => some .legacy
  | _ => if s.startsWith "sig=" then (sigOf? (s.drop 4).toString).bind normalizeSig else none

def soutOf? (s : String) : Option SOut :=
  match s with
  | "nan" => some .nan | "inf" => some .posInf | "-inf" => some .negInf
  | _ => s.toInt?.map SOut.fin

def sdOf? : String → Option SleepDecision
  | "sleep" => some .sleep | "defer" => some .defer | "abort" => some .abort | "other" => some .other
  | _ => none

def optField (f : String → Option α) (s : String) : Option (Option α) :=
  if s == "-" then some none else (f s).map some

def exnOf? (s : String) : Option Exn :=
  match s.splitOn ":" with
  | ["ordinary", id, dk] => do pure (.ordinary (← id.toNat?) (← EClass.ofName? dk))
  | ["abort", id] => do pure (.abort (← id.toNat?))
  | ["exhausted", id, k] => do pure (.exhausted (← id.toNat?) (← optField EClass.ofName? k))
  | ["circuitOpen", id] => do pure (.circuitOpen (← id.toNat?))
  | ["libAbort"] => some .libAbort
  | ["libExhausted", stop, attempts, lc, le, lr, ns] => do
    pure (.libExhausted { stop := ← stopOfName? stop, attempts := ← attempts.toNat?,
                          lastClass := ← optField EClass.ofName? lc,
                          lastExc := ← optField (fun x => some x) le,
                          lastResult := ← optField String.toNat? lr,
                          nextSleep := ← optField String.toNat? ns })
  | ["libCircuitOpen", st] => do pure (.libCircuitOpen (← cstateOfName? st))
  | ["libValueError"] => some .libValueError
  | ["libRuntimeError"] => some .libRuntimeError
  | ["cancelled"] => some .cancelled
  | ["keyboardInterrupt"] => some .keyboardInterrupt
  | ["systemExit"] => some .systemExit
  | ["generatorExit"] => some .generatorExit
  | ["stuck"] => some .stuck
  | _ => none

def pTags : P Tags := do
  let klass ← pOptWith EClass.ofName?
  let err ← pOptWith (fun s => some (unStr s))
  let stop ← pOptWith stopOfName?
  let cause ← pOptWith causeOfName?
  let operation ← pOptWith (fun s => some (unStr s))
  let state ← pOptWith cstateOfName?
  pure { klass, err, stop, cause, operation, state }

/-- `*` fields (legacy strategies) parse to defaults -/
def pBctx : P BackoffCtx := do
  let attempt ← pNat
  let klass ← pVia EClass.ofName?
  let raT ← tok
  let retryAfter ← (if raT == "*" || raT == "-" then pure none else match raT.toInt? with
                     | some i => pure (some i) | none => failure : P (Option Int))
  let prev ← pOptWith String.toNat?
  let remT ← tok
  let remaining ← (if remT == "*" then pure 0 else match remT.toNat? with
                     | some n => pure n | none => failure : P Nat)
  let cT ← tok
  let cause ← (if cT == "*" then pure Cause.exception else match causeOfName? cT with
                     | some c => pure c | none => failure : P Cause)
  pure { attempt, klass, retryAfter, prev, remaining, cause }

def pActx : P AttemptCtx := do
  let attempt ← pNat
  let elapsed ← pNat
  let klass ← pOptWith EClass.ofName?
  let retryAfter ← pOptWith String.toInt?
  let exc ← pOptWith (fun s => some s)
  let result ← pOptWith String.toNat?
  let decision ← pOptWith decisionOfName?
  let stop ← pOptWith stopOfName?
  let cause ← pOptWith causeOfName?
  let sleep ← pOptWith String.toNat?
  pure { attempt, elapsed, klass, retryAfter, exc, result, decision, stop, cause, sleep }

def pReq : P Req := do
  let t ← tok
  match t with
  | "abortIf" => pure .abortIf
  | "attemptStart" => do pure (.attemptStart (← pActx))
  | "attemptEnd" => do pure (.attemptEnd (← pActx))
  | "op" => do pure (.op (← pNat))
  | "classify" => do pure (.classify (← tok))
  | "resultClassify" => do pure (.resultClassify (← pNat))
  | "strategy" => do
    let key ← pVia skeyOf?
    let kind ← pVia skindOf?
    pure (.strategy key kind (← pBctx))
  | "stratRecordFailure" => do
    let key ← pVia skeyOf?
    pure (.stratRecordFailure key (← pVia EClass.ofName?))
  | "stratRecordSuccess" => do pure (.stratRecordSuccess (← pVia skeyOf?))
  | "sleepHandler" => do
    let lvl ← pVia lvlOfName?
    let c ← pBctx
    pure (.sleepHandler lvl c (← pNat))
  | "beforeSleep" => do
    let lvl ← pVia lvlOfName?
    let c ← pBctx
    pure (.beforeSleep lvl c (← pNat))
  | "sleeper" => do
    let lvl ← pVia lvlOfName?
    pure (.sleeper lvl (← pNat))
  | "metric" => do
    let ev ← pVia eventOfName?
    let a ← pNat
    let s ← pNat
    pure (.metric ev a s (← pTags))
  | "log" => do
    let ev ← pVia eventOfName?
    let a ← pNat
    let s ← pNat
    let t ← pTags
    pure (.log ev a s t (← pOptWith String.toInt?))
  | "budgetConsume" => pure .budgetConsume
  | "breakerAllow" => pure .breakerAllow
  | "breakerSuccess" => pure .breakerSuccess
  | "breakerFailure" => do pure (.breakerFailure (← pVia EClass.ofName?))
  | "breakerCancel" => pure .breakerCancel
  | _ => failure

def pAns : P Ans := do
  let t ← tok
  match t with
  | "unit" => do pure (.unit (← pNat))
  | "bool" => do
    let b ← pBool
    pure (.bool b (← pNat))
  | "value" => do
    let v ← pNat
    pure (.value v (← pNat))
  | "klass" => do
    let k ← pVia EClass.ofName?
    let ra ← pOptWith String.toInt?
    pure (.klass { klass := k, retryAfter := ra } (← pNat))
  | "noFailure" => do pure (.noFailure (← pNat))
  | "delay" => do
    let s ← pVia soutOf?
    pure (.delay s (← pNat))
  | "decision" => do
    let d ← pVia sdOf?
    pure (.decision d (← pNat))
  | "raise" => do
    let e ← pVia exnOf?
    pure (.raise e (← pNat))
  | "granted" => do pure (.granted (← pBool))
  | "admit" => do
    let a ← pBool
    let st ← pVia cstateOfName?
    pure (.admit a st (← pOptWith eventOfName?))
  | "recorded" => do
    let ev ← pOptWith eventOfName?
    pure (.recorded ev (← pVia cstateOfName?))
  | _ => failure

def pExchange : P (Req × Ans) := do
  let r ← pReq
  let arrow ← tok
  if arrow != "=>" then failure
  let a ← pAns
  pure (r, a)

def pOutcome : P Outcome := do
  let ok ← pBool
  let value ← pOptWith String.toNat?
  let stop ← pOptWith stopOfName?
  let attempts ← pNat
  let lastClass ← pOptWith EClass.ofName?
  let lastExc ← pOptWith (fun s => some s)
  let lastResult ← pOptWith String.toNat?
  let cause ← pOptWith causeOfName?
  let elapsed ← pNat
  let nextSleep ← pOptWith String.toNat?
  pure { ok, value, stop, attempts, lastClass, lastExc, lastResult, cause, elapsed, nextSleep }

def pTl : P TimelineEv := do
  let attempt ← pNat
  let event ← pVia eventOfName?
  let elapsed ← pNat
  let sleep ← pNat
  let klass ← pOptWith EClass.ofName?
  let stop ← pOptWith stopOfName?
  let cause ← pOptWith causeOfName?
  pure { attempt, event, elapsed, sleep, klass, stop, cause }

def words (s : String) : List String := (s.splitOn " ").filter (· ≠ "")

def runP (p : P α) (s : String) : Option α :=
  match p (words s) with
  | some (a, []) => some a
  | _ => none

end Redress.Wire
