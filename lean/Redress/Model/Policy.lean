/-
  Redress.Model.Policy — `policy/policy.py` (= `async_policy.py` modulo await and the extra
  `except asyncio.CancelledError` arm), `policy/execution.py`, `policy/policy_helpers.py`.
-/
import Redress.Model.Retry

namespace Redress.Policy

open Redress Redress.Retry

/-- `_emit_breaker_event` (uses the raw `on_metric`, never the timeline composite) -/
def emitBreakerEvent (cfg : Cfg) (ev : Option Event) (st : CState) (klass : Option EClass := none) :
    M Unit :=
  match ev with
  | none => pure ()
  | some ev => do
    let tags : Tags := { state := some st, klass, operation := cfg.opTag }
    if cfg.metric then tryCatch (askMetric ev 0 0 tags) swallowException else pure ()
    if cfg.log then tryCatch (askLog ev 0 0 tags none) swallowException else pure ()

/-- `breaker.allow()` on the embedded breaker, logged -/
def breakerAllow (bc : Breaker.Cfg) : M (Bool × CState × Option Event) := do
  let w ← get
  let (d, st) := Breaker.allow bc w.breaker w.now
  set { w with breaker := st, trace := (Req.breakerAllow, Ans.admit d.1 d.2.1 d.2.2) :: w.trace,
               xc := { w.xc with admitted := d.1 } }
  pure d

/-- `check_breaker` -/
def checkBreaker (cfg : Cfg) : M Unit :=
  match cfg.breaker with
  | none => pure ()
  | some bc => do
    let d ← breakerAllow bc
    emitBreakerEvent cfg d.2.2 d.2.1
    if d.1 then pure () else throw (.libCircuitOpen d.2.1)

/-- `record_success` -/
def recordSuccess (cfg : Cfg) : M Unit :=
  match cfg.breaker with
  | none => pure ()
  | some _ => do
    let w ← get
    let (ev, st) := Breaker.recordSuccess w.breaker
    set { w with breaker := st, xc := { w.xc with settled := true },
                 trace := (Req.breakerSuccess, Ans.recorded ev st.state) :: w.trace }
    emitBreakerEvent cfg ev st.state

/-- `record_cancel` -/
def recordCancel (cfg : Cfg) : M Unit :=
  match cfg.breaker with
  | none => pure ()
  | some _ =>
    modify fun w =>
      let st := Breaker.recordCancel w.breaker
      { w with breaker := st, xc := { w.xc with settled := true },
               trace := (Req.breakerCancel, Ans.recorded none st.state) :: w.trace }

/-- `record_failure` -/
def recordFailure (cfg : Cfg) (k : EClass) : M Unit :=
  match cfg.breaker with
  | none => pure ()
  | some bc => do
    let w ← get
    let (ev, st) := Breaker.recordFailure bc w.breaker k w.now
    set { w with breaker := st, xc := { w.xc with settled := true },
                 trace := (Req.breakerFailure k, Ans.recorded ev st.state) :: w.trace }
    emitBreakerEvent cfg ev st.state (some k)

/-- `ensure_settled` -/
def ensureSettled (cfg : Cfg) : M Unit := do
  let w ← get
  if w.xc.admitted && !w.xc.settled then recordCancel cfg else pure ()

/-- `default_classifier(exc)` on the harness's exception classes -/
def defaultClass : Exn → EClass
  | .ordinary _ dk => dk
  | _ => .unknown

/-- `classify_for_breaker` -/
def classifyForBreaker (cfg : Cfg) (e : Exn) : M EClass :=
  if cfg.hasRetry then do
    let c ← callClassifier e
    pure c.klass
  else pure (defaultClass e)

/-- `check_abort_no_retry` -/
def checkAbortNoRetry (cfg : Cfg) : M Bool :=
  if cfg.abortIf then do
    let a ← ask .abortIf
    match a with
    | .bool true _ => do
      recordCancel cfg
      pure true
    | .bool false _ => pure false
    | _ => throw .stuck
  else pure false

def xElapsed : M Nat := do
  let w ← get
  return w.now - w.xc.start

def noRetryStartHook (cfg : Cfg) : M Unit :=
  if cfg.cAttemptStart then do
    let el ← xElapsed
    let _ ← ask (.attemptStart { attempt := 1, elapsed := el })
    pure ()
  else pure ()

def noRetryEndHook (cfg : Cfg) (exc : Option Exn) (result : Option Nat) (d : AttemptDecision)
    (stop : Option StopReason) (cause : Option Cause) : M Unit :=
  if cfg.cAttemptEnd then do
    let el ← xElapsed
    let _ ← ask (.attemptEnd { attempt := 1, elapsed := el, exc := exc.map Exn.ref, result,
                               decision := some d, stop, cause })
    pure ()
  else pure ()

/-- `_call_without_retry` -/
def callWithoutRetry (cfg : Cfg) : M Nat := do
  noRetryStartHook cfg
  let v ← invokeOp 1
  noRetryEndHook cfg none (some v) .success none none
  pure v

/-- `_handle_abort_call` -/
def handleAbortCall (cfg : Cfg) (e : Exn) : M Unit := do
  if !cfg.hasRetry then noRetryEndHook cfg (some e) none .aborted (some .aborted) none else pure ()
  recordCancel cfg

/-- `_handle_exhausted_call` -/
def handleExhaustedCall (cfg : Cfg) (e : Exn) : M Unit :=
  recordFailure cfg (e.exhaustedClass.getD .unknown)

/-- `_handle_exception_call` (`onEnd = false` when called with `on_end=None`) -/
def handleExceptionCall (cfg : Cfg) (e : Exn) (onEnd : Bool) : M Unit :=
  if e.isCircuitOpen then pure ()
  else do
    if !cfg.hasRetry && onEnd then noRetryEndHook cfg (some e) none .raise none (some .exception)
    else pure ()
    let k ← classifyForBreaker cfg e
    recordFailure cfg k

/-- the `except` ladder of `Policy.call` / `AsyncPolicy.call` -/
def callLadder (cfg : Cfg) (e : Exn) : M Nat :=
  if cfg.isAsync && e = .cancelled then do recordCancel cfg; throw e
  else if e.isKiSe then do recordCancel cfg; throw e
  else if e.isAbort then do handleAbortCall cfg e; throw e
  else if e.isExhausted then do handleExhaustedCall cfg e; throw e
  else if e.isException then do handleExceptionCall cfg e true; throw e
  else throw e

def callAdmitted (cfg : Cfg) : M Nat := do
  checkBreaker cfg
  let aborted ← if cfg.hasRetry then pure false else checkAbortNoRetry cfg
  if aborted then throw .libAbort
  else
    tryCatch (do
        let v ← if cfg.hasRetry then runCall cfg else callWithoutRetry cfg
        recordSuccess cfg
        pure v)
      (callLadder cfg)

def initCtx : M Unit := modify fun w => { w with xc := { start := w.now } }

/-- `Policy.call` / `AsyncPolicy.call` -/
def call (cfg : Cfg) : M Nat := do
  initCtx
  withFinally (callAdmitted cfg) (ensureSettled cfg)

/-! ### execute -/

def policyOutcome (ok : Bool) (value : Option Nat) (stop : Option StopReason) (attempts : Nat)
    (lastClass : Option EClass) (lastExc : Option String) (cause : Option Cause) : M Outcome := do
  let el ← xElapsed
  pure { ok, value := if ok then value else none, stop, attempts, lastClass, lastExc,
         lastResult := none, cause, elapsed := el, nextSleep := none }

/-- the `except` ladder around `retry.execute(...)` in `_execute_with_retry` -/
def executeLadder (cfg : Cfg) (e : Exn) : M Outcome :=
  if e.isExhausted then do handleExhaustedCall cfg e; throw e
  else if e.isAbort then do recordCancel cfg; throw e
  else if e.isException then do handleExceptionCall cfg e false; throw e
  else throw e

/-- `_execute_with_retry` -/
def executeWithRetry (cfg : Cfg) : M Outcome := do
  let o ← tryCatch (runExecute cfg) (executeLadder cfg)
  match cfg.breaker with
  | none => pure o
  | some _ =>
    if o.ok then do recordSuccess cfg; pure o
    else if o.stop = some .aborted then do recordCancel cfg; pure o
    else do recordFailure cfg (o.lastClass.getD .unknown); pure o

/-- the `except` ladder of `_execute_without_retry`; `invoked` is the local flag of the same name
    (set just before `func()` is called) -/
def noRetryLadder (cfg : Cfg) (invoked : Bool) (e : Exn) : M Outcome :=
  if e.isAbort then do
    recordCancel cfg
    noRetryEndHook cfg (some e) none .aborted (some .aborted) none
    policyOutcome false none (some .aborted) (if invoked then 1 else 0) none none none
  else if cfg.isAsync && e = .cancelled then do recordCancel cfg; throw e
  else if e.isKiSe then do recordCancel cfg; throw e
  else if e.isException then do
    let k := defaultClass e
    recordFailure cfg k
    noRetryEndHook cfg (some e) none .raise none (some .exception)
    policyOutcome false none none 1 (some k) (some e.ref) (some .exception)
  else throw e

/-- `_execute_without_retry`.  The single Python `try` whose abort arm consults the local flag
    `invoked` is written as two consecutive regions — the start hook, then `func()` — which is the same
    control flow without the flag. -/
def executeWithoutRetry (cfg : Cfg) : M Outcome := do
  let r0 ← tryCatch (do noRetryStartHook cfg; pure none)
             (fun e => do let o ← noRetryLadder cfg false e; pure (some o))
  match r0 with
  | some o => pure o
  | none => do
    let r ← tryCatch (do let v ← invokeOp 1; pure (Sum.inl v))
              (fun e => do let o ← noRetryLadder cfg true e; pure (Sum.inr o))
    match r with
    | .inr o => pure o
    | .inl v => do
      recordSuccess cfg
      noRetryEndHook cfg none (some v) .success none none
      policyOutcome true (some v) none 1 none none none

def executeAdmitted2 (cfg : Cfg) : M Outcome := do
  let aborted ← if cfg.hasRetry then pure false else checkAbortNoRetry cfg
  if aborted then policyOutcome false none (some .aborted) 0 none none none
  else if cfg.hasRetry then executeWithRetry cfg
  else executeWithoutRetry cfg

def executeAdmitted (cfg : Cfg) : M Outcome :=
  match cfg.breaker with
  | none => executeAdmitted2 cfg
  | some bc => do
    let d ← breakerAllow bc
    emitBreakerEvent cfg d.2.2 d.2.1
    if d.1 then executeAdmitted2 cfg
    else policyOutcome false none none 0 none (some (Exn.libCircuitOpen d.2.1).ref) none

/-- `Policy.execute` / `AsyncPolicy.execute` -/
def execute (cfg : Cfg) : M Outcome := do
  initCtx
  withFinally (executeAdmitted cfg) (ensureSettled cfg)

end Redress.Policy
