/-
  Redress.Model.Breaker — `redress/circuit.py::CircuitBreaker`.
-/
import Redress.Model.Basic

namespace Redress.Breaker

structure Cfg where
  failureThreshold : Nat            -- ≥ 1
  window : Nat                      -- > 0
  recovery : Nat                    -- > 0
  tripOn : EClass → Bool            -- already includes the keys of `classThreshold`
  classThreshold : EClass → Option Nat   -- each ≥ 1

structure St where
  state : CState := .closed
  openedAt : Option Nat := none
  probe : Bool := false
  failures : List Nat := []
  classFailures : EClass → List Nat := fun _ => []

/-- `_prune`: pop-left while the head is `<= now - window`. -/
def prune (window now : Nat) : List Nat → List Nat
  | [] => []
  | x :: xs => if x + window ≤ now then prune window now xs else x :: xs

def clear (s : St) : St := { s with failures := [], classFailures := fun _ => [] }

/-- `allow()` at clock value `now`: (allowed, state after, event). -/
def allow (c : Cfg) (s : St) (now : Nat) : (Bool × CState × Option Event) × St :=
  match s.state with
  | .opened =>
    let openedAt := s.openedAt.getD now
    let s := { s with openedAt := some openedAt }
    if openedAt + c.recovery ≤ now then
      ((true, .halfOpen, some .circuitHalfOpen), { s with state := .halfOpen, probe := true })
    else
      ((false, .opened, some .circuitRejected), s)
  | .halfOpen =>
    if s.probe then ((false, .halfOpen, some .circuitRejected), s)
    else ((true, .halfOpen, none), { s with probe := true })
  | .closed => ((true, .closed, none), s)

/-- `record_success()` -/
def recordSuccess (s : St) : Option Event × St :=
  match s.state with
  | .halfOpen => (some .circuitClosed, clear { s with state := .closed, openedAt := none, probe := false })
  | _ => (none, s)

/-- `_note_failure(klass, now)`: (should_open, state with the failure noted). -/
def noteFailure (c : Cfg) (s : St) (k : EClass) (now : Nat) : Bool × St :=
  let fs := prune c.window now s.failures ++ [now]
  match c.classThreshold k with
  | some th =>
    let b := prune c.window now (s.classFailures k) ++ [now]
    let s' := { s with failures := fs, classFailures := fun k' => if k' = k then b else s.classFailures k' }
    if b.length ≥ th then (true, s') else (decide (fs.length ≥ c.failureThreshold), s')
  | none => (decide (fs.length ≥ c.failureThreshold), { s with failures := fs })

/-- `record_failure(klass)` at clock value `now` -/
def recordFailure (c : Cfg) (s : St) (k : EClass) (now : Nat) : Option Event × St :=
  match s.state with
  | .halfOpen => (some .circuitOpened, clear { s with state := .opened, openedAt := some now, probe := false })
  | .opened => (none, s)
  | .closed =>
    if c.tripOn k then
      let (open_, s') := noteFailure c s k now
      if open_ then (some .circuitOpened, clear { s' with state := .opened, openedAt := some now })
      else (none, s')
    else (none, s)

/-- `record_cancel()` -/
def recordCancel (s : St) : St :=
  match s.state with
  | .halfOpen => { s with probe := false }
  | _ => s

end Redress.Breaker
