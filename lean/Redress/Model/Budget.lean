/-
  Redress.Model.Budget — `redress/budget.py`.

  `events` is the deque (oldest first).  `prune` is the pop-left-while loop of the code, not a
  filter: the two differ on unsorted deques.
-/
import Redress.Model.Basic

namespace Redress.Budget

structure Cfg where
  maxRetries : Nat
  window : Nat          -- > 0 (validated by the constructor)
deriving DecidableEq, Repr, Inhabited

structure St where
  events : List Nat := []
deriving DecidableEq, Repr, Inhabited

/-- `while q and q[0] <= now - window: q.popleft()` -/
def prune (window now : Nat) : List Nat → List Nat
  | [] => []
  | x :: xs => if x + window ≤ now then prune window now xs else x :: xs

/-- `Budget.consume(cost)` at clock value `now` (cost ≥ 1; the code raises ValueError otherwise). -/
def consume (c : Cfg) (s : St) (now : Nat) (cost : Nat := 1) : Bool × St :=
  let ev := prune c.window now s.events
  if ev.length + cost > c.maxRetries then (false, { events := ev })
  else (true, { events := ev ++ List.replicate cost now })

/-- `Budget.remaining()` -/
def remaining (c : Cfg) (s : St) (now : Nat) : Nat × St :=
  let ev := prune c.window now s.events
  (c.maxRetries - ev.length, { events := ev })

end Redress.Budget
