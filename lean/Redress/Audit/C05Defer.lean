import Redress.Props.C05Defer

#print axioms Redress.Props.C05Defer.deferred_delay_reported
#print axioms Redress.Props.C05Defer.deferred_delay_reported_script
