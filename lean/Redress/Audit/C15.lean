import Redress.Props.C15

#print axioms Redress.Props.C15.hooks_cannot_alter_control_flow
#print axioms Redress.Props.C15.same_result
#print axioms Redress.Props.C15.same_requests
#print axioms Redress.Props.C15.same_exchanges
#print axioms Redress.Props.C15.same_state
#print axioms Redress.Props.C15.script_equivariant
