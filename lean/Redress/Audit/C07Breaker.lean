import Redress.Props.C07Breaker

#print axioms Redress.Breaker.open_rejects_until_timeout
#print axioms Redress.Breaker.open_rejects_iff
#print axioms Redress.Breaker.rejections_count_nothing
#print axioms Redress.Breaker.open_ignores_records
#print axioms Redress.Breaker.open_fails_fast
#print axioms Redress.Breaker.opened_then_fails_fast
#print axioms Redress.Breaker.reachable_open_fails_fast
#print axioms Redress.Breaker.half_open_single_probe
#print axioms Redress.Breaker.after_timeout_exactly_one_probe
#print axioms Redress.Breaker.probe_success_closes_empty
#print axioms Redress.Breaker.after_close_single_failure_does_not_trip
#print axioms Redress.Breaker.probe_failure_reopens_fresh
#print axioms Redress.Breaker.probe_cancel_frees_slot
#print axioms Redress.Breaker.half_open_free_slot_allows
#print axioms Redress.Breaker.probeInv_step
#print axioms Redress.Breaker.disciplined_cons
#print axioms Redress.Breaker.noStale_cons
#print axioms Redress.Breaker.probeInv_run
#print axioms Redress.Breaker.single_outstanding_probe_partial
#print axioms Redress.Breaker.single_outstanding_probe_partial_prefix
#print axioms Redress.Breaker.single_outstanding_probe_false_F7
#print axioms Redress.Breaker.single_outstanding_probe_unrestricted_is_false
#print axioms Redress.Breaker.stale_success_closes_with_probe_outstanding
