import Redress.Props.C02Tail

#print axioms Redress.Props.C02Tail.envelope_tail_hold
#print axioms Redress.Props.C02Tail.envelope_tail_hold_script
#print axioms Redress.Props.C02Tail.ok_of_okTail
#print axioms Redress.Props.C02Tail.quietTail_of_quiet
