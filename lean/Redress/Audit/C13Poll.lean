import Redress.Props.C13Poll

#print axioms Redress.Props.C13Poll.poll_fresh_hold
#print axioms Redress.Props.C13Poll.poll_fresh_hold_script
#print axioms Redress.Props.C13Poll.poll_late_hold
#print axioms Redress.Props.C13Poll.poll_tight_hold
#print axioms Redress.Props.C13Poll.poll_tight_hold_script
#print axioms Redress.Props.C13Poll.never_bad
