import Redress.Props.C16Cut

#print axioms Redress.Props.C16Cut.cut_hold
#print axioms Redress.Props.C16Cut.cut_hold_script
#print axioms Redress.Props.C16Cut.raised_cut
