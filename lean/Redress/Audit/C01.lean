import Redress.Props.C01
#print axioms Redress.Props.C01.caps_hold
#print axioms Redress.Props.C01.runCall_spec
#print axioms Redress.Props.C01.runExecute_spec
#print axioms Redress.Props.C01.call_retry_spec
#print axioms Redress.Props.C01.execute_retry_spec
#print axioms Redress.Props.C01.call_nr_spec
#print axioms Redress.Props.C01.execute_nr_spec
#print axioms Redress.Props.C01.caps_hold_script
