import Redress.Props.C04
#print axioms Redress.Props.C04.call_surfaces_last
#print axioms Redress.Props.C04.call_surfaces_last_script
#print axioms Redress.Props.C04.returns_first_success
#print axioms Redress.Props.C04.raises_last_exception
#print axioms Redress.Props.C04.raises_last_exception_fwd
#print axioms Redress.Props.C04.exhausted_fields
#print axioms Redress.Props.C04.runtime_error_only_without_attempts
#print axioms Redress.Props.C04.runCall_spec
#print axioms Redress.Props.C04.call_retry_spec
