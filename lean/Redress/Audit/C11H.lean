import Redress.Props.C11H

#print axioms Redress.Props.C11H.attempts_eq_invocations
#print axioms Redress.Props.C11H.attempts_eq_invocations_script
#print axioms Redress.Props.C11H.attempts_eq_invocations_logical
#print axioms Redress.Props.C11H.runExecute_spec
#print axioms Redress.Props.C11H.execute_retry_spec
#print axioms Redress.Props.C11H.preOpFault_of_none
#print axioms Redress.Props.C11H.preOpFault_of_no_later_op
#print axioms Redress.Props.C11H.preOpFault_of_no_hookFault
#print axioms Redress.Props.C11H.preOpFault_of_aborts_only
