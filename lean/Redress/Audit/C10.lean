import Redress.Props.C10

#print axioms Redress.Budget.C10.refinement_invariant
#print axioms Redress.Budget.C10.events_eq_live
#print axioms Redress.Budget.C10.run_refines_spec
#print axioms Redress.Budget.C10.window_bound
#print axioms Redress.Budget.C10.window_bound_fwd
#print axioms Redress.Budget.C10.window_bound_checker
#print axioms Redress.Budget.C10.refuse_only_when_full
#print axioms Redress.Budget.C10.granted_iff_fits
#print axioms Redress.Budget.C10.refusal_window_full
#print axioms Redress.Budget.C10.capacity_returns
#print axioms Redress.Budget.C10.live_iff_age
#print axioms Redress.Budget.C10.capacity_returns_exactly
#print axioms Redress.Budget.C10.consume_atomic
#print axioms Redress.Budget.C10.grants_atomic
#print axioms Redress.Budget.C10.run_events_length_le
#print axioms Redress.Budget.C10.events_length_le
#print axioms Redress.Budget.C10.model_passes_monitors
#print axioms Redress.Budget.C10.monitors_sound
#print axioms Redress.Budget.C10.monitors_complete
