import Redress.Props.C11NR

#print axioms Redress.Props.C11NR.no_retry_execute_faithful
#print axioms Redress.Props.C11NR.no_retry_execute_faithful_script
#print axioms Redress.Props.C11NR.conjuncts_nr
#print axioms Redress.Props.C11NR.never_ret_nr
#print axioms Redress.Props.C11NR.invoked_at_most_once_nr
#print axioms Redress.Props.C11NR.attempts_eq_invocations_nr
#print axioms Redress.Props.C11NR.ok_iff_returned_nr
#print axioms Redress.Props.C11NR.failure_fields_nr
#print axioms Redress.Props.C11NR.no_sleep_no_result_nr
#print axioms Redress.Props.C11NR.propagation_nr
