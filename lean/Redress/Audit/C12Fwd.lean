import Redress.Generated.Forwarding

#print axioms Redress.Props.C12Fwd.sameName_forwards
#print axioms Redress.Props.C12Fwd.selfAttr_forwards
#print axioms Redress.Props.C12Fwd.covers_callee
#print axioms Redress.Props.C12Fwd.calls_expected
#print axioms Redress.Generated.Forwarding.extracted_ok
