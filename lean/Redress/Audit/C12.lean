import Redress.Props.C12

#print axioms Redress.Props.C12.call_execute_agree_env
#print axioms Redress.Props.C12.call_execute_agree
#print axioms Redress.Props.C12.hyps_of_c12Env
#print axioms Redress.Props.C12.call_execute_agree_c12Env
#print axioms Redress.Props.C12.same_log
#print axioms Redress.Props.C12.same_invocations_and_sleeps
#print axioms Redress.Props.C12.same_events
#print axioms Redress.Props.C12.same_budget_and_breaker
#print axioms Redress.Props.C12.result_delivered_either_way
#print axioms Redress.Props.C12.returns_iff_ok
#print axioms Redress.Props.C12.async_irrelevant
#print axioms Redress.Props.C12.call_ignores_timeline
#print axioms Redress.Props.C12.pcall_pexecute_agree
