import Redress.Props.C04Stop

#print axioms Redress.Props.C04Stop.exhausted_stop_reason
#print axioms Redress.Props.C04Stop.exhausted_stop_reason_script
#print axioms Redress.Props.C04Stop.ok_of_terminalTags
