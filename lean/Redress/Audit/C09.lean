import Redress.Props.C09
#print axioms Redress.Props.C09.one_record_hold
#print axioms Redress.Props.C09.one_record_hold_script
#print axioms Redress.Props.C09.entry_admitted
