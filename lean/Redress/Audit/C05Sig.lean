import Redress.Props.C05Sig

#print axioms Redress.Props.C05Sig.ctx_iff
#print axioms Redress.Props.C05Sig.legacy_iff
#print axioms Redress.Props.C05Sig.rejected_iff
#print axioms Redress.Props.C05Sig.optional_parts_irrelevant
