import Redress.Props.C10Policy

#print axioms Redress.Props.C10Policy.c10_of_c03
#print axioms Redress.Props.C10Policy.token_per_retry_holds
#print axioms Redress.Props.C10Policy.token_per_retry_holds_script
