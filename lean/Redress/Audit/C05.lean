import Redress.Props.C05

#print axioms Redress.Props.C05.strategy_selected
#print axioms Redress.Props.C05.strategy_args
#print axioms Redress.Props.C05.strategy_call_count
#print axioms Redress.Props.C05.applied_delay_is_sanitized_output
#print axioms Redress.Props.C05.delay_reaches_handler_hook_sleeper_event_and_next_sleep
#print axioms Redress.Props.C05.delay_flow_holds
#print axioms Redress.Props.C05.delay_flow_holds_script
