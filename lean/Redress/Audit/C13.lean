import Redress.Props.C13
#print axioms Redress.Props.C13.abort_cancel_hold
#print axioms Redress.Props.C13.abort_cancel_hold_script
#print axioms Redress.Props.C13.run_accepted
#print axioms Redress.Props.C13.runCall_spec
#print axioms Redress.Props.C13.runExecute_spec
#print axioms Redress.Props.C13.call_retry_spec
#print axioms Redress.Props.C13.execute_retry_spec
#print axioms Redress.Props.C13.call_nr_spec
#print axioms Redress.Props.C13.execute_nr_spec
#print axioms Redress.Props.C13.poll_before_every_attempt
#print axioms Redress.Props.C13.poll_before_every_sleep
#print axioms Redress.Props.C13.nothing_after_abort
#print axioms Redress.Props.C13.abort_ends_aborted
#print axioms Redress.Props.C13.cancellation_propagates_unchanged
#print axioms Redress.Props.C13.polled_iff
#print axioms Redress.Props.C13.aborted_iff
#print axioms Redress.Props.C13.cancelled_iff
