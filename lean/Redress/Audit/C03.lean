import Redress.Props.C03

#print axioms Redress.Props.C03.permitted_holds
#print axioms Redress.Props.C03.permitted_holds_script
#print axioms Redress.Props.C03.success_ends_run
#print axioms Redress.Props.C03.no_backoff_after_last
#print axioms Redress.Props.C03.sleep_only_if_permitted
#print axioms Redress.Props.C03.next_attempt_only_after_sleep
#print axioms Redress.Props.C03.strategy_only_if_class_permits
#print axioms Redress.Props.C03.budget_once_after_strategy
#print axioms Redress.Props.C03.retry_event_only_if_granted
#print axioms Redress.Props.C03.stop_reason_sound
#print axioms Redress.Props.C03.no_premature_give_up
#print axioms Redress.Props.C03.token_not_wasted
#print axioms Redress.Props.C03.elapsedOf_eq
