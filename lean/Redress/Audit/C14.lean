import Redress.Props.C14
#print axioms Redress.Props.C14.stream_shape
#print axioms Redress.Props.C14.terminal_tags
#print axioms Redress.Props.C14.sinks_agree
#print axioms Redress.Props.C14.breaker_events_shape
#print axioms Redress.Props.C14.rejected_silent
#print axioms Redress.Props.C14.events_hold
#print axioms Redress.Props.C14.events_hold_script
