import Redress.Props.C02
#print axioms Redress.Props.C02.deadline_envelope
#print axioms Redress.Props.C02.deadline_envelope_script
#print axioms Redress.Props.C02.run_envelope
#print axioms Redress.Props.C02.runCall_spec
#print axioms Redress.Props.C02.runExecute_spec
#print axioms Redress.Props.C02.call_retry_spec
#print axioms Redress.Props.C02.execute_retry_spec
#print axioms Redress.Props.C02.no_attempt_after_deadline
#print axioms Redress.Props.C02.sleep_le_remaining
#print axioms Redress.Props.C02.total_sleep_le_deadline
#print axioms Redress.Props.C02.late_failure_not_retried
#print axioms Redress.Props.C02.late_iff
#print axioms Redress.Props.C02.envelope_of_ok
