import Redress.Props.C09Once

#print axioms Redress.Props.C09Once.once_exact_hold
#print axioms Redress.Props.C09Once.once_exact_hold_script
#print axioms Redress.Props.C09Once.once_hold
#print axioms Redress.Props.C09Once.once_hold_script
#print axioms Redress.Props.C09Once.once_eq_not_fault
#print axioms Redress.Props.C09Once.once_refuted
