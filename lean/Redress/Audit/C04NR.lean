import Redress.Props.C04NR

#print axioms Redress.Props.C04NR.no_retry_call_faithful
#print axioms Redress.Props.C04NR.no_retry_call_faithful_script
#print axioms Redress.Props.C04NR.conjuncts_nr
#print axioms Redress.Props.C04NR.invoked_at_most_once_nr
#print axioms Redress.Props.C04NR.returns_the_value_nr
#print axioms Redress.Props.C04NR.never_outcome_nr
#print axioms Redress.Props.C04NR.raises_own_exception_nr
