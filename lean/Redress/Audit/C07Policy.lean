import Redress.Props.C07Policy
#print axioms Redress.Props.C07.rejected_hold
#print axioms Redress.Props.C07.rejected_hold_script
#print axioms Redress.Props.C07.entry_rejected
#print axioms Redress.Props.C07.rejected_call_leaves_breaker_unchanged
#print axioms Redress.Props.C07.open_breaker_fails_fast
