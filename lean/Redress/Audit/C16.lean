import Redress.Props.C16

#print axioms Redress.Props.C16.handler_consulted_once
#print axioms Redress.Props.C16.sleep_sleeps_once_after_before_sleep
#print axioms Redress.Props.C16.defer_schedules
#print axioms Redress.Props.C16.abort_aborts
#print axioms Redress.Props.C16.bad_decision_raises
#print axioms Redress.Props.C16.call_level_overrides_policy_level
#print axioms Redress.Props.C16.no_handler_always_sleeps
#print axioms Redress.Props.C16.handler_protocol_holds
#print axioms Redress.Props.C16.handler_protocol_holds_script
