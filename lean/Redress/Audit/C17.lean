import Redress.Props.C17
import Redress.Generated.LockShapeAudit

#print axioms Redress.C17.serializable
#print axioms Redress.C17.deadlock_free
#print axioms Redress.C17.no_deadlock_reachable
#print axioms Redress.C17.observations_agree
#print axioms Redress.C17.WL_of_shapes
#print axioms Redress.C17.serializable_of_shapes
#print axioms Redress.C17.deadlock_free_of_shapes
#print axioms Redress.C17.extractedShapes_wl
#print axioms Redress.C17.serializable_extracted
#print axioms Redress.C17.deadlock_free_extracted
#print axioms Redress.C17.linearizable
#print axioms Redress.C17.race_two
#print axioms Redress.C17.seq_two_probes_from_open
#print axioms Redress.C17.seq_two_probes_from_half_open
#print axioms Redress.C17.seq_probe_in_flight_rejects
#print axioms Redress.C17.seq_two_failures_open_once
#print axioms Redress.C17.seq_failures_open_at_most_once
#print axioms Redress.C17.seq_two_consumes_one_slot
#print axioms Redress.C17.seq_consume_full_refused
#print axioms Redress.C17.racing_probes_exactly_one_allowed
#print axioms Redress.C17.racing_failures_open_exactly_once
#print axioms Redress.C17.racing_consume_never_overgrants
#print axioms Redress.Threads.wl_step
#print axioms Redress.Threads.sim_step
#print axioms Redress.Threads.wl_flatten
#print axioms Redress.Threads.wl_repeat
