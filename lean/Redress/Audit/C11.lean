import Redress.Props.C11
#print axioms Redress.Props.C11.execute_faithful
#print axioms Redress.Props.C11.execute_faithful_script
#print axioms Redress.Props.C11.ok_iff_final_success
#print axioms Redress.Props.C11.attempts_eq_invocations
#print axioms Redress.Props.C11.failure_fields_describe_final_failure
#print axioms Redress.Props.C11.next_sleep_iff_scheduled
#print axioms Redress.Props.C11.propagation
#print axioms Redress.Props.C11.callback_errors_propagate
#print axioms Redress.Props.C11.outcome_means_no_callback_error
#print axioms Redress.Props.C11.never_ret
#print axioms Redress.Props.C11.runExecute_spec
#print axioms Redress.Props.C11.execute_retry_spec
