import Redress.Props.C08
#print axioms Redress.Props.C08.settled_hold
#print axioms Redress.Props.C08.settled_hold_script
#print axioms Redress.Props.C08.entry_done
#print axioms Redress.Props.C08.entry_decision
#print axioms Redress.Props.C08.admitted_call_frees_probe_slot
#print axioms Redress.Props.C08.no_phantom_probe
#print axioms Redress.Props.C08.next_call_admitted_after_recovery
