/-
  Driver.Loop — line protocol for the retry-loop / policy family (DESIGN Appendix A).
-/
import Redress.Model.Wire
import Redress.Model.Run
import Redress.Monitors
import Redress.MonitorsNR
import Redress.Model.Twin

namespace Driver.Loop

open Redress Redress.Wire

structure Case where
  id : String := ""
  cfg : Cfg := {}
  world : World := { answers := [] }
  steps : List Step := []
  answers : Array Ans := #[]
  implTrace : Array (Nat × (Req × Ans)) := #[]
  implRes : Array (Nat × Res) := #[]
  implTl : Array (Nat × TimelineEv) := #[]
  bad : Option String := none

def kv (t : String) : Option (String × String) :=
  match t.splitOn "=" with
  | [k, v] => some (k, v)
  | k :: v :: more => some (k, String.intercalate "=" (v :: more))
  | _ => none

def commaList (s : String) : List String := if s == "-" then [] else (s.splitOn ",").filter (· ≠ "")

def natList (s : String) : List Nat := (commaList s).filterMap String.toNat?

def classMap (s : String) (f : String → Option α) : EClass → Option α :=
  let entries : List (EClass × α) := (commaList s).filterMap fun e =>
    match e.splitOn ":" with
    | [k, v] => do pure (← EClass.ofName? k, ← f v)
    | _ => none
  fun k => (entries.find? (·.1 == k)).map (·.2)

def parseBreakerCfg (s : String) : Option Breaker.Cfg :=
  -- threshold;window;recovery;K+K;K:n,K:n
  match s.splitOn ";" with
  | [th, win, rec, trip, cls] => do
    let trips := ((trip.splitOn "+").filter (· ≠ "")).filterMap EClass.ofName?
    let cm := classMap cls String.toNat?
    pure { failureThreshold := ← th.toNat?, window := ← win.toNat?, recovery := ← rec.toNat?,
           tripOn := fun k => trips.contains k || (cm k).isSome, classThreshold := cm }
  | _ => none

def parseCfg (toks : List String) : Cfg := Id.run do
  let mut c : Cfg := {}
  for t in toks do
    match kv t with
    | some ("max_attempts", v) => c := { c with maxAttempts := v.toNat?.getD 0 }
    | some ("deadline", v) => c := { c with deadline := v.toNat?.getD 0 }
    | some ("max_unknown", v) => c := { c with maxUnknown := v.toNat? }
    | some ("per_class", v) => c := { c with perClass := classMap v String.toNat? }
    | some ("strat_default", v) => c := { c with stratDefault := skindOf? v }
    | some ("strat_for", v) => c := { c with stratFor := classMap v skindOf? }
    | some ("strat_records", v) =>
      let keys := (commaList v).filterMap skeyOf?
      c := { c with stratRecords := fun k => keys.contains k }
    | some ("budget", v) =>
      c := { c with budget := match v.splitOn ":" with
        | [m, w] => do pure { maxRetries := ← m.toNat?, window := ← w.toNat? }
        | _ => none }
    | some ("breaker", v) => c := { c with breaker := parseBreakerCfg v }
    | some ("operation", v) => c := { c with operation := if v == "-" then none else some (unStr v) }
    | some ("flags", v) =>
      for f in commaList v do
        match f with
        | "result_classifier" => c := { c with resultClassifier := true }
        | "p_handler" => c := { c with pHandler := true }
        | "p_before_sleep" => c := { c with pBeforeSleep := true }
        | "p_sleeper" => c := { c with pSleeper := true }
        | "p_attempt_start" => c := { c with pAttemptStart := true }
        | "p_attempt_end" => c := { c with pAttemptEnd := true }
        | "no_retry" => c := { c with hasRetry := false }
        | "async" => c := { c with isAsync := true }
        | "metric" => c := { c with metric := true }
        | "log" => c := { c with log := true }
        | "abort_if" => c := { c with abortIf := true }
        | "c_handler" => c := { c with cHandler := true }
        | "c_before_sleep" => c := { c with cBeforeSleep := true }
        | "c_sleeper" => c := { c with cSleeper := true }
        | "c_attempt_start" => c := { c with cAttemptStart := true }
        | "c_attempt_end" => c := { c with cAttemptEnd := true }
        | "timeline" => c := { c with timeline := true }
        | _ => pure ()
    | _ => pure ()
  return c

def cstateTok (s : String) : CState := (cstateOfName? s).getD .closed

/-- `state;openedAt;probe;f1,f2;K:t,K:t` -/
def parseBreakerSt (s : String) : Breaker.St :=
  match s.splitOn ";" with
  | [st, oa, pr, fs, cfs] =>
    let entries : List (EClass × Nat) := (commaList cfs).filterMap fun e =>
      match e.splitOn ":" with
      | [k, v] => do pure (← EClass.ofName? k, ← v.toNat?)
      | _ => none
    { state := cstateTok st, openedAt := oa.toNat?, probe := pr == "1", failures := natList fs,
      classFailures := fun k => (entries.filter (·.1 == k)).map (·.2) }
  | _ => {}

def breakerStTok (s : Breaker.St) : String :=
  let cf := EClass.all.flatMap fun k => (s.classFailures k).map fun t => s!"{k.name}:{t}"
  String.intercalate ";" [s.state.name, optTok toString s.openedAt, boolTok s.probe,
    (if s.failures.isEmpty then "-" else String.intercalate "," (s.failures.map toString)),
    (if cf.isEmpty then "-" else String.intercalate "," cf)]

def budgetStTok (s : Budget.St) : String :=
  if s.events.isEmpty then "-" else String.intercalate "," (s.events.map toString)

def parseInit (toks : List String) (w : World) : World := Id.run do
  let mut w := w
  for t in toks do
    match kv t with
    | some ("now", v) => w := { w with now := v.toNat?.getD 0 }
    | some ("silent", v) => w := { w with silent := v == "1" }
    | some ("budget", v) => w := { w with budget := { events := natList v } }
    | some ("breaker", v) => w := { w with breaker := parseBreakerSt v }
    | _ => pure ()
  return w

def parseRes (toks : List String) : Option Res :=
  match toks with
  | ["ret", v] => v.toNat?.map Res.ret
  | ["raise", e] => (exnOf? e).map Res.raised
  | "outcome" :: rest => match pOutcome rest with
    | some (o, []) => some (.outcome o [])
    | _ => none
  | _ => none

def resLine : Res → String
  | .ret v => s!"ret {v}"
  | .raised e => "raise " ++ exnTok e
  | .outcome o _ => join (outcomeToks o)

def feed (c : Case) (line : String) : Case :=
  let ws := words line
  match ws with
  | "cfg" :: rest => { c with cfg := parseCfg rest }
  | "init" :: rest => { c with world := parseInit rest c.world }
  | ["do", "advance", n] => { c with steps := c.steps ++ [.advance (n.toNat?.getD 0)] }
  | ["do", "call"] => { c with steps := c.steps ++ [.run .call] }
  | ["do", "execute"] => { c with steps := c.steps ++ [.run .execute] }
  | ["do", "pcall"] => { c with steps := c.steps ++ [.run .pcall] }
  | ["do", "pexecute"] => { c with steps := c.steps ++ [.run .pexecute] }
  | "a" :: rest => match pAns rest with
    | some (a, []) => { c with answers := c.answers.push a }
    | _ => { c with bad := some s!"bad answer: {line}" }
  | "i" :: k :: rest => match k.toNat?, pExchange rest with
    | some k, some (x, []) => { c with implTrace := c.implTrace.push (k, x) }
    | _, _ => { c with bad := some s!"bad impl exchange: {line}" }
  | "r" :: k :: rest => match k.toNat?, parseRes rest with
    | some k, some r => { c with implRes := c.implRes.push (k, r) }
    | _, _ => { c with bad := some s!"bad impl result: {line}" }
  | "rtl" :: k :: "tl" :: rest => match k.toNat?, pTl rest with
    | some k, some (t, []) => { c with implTl := c.implTl.push (k, t) }
    | _, _ => { c with bad := some s!"bad impl timeline: {line}" }
  | _ => c

def finish (c : Case) : IO Unit := do
  IO.println s!"case {c.id}"
  match c.bad with
  | some msg => IO.println s!"bad {msg}"
  | none => pure ()
  let w0 : World := { c.world with answers := c.answers.toList }
  let (logs, wf) := runScript c.cfg c.steps w0
  let mut k := 0
  for l in logs do
    for x in l.trace do
      IO.println s!"m {k} {exchangeLine x}"
    IO.println s!"mr {k} {resLine l.res}"
    match l.res with
    | .outcome _ tl => for t in tl do IO.println s!"mtl {k} {join (tlToks t)}"
    | _ => pure ()
    -- monitors on the model's own run and on the implementation's recorded run
    let itrace := (c.implTrace.toList.filter (·.1 == k)).map (·.2)
    let ires : Option Res := match (c.implRes.toList.find? (·.1 == k)) with
      | some (_, .outcome o _) => some (.outcome o ((c.implTl.toList.filter (·.1 == k)).map (·.2)))
      | some (_, r) => some r
      | none => none
    for (pid, name, mon) in Monitors.all ++ MonitorsNR.all do
      let mv := mon c.cfg l.entry l.trace l.res
      let iv := match ires with
        | some r => boolTok (mon c.cfg l.entry itrace r)
        | none => "-"
      IO.println s!"mon {pid} {name} {k} model={boolTok mv} impl={iv}"
    k := k + 1
  -- two-run self-checks of the model (C15: silent-hook twin; C12: call vs execute on the same answers)
  IO.println s!"mon C15 silent_twin 0 model={boolTok (Twin.silentTwinAgrees c.cfg c.steps w0)} impl=-"
  match c.steps.filterMap (fun s => match s with | .run e => some e | _ => none), c.steps with
  | [e], [_] =>
    match Twin.callExecuteAgree c.cfg e w0 with
    | some b => IO.println s!"mon C12 call_execute 0 model={boolTok b} impl=-"
    | none => pure ()
  | _, _ => pure ()
  IO.println s!"mstate now={wf.now} budget={budgetStTok wf.budget} breaker={breakerStTok wf.breaker} unused={wf.answers.length}"
  IO.println "endcase"

partial def loop (h : IO.FS.Stream) (cur : Option Case) : IO Unit := do
  let line ← h.getLine
  if line.isEmpty then
    match cur with
    | some c => finish c
    | none => pure ()
    return
  let line := line.trimAscii.toString
  match words line with
  | ["case", id] =>
    match cur with
    | some c => finish c
    | none => pure ()
    loop h (some { id })
  | ["end"] =>
    match cur with
    | some c => finish c
    | none => pure ()
    loop h none
  | _ =>
    match cur with
    | some c => loop h (some (feed c line))
    | none => loop h none

def main : IO Unit := do
  loop (← IO.getStdin) none
  (← IO.getStdout).flush

end Driver.Loop
