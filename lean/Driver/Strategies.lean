/-
  Driver.Strategies — line protocol for the strategies family (C18, and `hint_honoured` of C20).

  One request per line, one answer line per request.  Rationals are written `num/den` or `num`
  (exact values of Python floats via `float.as_integer_ratio()`) or `2^-k`; possibly non-finite values
  are `nan | inf | -inf | <rat>`; absent values are `none`.

  Model values (answer: `num/den`):
    decorrelated  <base> <max> <prev|none> <u>
    equal_jitter  <base> <max> <attempt> <u>
    token_backoff <base> <max> <attempt> <u>
    cap           <base> <max> <g> <attempt>
    retry_after_or <jitter_s> <hint|none> <fallback> <remaining|none> <u>
        <fallback> ::= nan | inf | -inf | <rat>
                     | equal_jitter:<base>:<max>:<attempt> | token_backoff:<base>:<max>:<attempt>
                     | decorrelated:<base>:<max>:<prev|none>          (same draw `u`)
    adaptive <window> <target_success> <min_m> <max_m> <tf|exact> | <op> <op> ...
        <op> ::= s@<t> | f@<t> | m@<t> | c@<t>@<fallback value>
        answer: `ValueError` if `adaptive()` rejects the parameters, else `ok v1 v2 ...`
        (one value per m/c op).  `<tf>` overrides `1 - target_success` by the float-rounded value.

  Envelope checks on the IMPLEMENTATION's value (answer: `ok` or `out ...`); `<rel>` `<eps>` are
  the relative / absolute tolerances for float rounding:
    check_decorrelated  <max> <rel> <eps> <value>
    check_equal_jitter  <base> <max> <attempt> <rel> <eps> <value> [sat]
    check_token_backoff <base> <max> <attempt> <rel> <eps> <value> [sat]
        (`sat`: CPython's `g ** attempt` overflowed, `_grow` returned inf ⇒ cap = max_s)
    check_multiplier    <min_m> <max_m> <rel> <value>
    check_adaptive      <fb> <min_m> <max_m> <rel> <eps> <value>
    check_retry_after_or <remaining|none> <value>
    check_hint          <jitter_s> <h> <remaining|none> <rel> <eps> <value>
-/
import Redress.Model.Strategies

namespace Driver.Strategies

open Redress.Strategies

def parseRat (s : String) : Option Rat :=
  if s.startsWith "2^-" then do
    let k ← (s.drop 3).toNat?
    pure (mkRat 1 (2 ^ k))
  else
  match s.splitOn "/" with
  | [n] => do pure ((← n.toInt?) : Rat)
  | [n, d] => do
    let num ← n.toInt?
    let den ← d.toNat?
    if den = 0 then none else pure (mkRat num den)
  | _ => none

def showRat (q : Rat) : String := s!"{q.num}/{q.den}"

def parseFVal (s : String) : Option FVal :=
  match s with
  | "nan" => some .nan
  | "inf" => some .posInf
  | "-inf" => some .negInf
  | _ => (parseRat s).map .fin

/-- `none` token ↦ `some none`; malformed ↦ `none`. -/
def parseOpt (f : String → Option α) (s : String) : Option (Option α) :=
  if s == "none" then some none else (f s).map some

def parseFallback (s : String) (u : Rat) : Option FVal :=
  match s.splitOn ":" with
  | ["equal_jitter", b, m, a] => do
    pure (.fin (equalJitter (← parseRat b) (← parseRat m) (← a.toNat?) u))
  | ["token_backoff", b, m, a] => do
    pure (.fin (tokenBackoff (← parseRat b) (← parseRat m) (← a.toNat?) u))
  | ["decorrelated", b, m, p] => do
    pure (.fin (decorrelatedJitter (← parseRat b) (← parseRat m) (← parseOpt parseRat p) u))
  | [_] => parseFVal s
  | _ => none

def parseOp (s : String) : Option AOp :=
  match s.splitOn "@" with
  | ["s", t] => do pure (.record (← parseRat t) true)
  | ["f", t] => do pure (.record (← parseRat t) false)
  | ["m", t] => do pure (.query (← parseRat t))
  | ["c", t, fb] => do pure (.call (← parseRat t) (← parseRat fb))
  | _ => none

def verdict (b : Bool) (info : String) : String := if b then "ok" else s!"out {info}"

def handle (toks : List String) : Option String :=
  match toks with
  | ["decorrelated", b, m, p, u] => do
    pure (showRat (decorrelatedJitter (← parseRat b) (← parseRat m) (← parseOpt parseRat p)
      (← parseRat u)))
  | ["equal_jitter", b, m, a, u] => do
    pure (showRat (equalJitter (← parseRat b) (← parseRat m) (← a.toNat?) (← parseRat u)))
  | ["token_backoff", b, m, a, u] => do
    pure (showRat (tokenBackoff (← parseRat b) (← parseRat m) (← a.toNat?) (← parseRat u)))
  | ["cap", b, m, g, a] => do
    pure (showRat (cap (← parseRat b) (← parseRat m) (← parseRat g) (← a.toNat?)))
  | ["retry_after_or", j, h, fb, r, u] => do
    let u ← parseRat u
    pure (showRat (retryAfterOr (← parseRat j) (← parseOpt parseFVal h) (← parseFallback fb u)
      (← parseOpt parseRat r) u))
  | "adaptive" :: w :: ts :: mn :: mx :: tf :: "|" :: ops => do
    let p : AdaptiveParams := { window := ← parseRat w, targetSuccess := ← parseRat ts,
                                minM := ← parseRat mn, maxM := ← parseRat mx }
    let tf? ← if tf == "exact" then some none else (parseRat tf).map some
    let ops ← ops.mapM parseOp
    if !p.valid then pure "ValueError"
    else
      let (outs, _) := runOps p tf? ops [] []
      pure (String.intercalate " " ("ok" :: outs.map showRat))
  | ["check_decorrelated", m, rel, eps, v] => do
    let m ← parseRat m
    pure (verdict (decorrelatedEnv m (← parseRat rel) (← parseRat eps) (← parseFVal v))
      s!"[0,{showRat m}]")
  | "check_equal_jitter" :: b :: m :: a :: rel :: eps :: v :: rest => do
    let m ← parseRat m
    let c ← match rest with
      | [] => some (cap (← parseRat b) m 2 (← a.toNat?))
      | ["sat"] => some m
      | _ => none
    pure (verdict (capEnv c (← parseRat rel) (← parseRat eps) (← parseFVal v))
      s!"[{showRat (c / 2)},{showRat c}]")
  | "check_token_backoff" :: b :: m :: a :: rel :: eps :: v :: rest => do
    let m ← parseRat m
    let c ← match rest with
      | [] => some (cap (← parseRat b) m (3 / 2) (← a.toNat?))
      | ["sat"] => some m
      | _ => none
    pure (verdict (capEnv c (← parseRat rel) (← parseRat eps) (← parseFVal v))
      s!"[{showRat (c / 2)},{showRat c}]")
  | ["check_multiplier", mn, mx, rel, v] => do
    let mn ← parseRat mn
    let mx ← parseRat mx
    pure (verdict (multiplierEnv mn mx (← parseRat rel) (← parseFVal v))
      s!"[{showRat mn},{showRat mx}]")
  | ["check_adaptive", fb, mn, mx, rel, eps, v] => do
    let fb ← parseRat fb
    let mn ← parseRat mn
    let mx ← parseRat mx
    pure (verdict (adaptiveEnv fb mn mx (← parseRat rel) (← parseRat eps) (← parseFVal v))
      s!"[{showRat (max fb (fb * mn))},{showRat (fb * mx)}]")
  | ["check_retry_after_or", r, v] => do
    pure (verdict (retryAfterOrEnv (← parseOpt parseRat r) (← parseFVal v)) s!"[0,{r}]")
  | ["check_hint", j, h, r, rel, eps, v] => do
    let j ← parseRat j
    let h ← parseRat h
    pure (verdict (hintEnv j h (← parseOpt parseRat r) (← parseRat rel) (← parseRat eps)
      (← parseFVal v)) s!"[min({showRat (max 0 h)},r),min({showRat (max 0 h + jitterOf j)},r)] r={r}")
  | _ => none

partial def loop (h : IO.FS.Stream) (out : IO.FS.Stream) : IO Unit := do
  let line ← h.getLine
  if line.isEmpty then return
  let line := line.trimAscii.toString
  if line.isEmpty || line.startsWith "#" then
    loop h out
  else
    let toks := (line.splitOn " ").filter (· ≠ "")
    match handle toks with
    | some r => out.putStrLn r
    | none => out.putStrLn "bad-op"
    loop h out

def main : IO Unit := do
  let out ← IO.getStdout
  loop (← IO.getStdin) out
  out.flush

end Driver.Strategies
