/-
  Driver.Probes — `driver probes`: caller-labelled breaker histories (C07 "exactly one probe",
  C08 "every admitted call settles"), evaluated with `Redress.Breaker.gstep` / `disciplined` / `noStale`.

  Lines
    cfg <failure_threshold> <window> <recovery> <trip K+K|-> <class K:n,K:n|->   → `ok`
    call <id> <now>                          → `call <id> admitted=<0|1> state=<st> probes=<n> closedOut=<n>`
    settle <id> success|cancel|failure:<K>:<now>
                                             → `settle <id> state=<st> probes=<n> closedOut=<n> stale=<0|1> known=<0|1>`
        stale = this record arrives while HALF_OPEN from a caller that is not an outstanding probe (F7)
        known = the caller was admitted and had not recorded yet (discipline)
    end                                      → `end maxProbes=<n> disciplined=<0|1> noStale=<0|1>`
-/
import Redress.Spec.Breaker

namespace Driver.Probes
open Redress Redress.Breaker

structure S where
  cfg : Option Cfg := none
  g : G := G.init
  hist : List COp := []
  maxProbes : Nat := 0

def parseCls (s : String) : List (EClass × Nat) :=
  if s == "-" then [] else (s.splitOn ",").filterMap fun e =>
    match e.splitOn ":" with
    | [k, v] => do pure (← EClass.ofName? k, ← v.toNat?)
    | _ => none

def step (st : S) (line : String) : S × String :=
  match (line.splitOn " ").filter (· ≠ "") with
  | ["cfg", th, win, rec, trip, cls] =>
    match th.toNat?, win.toNat?, rec.toNat? with
    | some th, some win, some rec =>
      let trips := if trip == "-" then [] else (trip.splitOn "+").filterMap EClass.ofName?
      let cm := parseCls cls
      let c : Cfg := { failureThreshold := th, window := win, recovery := rec,
                       tripOn := fun k => trips.contains k || (cm.any (·.1 == k)),
                       classThreshold := fun k => (cm.find? (·.1 == k)).map (·.2) }
      ({ cfg := some c }, "ok")
    | _, _, _ => (st, "bad-op")
  | ["call", id, now] =>
    match st.cfg, id.toNat?, now.toNat? with
    | some c, some id, some now =>
      let adm := (allow c st.g.s now).1.1
      let g := gstep c st.g (.call id now)
      ({ st with g := g, hist := st.hist ++ [.call id now], maxProbes := max st.maxProbes g.outProbe.length },
        s!"call {id} admitted={if adm then 1 else 0} state={g.s.state.name} probes={g.outProbe.length} closedOut={g.outClosed.length}")
    | _, _, _ => (st, "bad-op")
  | ["settle", id, how] =>
    match st.cfg, id.toNat? with
    | some c, some id =>
      let r : Option Settle := match how.splitOn ":" with
        | ["success"] => some .success
        | ["cancel"] => some .cancel
        | ["failure", k, now] => do pure (.failure (← EClass.ofName? k) (← now.toNat?))
        | _ => none
      match r with
      | none => (st, "bad-op")
      | some r =>
        let known := st.g.outClosed.contains id || st.g.outProbe.contains id
        let stale := st.g.s.state == .halfOpen && !st.g.outProbe.contains id
        let g := gstep c st.g (.settle id r)
        ({ st with g := g, hist := st.hist ++ [.settle id r] },
          s!"settle {id} state={g.s.state.name} probes={g.outProbe.length} closedOut={g.outClosed.length} stale={if stale then 1 else 0} known={if known then 1 else 0}")
    | _, _ => (st, "bad-op")
  | ["end"] =>
    match st.cfg with
    | some c =>
      ({}, s!"end maxProbes={st.maxProbes} disciplined={if disciplined c G.init st.hist then 1 else 0} noStale={if noStale c G.init st.hist then 1 else 0}")
    | none => (st, "bad-op")
  | _ => (st, "bad-op")

partial def loop (h : IO.FS.Stream) (st : S) : IO Unit := do
  let line ← h.getLine
  if line.isEmpty then return
  let line := line.trimAscii.toString
  if line.isEmpty || line.startsWith "#" then
    loop h st
  else
    let (st', out) := step st line
    IO.println out
    loop h st'

def main : IO Unit := do
  loop (← IO.getStdin) {}
  (← IO.getStdout).flush

end Driver.Probes
