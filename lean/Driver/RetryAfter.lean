/-
  Driver.RetryAfter — line protocol of the retry-after family (C20): `driver retryafter`.

  One request per line, tokens separated by single spaces; one answer line per request.
  Strings travel HEX-ENCODED (UTF-8 bytes, lower-case hex; the empty string is the empty token
  after its tag, e.g. `S:`).

  Token grammars
    <hex>      lower/upper-case hex of the UTF-8 bytes; `.` stands for the empty string where a
               bare token is required
    <kind>     TypeError | ValueError | IndexError | OverflowError | Exception | BaseException
    <float>    nan | inf | -inf | <num>/<den> | <int>            (exact value of the double)
    <dateans>  a:<epochUs>   parsedate_to_datetime returned an aware datetime
               n:<epochUs>   … a naive one (epoch computed reading it as UTC)
               none          … returned None
               r:<kind>      … raised <kind>
               -             no oracle answer supplied (the model must not ask; if it does: bad-op)
    <int>      decimal, or h<hex digits> / -h<hex digits>
    <pyval>    N | B0 | B1 | I:<int> | D:<float>:<hex of str(f)> | S:<hex> | O:<hex of str(obj)> | X:<kind>
               (X: an object whose __str__ raises <kind>)
    <entry>    P <pyval key> <pyval val>   |   Z            (Z: an item that does not unpack)
    <entries>  <n> <entry>*n
    <opt>      - | <kind>
    <headers>  A                                              None / missing
               M <ci 0|1> <getRaises opt> <itemsRaises opt> <entries>          a Mapping
               G <ci 0|1> <getRaises opt> <items: no|-|kind> <iterable 0|1> <truthy 0|1> <entries>
               L <isIterator 0|1> <entries>                   list/tuple/str or iterator of items
               Q <truthy 0|1>                                 any other object
    <excrec>   <pyval retry_after> <headers> ( R0 | R1 <headers> )
    <table>    <m> ( <hex stripped string> <dateans> )*m      date-oracle answers by query string

  Requests → answers
    limit <n>                          → ok                    sets int_max_str_digits (default 4300)
    strip <hex>                        → str <hex>
    int <hex>                          → value <int> | invalid | toomany
    parse <hex> <dateans> <nowUs>      → <res> raw:<hex of the stripped string>
    lookup <hex name> <headers>        → none <step> | str <step> <hex> | raises <step> <kind>
                                          step ∈ absent | get | get-raised | scan
    coerce <nowUs> <table> <excrec>    → <res>
    classify <KLASS> <nowUs> <table> <excrec>
                                       → bare <branch> <KLASS> | classification <branch> <KLASS> <float> | raises <branch> <kind>
    spec none | spec hint <float> | spec raises <kind>
                                       → ok | violation          (C20 monitor on an implementation output)
    <res> = none <branch> | hint <branch> <float> | raises <branch> <kind>
    The second token (<branch>) says which branch of the model decided; the harness histograms it.
  Malformed lines → `bad-op <why>`.
-/
import Redress.Model.RetryAfter

namespace Driver.RetryAfter

open Redress Redress.RetryAfter

/-! ### hex -/

def hexVal (c : Char) : Option Nat :=
  if '0' ≤ c && c ≤ '9' then some (c.toNat - '0'.toNat)
  else if 'a' ≤ c && c ≤ 'f' then some (c.toNat - 'a'.toNat + 10)
  else if 'A' ≤ c && c ≤ 'F' then some (c.toNat - 'A'.toNat + 10)
  else none

def unhexBytes : List Char → ByteArray → Option ByteArray
  | [], acc => some acc
  | [_], _ => none
  | a :: b :: t, acc => do
      let x ← hexVal a
      let y ← hexVal b
      unhexBytes t (acc.push (UInt8.ofNat (16 * x + y)))

def unhex (s : String) : Option String :=
  if s == "." then some "" else
  match unhexBytes s.toList ByteArray.empty with
  | some b => String.fromUTF8? b
  | none => none

def hexDigit (n : Nat) : Char := if n < 10 then Char.ofNat (48 + n) else Char.ofNat (87 + n)

def hex (s : String) : String :=
  String.ofList (s.toUTF8.toList.foldr (fun b acc => hexDigit (b.toNat / 16) :: hexDigit (b.toNat % 16) :: acc) [])

/-! ### token parsers -/

abbrev P := StateT (List String) (Except String)

def tok : P String := do
  match ← get with
  | [] => throw "missing-token"
  | t :: ts => set ts; pure t

def eoi : P Unit := do
  match ← get with
  | [] => pure ()
  | _ => throw "trailing-tokens"

def liftOpt {α : Type} (why : String) : Option α → P α
  | some a => pure a
  | none => throw why

def pKind (s : String) : P ExcKind :=
  match ExcKind.ofName? s with
  | some .stuck | none => throw s!"kind:{s}"
  | some k => pure k

def pBool01 : P Bool := do
  match ← tok with
  | "0" => pure false
  | "1" => pure true
  | t => throw s!"bool:{t}"

def pOptKind : P (Option ExcKind) := do
  match ← tok with
  | "-" => pure none
  | t => some <$> pKind t

def pFloat (s : String) : P PyFloat :=
  match s with
  | "nan" => pure .nan
  | "inf" => pure .inf
  | "-inf" => pure .negInf
  | _ =>
    match s.splitOn "/" with
    | [n] => do pure (.fin ((← liftOpt s!"float:{s}" n.toInt?) : Int))
    | [n, d] => do
        let num ← liftOpt s!"float:{s}" n.toInt?
        let den ← liftOpt s!"float:{s}" d.toNat?
        if den == 0 then throw s!"float:{s}"
        pure (.fin (mkRat num den))
    | _ => throw s!"float:{s}"

def pDateAns (s : String) : P (Option DateAns) :=
  if s == "-" then pure none
  else if s == "none" then pure (some .pyNone)
  else match s.splitOn ":" with
    | ["a", e] => do pure (some (.parsed true (← liftOpt s!"dateans:{s}" e.toInt?)))
    | ["n", e] => do pure (some (.parsed false (← liftOpt s!"dateans:{s}" e.toInt?)))
    | ["r", k] => do pure (some (.raised (← pKind k)))
    | _ => throw s!"dateans:{s}"

/-- `<int>`: decimal, or `h<hex digits>` / `-h<hex digits>` (Python cannot print > 4300 decimal digits) -/
def intTok? (z : String) : Option Int :=
  let hexNat (cs : List Char) : Option Nat :=
    if cs.isEmpty then none else cs.foldlM (fun acc c => do pure (16 * acc + (← hexVal c))) 0
  match z.toList with
  | 'h' :: cs => (fun n => (n : Int)) <$> hexNat cs
  | '-' :: 'h' :: cs => (fun n => -(n : Int)) <$> hexNat cs
  | _ => z.toInt?

def pHexTok (why s : String) : P String := liftOpt s!"hex:{why}" (unhex (if s.isEmpty then "." else s))

def pPyVal : P PyVal := do
  let t ← tok
  match t.splitOn ":" with
  | ["N"] => pure .none
  | ["B0"] => pure (.bool false)
  | ["B1"] => pure (.bool true)
  | ["I", z] => do pure (.int (← liftOpt s!"int:{z}" (intTok? z)))
  | ["D", f, r] => do pure (.float (← pFloat f) (← pHexTok "D" r))
  | ["S", h] => do pure (.str (← pHexTok "S" h))
  | ["O", h] => do pure (.other (.ok (← pHexTok "O" h)))
  | ["X", k] => do pure (.other (.error (← pKind k)))
  | _ => throw s!"pyval:{t}"

def pEntry : P Entry := do
  match ← tok with
  | "P" => do
      let k ← pPyVal
      let v ← pPyVal
      pure (.pair k v)
  | "Z" => pure .bad
  | t => throw s!"entry:{t}"

def pEntries : P (List Entry) := do
  let n ← liftOpt "entries-count" (← tok).toNat?
  let mut acc : Array Entry := #[]
  for _ in [0:n] do
    acc := acc.push (← pEntry)
  pure acc.toList

def pHeaders : P Headers := do
  match ← tok with
  | "A" => pure .absent
  | "M" => do
      let ci ← pBool01
      let gr ← pOptKind
      let ir ← pOptKind
      let es ← pEntries
      pure (.mapping es ci gr ir)
  | "G" => do
      let ci ← pBool01
      let gr ← pOptKind
      let items ← (do
        match ← tok with
        | "no" => pure none
        | "-" => pure (some none)
        | t => do pure (some (some (← pKind t))) : P (Option (Option ExcKind)))
      let iterable ← pBool01
      let truthy ← pBool01
      let es ← pEntries
      pure (.getter es ci gr items iterable truthy)
  | "L" => do
      let it ← pBool01
      let es ← pEntries
      pure (.pairs es it)
  | "Q" => do pure (.inert (← pBool01))
  | t => throw s!"headers:{t}"

def pExcRec : P ExcRec := do
  let ra ← pPyVal
  let h ← pHeaders
  let r ← (do
    match ← tok with
    | "R0" => pure none
    | "R1" => do pure (some (← pHeaders))
    | t => throw s!"response:{t}" : P (Option Headers))
  pure { retryAfter := ra, headers := h, response := r }

def pTable : P (List (String × Option DateAns)) := do
  let m ← liftOpt "table-count" (← tok).toNat?
  let mut acc : Array (String × Option DateAns) := #[]
  for _ in [0:m] do
    let q ← pHexTok "table" (← tok)
    let a ← pDateAns (← tok)
    acc := acc.push (q, a)
  pure acc.toList

/-- The oracle function handed to the model: table lookup; a query with no answer is `stuck`
(model-only kind, caught by no `except`), which the driver reports as `bad-op`. -/
def oracleOf (tbl : List (String × Option DateAns)) (q : String) : DateAns :=
  match tbl.find? (·.1 == q) with
  | some (_, some a) => a
  | _ => .raised .stuck

/-! ### printers -/

def floatTok : PyFloat → String
  | .nan => "nan"
  | .inf => "inf"
  | .negInf => "-inf"
  | .fin q => s!"{q.num}/{q.den}"

def resTok (branch : String) : Py (Option PyFloat) → String
  | .error .stuck => s!"bad-op oracle-missing {branch}"
  | .error k => s!"raises {branch} {k.name}"
  | .ok none => s!"none {branch}"
  | .ok (some f) => s!"hint {branch} {floatTok f}"

/-! ### branch labels (for the harness's distribution; recomputed from the same primitives) -/

def dateBranch (a : DateAns) : String :=
  match a with
  | .raised k => if dateExceptCatches k then s!"date-caught-{k.name}" else s!"date-escape-{k.name}"
  | .pyNone => "date-pynone"
  | .parsed true _ => "date-aware"
  | .parsed false _ => "date-naive"

def parseBranch (lim : Nat) (value : String) (oracle : String → DateAns) : String :=
  if value.toList.isEmpty then "empty"
  else
    let raw := pyStrip value
    if raw.toList.isEmpty then "blank"
    else match pyInt lim raw with
      | .value n => match floatOfInt n with
          | .ok _ => if n < 0 then "int-neg" else "int"
          | .error _ => "int-overflow"
      | .invalidLiteral => "inv+" ++ dateBranch (oracle raw)
      | .tooManyDigits => "lim+" ++ dateBranch (oracle raw)

def lookupStep (lim : Nat) (h : Headers) (name : String) : String :=
  match h with
  | .absent => "absent"
  | .inert _ => "inert"
  | .pairs .. => "scan"
  | .mapping es ci gr _ | .getter es ci gr _ _ _ =>
      match getPhase lim gr ci es name with
      | .ok (some _) => "get"
      | .ok none => "scan"
      | .error _ => "get-raised"

def headerBranch (lim : Nat) (exc : ExcRec) (oracle : String → DateAns) : String :=
  let src := if exc.headers.truthy then "own" else
    match exc.response with
    | none => "noresp"
    | some _ => "resp"
  match lookupHeader lim exc.pickHeaders "Retry-After" with
  | .error _ => s!"hdr-{src}-raised"
  | .ok none => s!"hdr-{src}-nolookup"
  | .ok (some hv) => s!"hdr-{src}:" ++ parseBranch lim hv oracle

def coerceBranch (lim : Nat) (exc : ExcRec) (oracle : String → DateAns) (now : Int) : String :=
  match exc.retryAfter with
  | .bool _ => "direct-bool"
  | .int z => match floatOfInt z with
      | .ok _ => "direct-int"
      | .error _ => "direct-int-overflow"
  | .float f _ => match f with
      | .nan => "direct-float-nan"
      | .inf => "direct-float-inf"
      | .negInf => "direct-float-neginf"
      | .fin _ => "direct-float"
  | .str s => match parseRetryAfter lim s oracle now with
      | .ok none => "strfall(" ++ parseBranch lim s oracle ++ ")+" ++ headerBranch lim exc oracle
      | _ => "direct-str:" ++ parseBranch lim s oracle
  | .none => "nodirect+" ++ headerBranch lim exc oracle
  | .other _ => "otherdirect+" ++ headerBranch lim exc oracle

/-! ### requests -/

def runP {α : Type} (p : P α) (toks : List String) : Except String α :=
  match (p <* eoi).run toks with
  | .ok (a, _) => .ok a
  | .error e => .error e

def handle (lim : Nat) (toks : List String) : Except String String :=
  match toks with
  | "strip" :: rest => runP (do
      let s ← pHexTok "strip" (← tok)
      pure s!"str {hex (pyStrip s)}") rest
  | "int" :: rest => runP (do
      let s ← pHexTok "int" (← tok)
      pure (match pyInt lim s with
        | .value n => s!"value {n}"
        | .invalidLiteral => "invalid"
        | .tooManyDigits => "toomany")) rest
  | "parse" :: rest => runP (do
      let s ← pHexTok "parse" (← tok)
      let a ← pDateAns (← tok)
      let now ← liftOpt "now" (← tok).toInt?
      let oracle : String → DateAns := fun _ => a.getD (.raised .stuck)
      pure (resTok (parseBranch lim s oracle) (parseRetryAfter lim s oracle now)
            ++ s!" raw:{hex (pyStrip s)}")) rest
  | "lookup" :: rest => runP (do
      let name ← pHexTok "lookup" (← tok)
      let h ← pHeaders
      let step := lookupStep lim h name
      pure (match lookupHeader lim h name with
        | .ok none => s!"none {step}"
        | .ok (some s) => s!"str {step} {hex s}"
        | .error k => s!"raises {step} {k.name}")) rest
  | "coerce" :: rest => runP (do
      let now ← liftOpt "now" (← tok).toInt?
      let tbl ← pTable
      let exc ← pExcRec
      let oracle := oracleOf tbl
      pure (resTok (coerceBranch lim exc oracle now) (coerceRetryAfter lim exc oracle now))) rest
  | "classify" :: rest => runP (do
      let klass ← liftOpt "klass" (EClass.ofName? (← tok))
      let now ← liftOpt "now" (← tok).toInt?
      let tbl ← pTable
      let exc ← pExcRec
      let oracle := oracleOf tbl
      let branch := if klass ≠ .rateLimit then "not-rate-limit" else coerceBranch lim exc oracle now
      pure (match httpRetryAfterClassifier lim klass exc oracle now with
        | .error .stuck => s!"bad-op oracle-missing {branch}"
        | .error k => s!"raises {branch} {k.name}"
        | .ok (.bare k) => s!"bare {branch} {k.name}"
        | .ok (.classification k f) => s!"classification {branch} {k.name} {floatTok f}")) rest
  | ["spec", "none"] => .ok (if specOk (.ok none) then "ok" else "violation")
  | ["spec", "hint", f] => runP (do
      let x ← pFloat f
      pure (if specOk (.ok (some x)) then "ok" else "violation")) []
  | ["spec", "raises", k] => runP (do
      let kind ← pKind k
      pure (if specOk (.error kind) then "ok" else "violation")) []
  | _ => .error "unknown-request"

partial def loop (h : IO.FS.Stream) (out : IO.FS.Stream) (lim : Nat) : IO Unit := do
  let line ← h.getLine
  if line.isEmpty then return
  let line := line.trimAscii.toString
  if line.isEmpty || line.startsWith "#" then
    loop h out lim
  else
    match line.splitOn " " with
    | ["limit", n] =>
      match n.toNat? with
      | some k => out.putStrLn "ok"; loop h out k
      | none => out.putStrLn "bad-op limit"; loop h out lim
    | toks =>
      match handle lim toks with
      | .ok s => out.putStrLn s
      | .error e => out.putStrLn s!"bad-op {e}"
      loop h out lim

def main : IO Unit := do
  let out ← IO.getStdout
  loop (← IO.getStdin) out pyMaxStrDigits
  out.flush

end Driver.RetryAfter
