/-
  Driver.BreakerOps — `driver breaker`: line protocol of the breaker-ops family (C06, C07).

  One request per input line, exactly one output line per request.  Times are `Nat` ticks.
  Class names are `EClass.name` (AUTH PERMISSION PERMANENT CONCURRENCY RATE_LIMIT SERVER_ERROR
  TRANSIENT UNKNOWN), state names `closed` / `open` / `half_open`, event names the
  `EventName` values (`circuit_opened`, `circuit_half_open`, `circuit_closed`,
  `circuit_rejected`), `-` = None / empty.

  Requests
    new <failure_threshold> <window> <recovery> <trip> <class>
        integers may be ≤ 0 (then the constructor is expected to raise);
        <trip>  = `none` (Python `trip_on=None` → {TRANSIENT, SERVER_ERROR}) | `-` (empty set)
                  | K+K+…;
        <class> = `-` | K:n,K:n,… (n an integer);
        the keys of <class> are added to trip_on, as `CircuitBreaker.__init__` does.
        → `ok`             a fresh model breaker replaces the current one
        → `err ValueError` the configuration is one the Python constructor rejects
                           (failure_threshold < 1, window ≤ 0, recovery ≤ 0, a class threshold < 1);
                           there is no current breaker afterwards
    allow <now>            → `allowed <0|1> <state> <event|-> | st=<ST>`
    success                → `event <event|-> | st=<ST>`
    failure <K> <now>      → `event <event|-> | st=<ST>`
    cancel                 → `event - | st=<ST>`
    at <d> <operation…>    tree walks (exhaustive enumeration): restore the model state stored in
                           slot <d>, apply the operation (same syntax and same answer as above) and
                           store the resulting state in slot <d+1> (higher slots are dropped).
                           `new` stores the fresh state in slot 0; plain operations do not touch the
                           slots.  `bad-op` if slot <d> is not filled.
        <ST> = <state>;<opened_at|->;<probe 0|1>;<failures t,t,…|->;<class failures K:t,t/K:t|->
        (non-empty class buckets only, in the order of the class list above)
    spec <R>#<R>#…   (or `spec -` for the empty history)
        evaluates the history-based specification (`Redress.Breaker.historyOk`) of the CURRENT
        configuration on a recorded history *with the outputs an implementation produced*:
        <R> = <op>~<out>~<ST>
        <op>  = allow,<now> | success | failure,<K>,<now> | cancel
        <out> = allowed,<0|1>,<state>,<event|-> | event,<event|->
        → `spec-ok <n>`  |  `spec-bad <predicate> <index> <detail…>`
        (<predicate> starts with the property id: `C06.` opening / counting predicates,
         `C07.` open / half-open / probe predicates; <index> = 0-based position of the first
         offending record)
  Anything else, or an operation without a current breaker → `bad-op`.
  Lines starting with `#` are comments (echoed as `#`), empty lines are skipped.
-/
import Redress.Spec.Breaker

namespace Driver.BreakerOps

open Redress Redress.Breaker

def stateOfName? (s : String) : Option CState :=
  [CState.closed, .opened, .halfOpen].find? (·.name == s)

def circuitEvents : List Event := [.circuitOpened, .circuitHalfOpen, .circuitClosed, .circuitRejected]

def eventOfName? (s : String) : Option (Option Event) :=
  if s == "-" then some none else (circuitEvents.find? (·.name == s)).map some

def evTok (e : Option Event) : String := (e.map Event.name).getD "-"
def boolTok (b : Bool) : String := if b then "1" else "0"
def bool? (s : String) : Option Bool := if s == "1" then some true else if s == "0" then some false else none

def natsTok (l : List Nat) : String :=
  if l.isEmpty then "-" else ",".intercalate (l.map toString)

def obsTok (o : Obs) : String :=
  let cf := if o.classFailures.isEmpty then "-" else
    "/".intercalate (o.classFailures.map fun (k, l) => s!"{k.name}:{natsTok l}")
  s!"{o.state.name};{(o.openedAt.map toString).getD "-"};{boolTok o.probe};{natsTok o.failures};{cf}"

def nats? (s : String) : Option (List Nat) :=
  if s == "-" then some [] else (s.splitOn ",").mapM String.toNat?

def optNat? (s : String) : Option (Option Nat) :=
  if s == "-" then some none else s.toNat?.map some

def bucket? (s : String) : Option (EClass × List Nat) :=
  match s.splitOn ":" with
  | [k, l] => do
    let k ← EClass.ofName? k
    let l ← nats? l
    if l.isEmpty then none else pure (k, l)
  | _ => none

def obs? (s : String) : Option Obs :=
  match s.splitOn ";" with
  | [st, oa, pr, fs, cf] => do
    let cfs ← if cf == "-" then some [] else (cf.splitOn "/").mapM bucket?
    pure { state := ← stateOfName? st, openedAt := ← optNat? oa, probe := ← bool? pr,
           failures := ← nats? fs, classFailures := cfs }
  | _ => none

def op? (toks : List String) : Option Op :=
  match toks with
  | ["allow", now] => now.toNat?.map .allow
  | ["success"] => some .success
  | ["failure", k, now] => do pure (.failure (← EClass.ofName? k) (← now.toNat?))
  | ["cancel"] => some .cancel
  | _ => none

def out? (toks : List String) : Option Out :=
  match toks with
  | ["allowed", a, st, ev] => do pure (.decision (← bool? a) (← stateOfName? st) (← eventOfName? ev))
  | ["event", ev] => (eventOfName? ev).map .event
  | _ => none

def rec? (s : String) : Option Rec :=
  match s.splitOn "~" with
  | [o, r, st] => do pure { op := ← op? (o.splitOn ","), out := ← out? (r.splitOn ","), obs := ← obs? st }
  | _ => none

def outTok : Out → String
  | .decision a st ev => s!"allowed {boolTok a} {st.name} {evTok ev}"
  | .event ev => s!"event {evTok ev}"

/-- `new` arguments → `none` = malformed, `some none` = ValueError, `some (some cfg)` -/
def cfg? (ft win rec trip cls : String) : Option (Option Cfg) := do
  let ft ← ft.toInt?
  let win ← win.toInt?
  let rec ← rec.toInt?
  let trips ← if trip == "none" then some [EClass.transient, EClass.serverError]
              else if trip == "-" then some []
              else (trip.splitOn "+").mapM EClass.ofName?
  let entries : List (EClass × Int) ← if cls == "-" then some [] else
    (cls.splitOn ",").mapM fun e =>
      match e.splitOn ":" with
      | [k, v] => do pure (← EClass.ofName? k, ← v.toInt?)
      | _ => none
  -- a repeated key cannot occur in a Python dict: malformed
  if (entries.map (·.1)).eraseDups.length ≠ entries.length then none
  if ft < 1 || win ≤ 0 || rec ≤ 0 || entries.any (fun e => e.2 < 1) then return none
  let cm : EClass → Option Nat := fun k => (entries.find? (·.1 == k)).map (·.2.toNat)
  let c : Cfg := { failureThreshold := ft.toNat, window := win.toNat, recovery := rec.toNat,
                   tripOn := fun k => trips.contains k || (cm k).isSome, classThreshold := cm }
  -- defensive: the validation above must coincide with the specification's `Cfg.wf`
  if c.wf then return some c else none

structure Sess where
  cfg : Cfg
  st : St
  slots : Array St := #[]

def respond (cur : Option Sess) (line : String) : String × Option Sess :=
  let toks := (line.splitOn " ").filter (· ≠ "")
  match toks with
  | ["new", ft, win, rec, trip, cls] =>
    match cfg? ft win rec trip cls with
    | none => ("bad-op", none)
    | some none => ("err ValueError", none)
    | some (some c) => ("ok", some { cfg := c, st := St.init, slots := #[St.init] })
  | ["spec", recs] =>
    match cur with
    | none => ("bad-op", cur)
    | some s =>
      let parsed : Option (List Rec) :=
        if recs == "-" then some [] else (recs.splitOn "#").mapM rec?
      match parsed with
      | none => ("bad-op", cur)
      | some rs =>
        match historyOk s.cfg rs with
        | .ok => (s!"spec-ok {rs.length}", cur)
        | .bad p i d => (s!"spec-bad {p} {i} {d}", cur)
  | "at" :: d :: rest =>
    match cur, d.toNat?, op? rest with
    | some s, some d, some op =>
      match s.slots[d]? with
      | none => ("bad-op", cur)
      | some st =>
        let (o, st') := mstep s.cfg st op
        (s!"{outTok o} | st={obsTok st'.obs}",
          some { s with st := st', slots := (s.slots.extract 0 (d + 1)).push st' })
    | _, _, _ => ("bad-op", cur)
  | _ =>
    match cur, op? toks with
    | some s, some op =>
      let (o, st') := mstep s.cfg s.st op
      (s!"{outTok o} | st={obsTok st'.obs}", some { s with st := st' })
    | _, _ => ("bad-op", cur)

partial def loop (h : IO.FS.Stream) (out : IO.FS.Stream) (cur : Option Sess) : IO Unit := do
  let line ← h.getLine
  if line.isEmpty then return
  let line := line.trimAscii.toString
  if line.isEmpty then loop h out cur
  else if line.startsWith "#" then
    out.putStrLn "#"
    loop h out cur
  else
    let (resp, cur') := respond cur line
    out.putStrLn resp
    loop h out cur'

def main : IO Unit := do
  let out ← IO.getStdout
  loop (← IO.getStdin) out none
  out.flush

end Driver.BreakerOps
