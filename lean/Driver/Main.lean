import Driver.Loop
import Driver.BreakerOps
import Driver.BudgetOps
import Driver.Strategies
import Driver.Classify
import Driver.RetryAfter
import Driver.Probes
import Driver.Sigs

def main (args : List String) : IO UInt32 := do
  match args with
  | ["loop"] => Driver.Loop.main; return 0
  | ["breaker"] => Driver.BreakerOps.main; return 0
  | ["budget"] => Driver.BudgetOps.main; return 0
  | ["strategies"] => Driver.Strategies.main; return 0
  | ["classify"] => Driver.Classify.main; return 0
  | ["retryafter"] => Driver.RetryAfter.main; return 0
  | ["probes"] => Driver.Probes.main; return 0
  | ["sigs"] => Driver.Sigs.main; return 0
  | _ =>
    IO.eprintln "usage: driver loop|breaker|budget|strategies|classify|retryafter|probes|sigs  < lines"
    return 2
