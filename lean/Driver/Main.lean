import Driver.Loop

def main (args : List String) : IO UInt32 := do
  match args with
  | ["loop"] => Driver.Loop.main; return 0
  | _ =>
    IO.eprintln "usage: driver loop|breaker|budget|strategies|classify|retryafter  < lines"
    return 2
