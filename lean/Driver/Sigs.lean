/-
  Driver.Sigs — `driver sigs`: the decision table of `_normalize_strategy`.
  Lines  `r.o.v.kr.ko.vk`  →  `ctx` | `legacy` | `error` (TypeError) | `bad-line`
-/
import Redress.Model.Wire

namespace Driver.Sigs
open Redress

def step (line : String) : String :=
  match Wire.sigOf? line.trimAscii.toString with
  | none => "bad-line"
  | some s => match normalizeSig s with
    | some .ctx => "ctx"
    | some .legacy => "legacy"
    | none => "error"

partial def loop (h : IO.FS.Stream) : IO Unit := do
  let line ← h.getLine
  if line.isEmpty then return ()
  IO.println (step line)
  loop h

def main : IO Unit := do loop (← IO.getStdin)

end Driver.Sigs
