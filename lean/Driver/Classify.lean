/-
  Driver.Classify — `driver classify`: line protocol of the classifiers family (property C19).

  One request per line, eight space-separated tokens:

      <classifier> <markers> <tname> <status> <status_code> <code> <sqlstate> <args>

  classifier   default | strict | http | sqlstate | pyodbc | optional:<lib>
               with <lib> ∈ aiohttp | grpc | boto3 | redis | urllib3 (library absent)
  markers      five characters 0/1: isinstance(err, TimeoutError), PermanentError, RateLimitError,
               ConcurrencyError, ServerError — in this order
  tname        `x` followed by the hex encoding (two lower- or upper-case hex digits per character)
               of type(err).__name__; ASCII only (every byte < 0x80); `x` alone is the empty name
  status … sqlstate   one value each (absent attribute = `N`)
  args         values separated by `,`; `-` is the empty tuple

  value        N                 None
               T | F             True | False
               i<decimal>        int of any size, optional leading `-`     (i-5, i0, i10000…)
               fn | fp | fm      float nan | +inf | -inf
               fx<hex>           finite float; <hex> = hex of repr(f)      (fx302e30 = 0.0)
               s<hex>            str (ASCII); `s` alone is ""
               b<len>            bytes of that length
               c<len>            container (list/tuple/dict/set) of that length whose str() succeeds
               C<len>            container of that length whose str() raises an Exception
               o1 | o0           other object, truthy | falsy

  Answer, one line per request:   <CLASS> <branch> <SPEC>

  CLASS    name of the ErrorClass the model returns
  branch   which test decided (marker | code | name | fallback for _classify; attr-status |
           attr-status_code | attr-code | arg | default/<…> for http; attr | args |
           attr-str-raises | default/<…> | fallback for sqlstate / pyodbc; absent/<…> for
           optional)
  SPEC     the class promised by the documented table (`Classify.Spec.expected`) or `-` when the
           documentation promises nothing for this input

  A malformed line is answered `bad-op` (never a default).  Lines starting with `#` and empty
  lines are echoed as `#`.
-/
import Redress.Model.Classify

namespace Driver.Classify

open Redress Redress.Classify

def hexVal (c : Char) : Option Nat :=
  if '0' ≤ c ∧ c ≤ '9' then some (c.toNat - '0'.toNat)
  else if 'a' ≤ c ∧ c ≤ 'f' then some (c.toNat - 'a'.toNat + 10)
  else if 'A' ≤ c ∧ c ≤ 'F' then some (c.toNat - 'A'.toNat + 10)
  else none

/-- hex → ASCII characters; rejects odd length, non-hex digits and bytes ≥ 0x80 -/
def unhex : List Char → Option (List Char)
  | [] => some []
  | a :: b :: rest => do
    let h ← hexVal a
    let l ← hexVal b
    let n := 16 * h + l
    if n < 128 then
      let tl ← unhex rest
      pure (Char.ofNat n :: tl)
    else none
  | _ => none

def parseNat (cs : List Char) : Option Nat :=
  if cs.isEmpty || !cs.all Char.isDigit then none else (String.ofList cs).toNat?

def parseInt (cs : List Char) : Option Int :=
  match cs with
  | '-' :: rest => (parseNat rest).map fun n => - (n : Int)
  | _ => (parseNat cs).map fun n => (n : Int)

def parseVal (tok : String) : Option PyVal :=
  match tok.toList with
  | ['N'] => some .none
  | ['T'] => some (.bool true)
  | ['F'] => some (.bool false)
  | 'i' :: rest => (parseInt rest).map .int
  | ['f', 'n'] => some (.float .nan)
  | ['f', 'p'] => some (.float .inf)
  | ['f', 'm'] => some (.float .negInf)
  | 'f' :: 'x' :: rest => (unhex rest).map fun cs => .float (.fin (String.ofList cs))
  | 's' :: rest => (unhex rest).map fun cs => .str (String.ofList cs)
  | 'b' :: rest => (parseNat rest).map .bytes
  | 'c' :: rest => (parseNat rest).map fun n => .container n true
  | 'C' :: rest => (parseNat rest).map fun n => .container n false
  | ['o', '1'] => some (.obj true)
  | ['o', '0'] => some (.obj false)
  | _ => none

def parseArgs (tok : String) : Option (List PyVal) :=
  if tok == "-" then some [] else (tok.splitOn ",").mapM parseVal

def parseBit : Char → Option Bool
  | '0' => some false
  | '1' => some true
  | _ => none

def parseLib : String → Option Lib
  | "aiohttp" => some .aiohttp | "grpc" => some .grpc | "boto3" => some .boto3
  | "redis" => some .redis | "urllib3" => some .urllib3 | _ => none

def parseClassifier (tok : String) : Option Classifier :=
  match tok with
  | "default" => some .default
  | "strict" => some .strict
  | "http" => some .http
  | "sqlstate" => some .sqlstate
  | "pyodbc" => some .pyodbc
  | _ =>
    match tok.splitOn ":" with
    | ["optional", lib] => (parseLib lib).map .optional
    | _ => none

def parseLine (line : String) : Option (Classifier × PyExc) :=
  match line.splitOn " " with
  | [cl, mk, tn, st, sc, co, sq, ar] => do
    let cl ← parseClassifier cl
    let (t, p, r, c, s) ← match mk.toList with
      | [t, p, r, c, s] => do
        pure (← parseBit t, ← parseBit p, ← parseBit r, ← parseBit c, ← parseBit s)
      | _ => none
    let tname ← match tn.toList with
      | 'x' :: rest => (unhex rest).map String.ofList
      | _ => none
    let e : PyExc :=
      { isTimeout := t, isPermanent := p, isRateLimit := r, isConcurrency := c, isServer := s,
        tname := tname,
        status := ← parseVal st, statusCode := ← parseVal sc, code := ← parseVal co,
        sqlstate := ← parseVal sq, args := ← parseArgs ar }
    pure (cl, e)
  | _ => none

def answer (line : String) : String :=
  if line.isEmpty || line.front == '#' then "#"
  else
    match parseLine line with
    | none => "bad-op"
    | some (cl, e) =>
      let spec := match Spec.expected cl e with
        | some k => k.name
        | none => "-"
      s!"{(run cl e).name} {branch cl e} {spec}"

partial def loop (h : IO.FS.Stream) (out : IO.FS.Stream) : IO Unit := do
  let line ← h.getLine
  if line.isEmpty then return
  out.putStrLn (answer line.trimAscii.toString)
  loop h out

def main : IO Unit := do
  let out ← IO.getStdout
  loop (← IO.getStdin) out
  out.flush

end Driver.Classify
