/-
  Driver.BudgetOps — line protocol for `driver budget` (family budget_ops, property C10).

  One request per line, exactly one reply line per request.  Times are `Nat` ticks.

  MODEL lines (drive `Redress.Budget.{consume, remaining}` on one budget object):

    new <max_retries:int> <window:int>
        -> `ok`      fresh budget (empty deque)
        -> `reject`  the constructor raises (max_retries < 0 or window <= 0); no budget afterwards
    consume <now:nat> <cost:int>
        -> `granted <0|1> events=<e1,e2,...|->`   deque after the call, oldest first
        -> `reject`  cost < 1 (the code raises ValueError before touching the deque)
    remaining <now:nat>
        -> `remaining <n> events=<...>`

    `now` need not be non-decreasing here: the model's prune is the pop-left loop and is compared
    with the implementation on unsorted deques as well.

  SPEC lines (evaluate the Lean spec predicates of `Redress/Spec/Budget.lean` on a log recorded
  from the IMPLEMENTATION):

    spec <max_retries:nat> <window:nat> | <entries> [| <events>]
        entries : `;`-separated, `-` for none
                  `c,<now>,<cost>,<0|1>`   consume(now, cost) returned False/True
                  `r,<now>,<n>`            remaining() at now returned n
        events  : optional, the implementation's deque after the last entry (`e1,e2,...` or `-`)
        -> `spec-ok`
        -> `spec-bad <pred>@<where> ...`  every failing predicate, in this order:
              monotone@<i>       history not non-decreasing at entry i (harness error, not a finding)
              shape@<i>          entry i has the wrong kind of output
              refusal@<i>        consume i: granted ≠ (|live| + cost ≤ max)        [C10]
              remaining@<i>      remaining i: n ≠ max − |live|                      [C10]
              window@<t>:<n>     n > max grants in (t − window, t]                  [C10]
              events@end         deque ≠ live grants at the last clock value (internal state)

  Anything else -> `bad-op` (also: model lines before a successful `new`).
-/
import Redress.Spec.Budget

namespace Driver.BudgetOps

open Redress.Budget

def natListTok (l : List Nat) : String :=
  if l.isEmpty then "-" else String.intercalate "," (l.map toString)

def words (s : String) : List String := (s.splitOn " ").filter (· ≠ "")

def parseNatList (s : String) : Option (List Nat) :=
  if s == "-" then some [] else (s.splitOn ",").mapM String.toNat?

def parseEntry (s : String) : Option Entry :=
  match s.splitOn "," with
  | ["c", now, cost, "0"] => do pure (.consume (← now.toNat?) (← cost.toNat?), .granted false)
  | ["c", now, cost, "1"] => do pure (.consume (← now.toNat?) (← cost.toNat?), .granted true)
  | ["r", now, n] => do pure (.remaining (← now.toNat?), .remaining (← n.toNat?))
  | _ => none

def parseLog (s : String) : Option Log :=
  if s == "-" then some [] else (s.splitOn ";").mapM parseEntry

/-- index of the first op whose clock value is below its predecessor's -/
def firstNonMonotone (lo idx : Nat) : History → Option Nat
  | [] => none
  | op :: rest => if lo ≤ op.now then firstNonMonotone op.now (idx + 1) rest else some idx

def firstWindowBad (max window : Nat) (grants : List Nat) : Option (Nat × Nat) :=
  (grants.find? (fun t => !decide (countIn window t grants ≤ max))).map
    fun t => (t, countIn window t grants)

def specLine (c : Cfg) (l : Log) (events : Option (List Nat)) : String := Id.run do
  let mut bad : Array String := #[]
  if !monotoneFrom 0 l.ops then
    bad := bad.push s!"monotone@{(firstNonMonotone 0 0 l.ops).getD 0}"
  if !shapeOk l then
    bad := bad.push s!"shape@{(firstBad shapeEntryOk [] 0 l).getD 0}"
  if !refusalOk c l then
    bad := bad.push s!"refusal@{(firstBad (refusalEntryOk c) [] 0 l).getD 0}"
  if !remainingOk c l then
    bad := bad.push s!"remaining@{(firstBad (remainingEntryOk c) [] 0 l).getD 0}"
  if !windowBoundOk c.maxRetries c.window l.grants then
    let (t, n) := (firstWindowBad c.maxRetries c.window l.grants).getD (0, 0)
    bad := bad.push s!"window@{t}:{n}"
  match events with
  | some ev => if !eventsOk c l ev then bad := bad.push "events@end"
  | none => pure ()
  if bad.isEmpty then "spec-ok" else "spec-bad " ++ String.intercalate " " bad.toList

def handleSpec (line : String) : String :=
  match (line.splitOn "|").map (·.trimAscii.toString) with
  | hd :: logS :: more =>
    match words hd, more with
    | ["spec", m, w], [] =>
      match m.toNat?, w.toNat?, parseLog logS with
      | some m, some w, some l => specLine { maxRetries := m, window := w } l none
      | _, _, _ => "bad-op"
    | ["spec", m, w], [evS] =>
      match m.toNat?, w.toNat?, parseLog logS, parseNatList evS with
      | some m, some w, some l, some ev => specLine { maxRetries := m, window := w } l (some ev)
      | _, _, _, _ => "bad-op"
    | _, _ => "bad-op"
  | _ => "bad-op"

/-- One request; the state is the current budget (none before `new` / after a rejected `new`). -/
def handle (st : Option (Cfg × St)) (line : String) : Option (Cfg × St) × String :=
  match words line with
  | "spec" :: _ => (st, handleSpec line)
  | ["new", m, w] =>
    match m.toInt?, w.toInt? with
    | some m, some w =>
      match mkCfg? m w with
      | some c => (some (c, {}), "ok")
      | none => (none, "reject")
    | _, _ => (st, "bad-op")
  | ["consume", now, cost] =>
    match st, now.toNat?, cost.toInt? with
    | some (c, s), some now, some cost =>
      match consume? c s now cost with
      | some (ok, s') =>
        (some (c, s'), s!"granted {if ok then 1 else 0} events={natListTok s'.events}")
      | none => (st, "reject")
    | _, _, _ => (st, "bad-op")
  | ["remaining", now] =>
    match st, now.toNat? with
    | some (c, s), some now =>
      let (n, s') := remaining c s now
      (some (c, s'), s!"remaining {n} events={natListTok s'.events}")
    | _, _ => (st, "bad-op")
  | _ => (st, "bad-op")

partial def loop (h : IO.FS.Stream) (out : IO.FS.Stream) (st : Option (Cfg × St)) : IO Unit := do
  let line ← h.getLine
  if line.isEmpty then return
  let line := line.trimAscii.toString
  if line.isEmpty || line.startsWith "#" then
    out.putStrLn "# skip"
    loop h out st
  else
    let (st', reply) := handle st line
    out.putStrLn reply
    loop h out st'

def main : IO Unit := do
  let out ← IO.getStdout
  loop (← IO.getStdin) out none
  out.flush

end Driver.BudgetOps
