import Driver.Main
