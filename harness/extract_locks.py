#!/usr/bin/env python3
"""extract_locks.py — translator from the lock structure of redress's `CircuitBreaker` and `Budget`
to Lean proof obligations (property C17).

    python extract_locks.py --repo /repo --out /verif/lean/Redress/Generated/LockShape.lean

also importable:  `extract(repo_path) -> dict`, `render_lean(info) -> str`, `render_audit(info) -> str`,
`write_generated(repo_path, out_path) -> dict`.

What it does
------------
For each target class it parses the *current working-tree source* with `ast` and computes

1. the lock attribute: the single `self.<x> = threading.Lock()` of `__init__`;
2. the **mutable attribute set**: every `self.<a>` that, anywhere in the class outside `__init__`, is
   assigned / aug-assigned / deleted / used as a loop or `with … as` target, item-assigned
   (`self.a[k] = v`), mutated through a mutator method call (`self.a.append(...)`, `.popleft()`,
   `.clear()`, …), mutated through a local alias (`b = self.a.get(k); b.append(x)`), or passed to a
   private helper that mutates the corresponding parameter.  Nothing is hard-coded;
3. for each private helper (`_name`): whether it is **shared-touching** — it mentions a mutable
   attribute, mutates one of its parameters, or calls a helper that (transitively) does;
4. for each **public operation** (every method whose name does not start with a single underscore,
   properties included, `__init__` excluded): the set of its control-flow **paths**.  Every path is a
   straight-line list of instructions, one per executed source statement (compound statements
   contribute their header: the `if`/`while` test, the `for` header):

       acq   the `with self.<lock>:` line
       rel   leaving that `with` block: at its normal end, or right after a `return` / `raise`
             statement inside it (the context manager releases on every exit)
       sh    the statement (for `return`/`if`/`while`/`for`: the expression it evaluates) mentions a
             mutable attribute, calls a shared-touching helper, or mutates a local alias of a mutable
             attribute
       loc   everything else: clock reads (`self._clock()`, `time.monotonic()`), argument validation,
             reads of attributes assigned only in `__init__`, pure local computation

   Encoding of control flow (documented choice): **a SET of straight-line paths per method**, each
   path with its own Lean `def …_shape` and its own `theorem …_wl : wl false … = true := by decide`.
   `if` forks the path; `return`/`raise` end it (after the `rel` if inside the `with`); a loop
   contributes its body 0 times and once — its body must be lock-neutral (no `with`, no
   `return`/`raise`/`break`/`continue`; the extractor refuses anything else), which is what makes
   `Redress.Threads.wl_repeat` (any number of iterations) applicable.

Anything the extractor does not understand makes it **fail loudly** (`ExtractError`, exit status 2):
a second lock, `RLock`, `.acquire()`/`.release()`, any mention of the lock outside a `with` item,
nested `with self._lock`, any other `with`, `try`, `match`, `async`, `yield`/`await`, nested functions
or lambdas capturing `self`, `self` escaping (`f(self)`, `getattr(self, …)`, `self.__dict__`), calling
a public (lock-taking) method from inside the class, a helper that touches the lock, unknown
decorators, loops with exits, `global`/`nonlocal`/imports inside methods.

Limits (by design, stated in the C17 report): the classification is per source statement; aliasing of
mutable containers through plain local *reads* outside the lock is not tracked; exceptions raised
implicitly inside a statement are not modelled (the `with` releases the lock on them as well).
"""
from __future__ import annotations

import argparse
import ast
import hashlib
import json
import sys
from pathlib import Path

TARGETS = [
    ("src/redress/circuit.py", "CircuitBreaker"),
    ("src/redress/budget.py", "Budget"),
]

MUTATORS = {
    "append", "appendleft", "extend", "extendleft", "insert", "pop", "popleft", "popitem", "remove",
    "clear", "rotate", "reverse", "sort", "add", "discard", "update", "setdefault",
    "difference_update", "intersection_update", "symmetric_difference_update",
    "__setitem__", "__delitem__", "__iadd__",
}

LOCK_FACTORIES = {"Lock"}          # threading.Lock()
REFUSED_LOCK_FACTORIES = {"RLock", "Semaphore", "BoundedSemaphore", "Condition", "Event", "Barrier"}


class ExtractError(Exception):
    """A construct the translator does not understand.  Never guess."""


def _err(cls: str, node: ast.AST | None, msg: str) -> ExtractError:
    where = f" (line {node.lineno})" if node is not None and hasattr(node, "lineno") else ""
    return ExtractError(f"{cls}{where}: {msg}")


# ------------------------------------------------------------------------------------------------
# small AST helpers
# ------------------------------------------------------------------------------------------------

def _is_self_attr(node: ast.AST) -> str | None:
    """`self.<a>` -> 'a'"""
    if isinstance(node, ast.Attribute) and isinstance(node.value, ast.Name) and node.value.id == "self":
        return node.attr
    return None


def _self_attrs(node: ast.AST) -> set[str]:
    """all `self.<a>` mentioned inside node"""
    out = set()
    for n in ast.walk(node):
        a = _is_self_attr(n)
        if a is not None:
            out.add(a)
    return out


def _root_name(node: ast.AST) -> str | None:
    """`x`, `x[k]`, `x.y` -> 'x' (a plain local at the root)"""
    while isinstance(node, (ast.Subscript, ast.Attribute, ast.Starred)):
        node = node.value
    if isinstance(node, ast.Name):
        return node.id
    return None


def _store_targets(stmt: ast.stmt) -> list[ast.expr]:
    if isinstance(stmt, ast.Assign):
        return list(stmt.targets)
    if isinstance(stmt, (ast.AugAssign, ast.AnnAssign)):
        return [stmt.target]
    if isinstance(stmt, ast.Delete):
        return list(stmt.targets)
    if isinstance(stmt, (ast.For, ast.AsyncFor)):
        return [stmt.target]
    if isinstance(stmt, (ast.With, ast.AsyncWith)):
        return [it.optional_vars for it in stmt.items if it.optional_vars is not None]
    return []


def _flatten_targets(t: ast.expr) -> list[ast.expr]:
    if isinstance(t, (ast.Tuple, ast.List)):
        out = []
        for e in t.elts:
            out.extend(_flatten_targets(e))
        return out
    if isinstance(t, ast.Starred):
        return _flatten_targets(t.value)
    return [t]


def _self_method_calls(node: ast.AST) -> list[tuple[str, ast.Call]]:
    """calls of the form `self.<m>(...)`"""
    out = []
    for n in ast.walk(node):
        if isinstance(n, ast.Call):
            a = _is_self_attr(n.func)
            if a is not None:
                out.append((a, n))
    return out


def _header_nodes(stmt: ast.stmt) -> list[ast.AST]:
    """the part of a statement that is *evaluated when the statement's line runs* (for compound
    statements: the header only; the bodies are separate statements)."""
    if isinstance(stmt, ast.If) or isinstance(stmt, ast.While):
        return [stmt.test]
    if isinstance(stmt, ast.For):
        return [stmt.target, stmt.iter]
    if isinstance(stmt, ast.With):
        return [it.context_expr for it in stmt.items] + \
               [it.optional_vars for it in stmt.items if it.optional_vars is not None]
    return [stmt]


def _header_lines(stmt: ast.stmt) -> tuple[int, int]:
    """line range on which line events belong to the statement's header"""
    if isinstance(stmt, (ast.If, ast.While, ast.For, ast.With)):
        hi = max(getattr(n, "end_lineno", stmt.lineno) for n in _header_nodes(stmt))
        return stmt.lineno, max(hi, stmt.lineno)
    return stmt.lineno, getattr(stmt, "end_lineno", stmt.lineno)


# ------------------------------------------------------------------------------------------------
# per-class analysis
# ------------------------------------------------------------------------------------------------

class ClassInfo:
    def __init__(self, relpath: str, cls: ast.ClassDef):
        self.relpath = relpath
        self.node = cls
        self.name = cls.name
        self.methods: dict[str, ast.FunctionDef] = {}
        self.props: set[str] = set()
        for item in cls.body:
            if isinstance(item, ast.AsyncFunctionDef):
                raise _err(self.name, item, f"async method `{item.name}` is not supported")
            if isinstance(item, ast.FunctionDef):
                for d in item.decorator_list:
                    if isinstance(d, ast.Name) and d.id == "property":
                        self.props.add(item.name)
                    else:
                        raise _err(self.name, item,
                                   f"decorator on `{item.name}` not understood: {ast.unparse(d)}")
                if item.name in self.methods:
                    raise _err(self.name, item, f"method `{item.name}` defined twice")
                if not item.args.args or item.args.args[0].arg != "self":
                    raise _err(self.name, item, f"`{item.name}`: first parameter is not `self`")
                self.methods[item.name] = item
            elif isinstance(item, ast.ClassDef):
                raise _err(self.name, item, "nested class is not supported")
        if "__init__" not in self.methods:
            raise _err(self.name, cls, "no __init__")
        if cls.bases and any(not (isinstance(b, ast.Name) and b.id == "object") for b in cls.bases):
            raise _err(self.name, cls, "base classes are not supported (inherited methods are invisible)")
        self.lock = self._find_lock()
        self._check_self_usage()
        self.public = [m for m in self.methods if m != "__init__" and self._is_public(m)]
        self.helpers = [m for m in self.methods if m != "__init__" and not self._is_public(m)]
        self.lock_takers = {m for m in self.methods if m != "__init__" and self._mentions_lock(self.methods[m])}
        for h in self.helpers:
            if h in self.lock_takers:
                raise _err(self.name, self.methods[h], f"private helper `{h}` touches the lock: not supported")
        self.param_mutators = self._param_mutating_helpers()
        self.shared = self._mutable_attrs()
        self.touching = self._shared_touching_helpers()

    @staticmethod
    def _is_public(name: str) -> bool:
        if name.startswith("__") and name.endswith("__"):
            return True
        return not name.startswith("_")

    # -- the lock ------------------------------------------------------------------------------
    def _find_lock(self) -> str:
        locks = []
        for n in ast.walk(self.methods["__init__"]):
            if isinstance(n, (ast.Assign, ast.AnnAssign)) and n.value is not None and isinstance(n.value, ast.Call):
                f = n.value.func
                fname = f.attr if isinstance(f, ast.Attribute) else (f.id if isinstance(f, ast.Name) else None)
                targets = n.targets if isinstance(n, ast.Assign) else [n.target]
                for t in targets:
                    a = _is_self_attr(t)
                    if a is None:
                        continue
                    if fname in LOCK_FACTORIES:
                        locks.append(a)
                    elif fname in REFUSED_LOCK_FACTORIES:
                        raise _err(self.name, n, f"`self.{a} = {fname}()`: only a plain threading.Lock is modelled")
        if len(locks) != 1:
            raise _err(self.name, self.methods["__init__"],
                       f"expected exactly one `self.<x> = threading.Lock()` in __init__, found {locks}")
        # a lock created anywhere else?
        for mname, m in self.methods.items():
            if mname == "__init__":
                continue
            for n in ast.walk(m):
                if isinstance(n, ast.Call):
                    f = n.func
                    fname = f.attr if isinstance(f, ast.Attribute) else (f.id if isinstance(f, ast.Name) else None)
                    if fname in LOCK_FACTORIES | REFUSED_LOCK_FACTORIES:
                        raise _err(self.name, n, f"`{fname}()` created inside `{mname}`: a second lock is not modelled")
        return locks[0]

    def _mentions_lock(self, fn: ast.FunctionDef) -> bool:
        return self.lock in _self_attrs(fn)

    # -- `self` may only appear as `self.<attr>` --------------------------------------------------
    def _check_self_usage(self) -> None:
        for mname, m in self.methods.items():
            if mname == "__init__":
                continue
            attr_values = set()
            for n in ast.walk(m):
                if isinstance(n, ast.Attribute) and isinstance(n.value, ast.Name) and n.value.id == "self":
                    attr_values.add(id(n.value))
                    if n.attr in ("__dict__", "__class__", "__setattr__", "__getattribute__", "__delattr__"):
                        raise _err(self.name, n, f"`self.{n.attr}` in `{mname}`: reflective access not understood")
            for n in ast.walk(m):
                if isinstance(n, ast.Name) and n.id == "self" and id(n) not in attr_values:
                    raise _err(self.name, n, f"`self` escapes in `{mname}` (used other than as `self.<attr>`)")
                if isinstance(n, (ast.FunctionDef, ast.AsyncFunctionDef, ast.Lambda)) and n is not m:
                    raise _err(self.name, n, f"nested function / lambda in `{mname}` is not supported")
                if isinstance(n, (ast.Yield, ast.YieldFrom, ast.Await)):
                    raise _err(self.name, n, f"`yield`/`await` in `{mname}` is not supported")
                if isinstance(n, (ast.Global, ast.Nonlocal, ast.Import, ast.ImportFrom, ast.ClassDef)):
                    raise _err(self.name, n, f"`{type(n).__name__}` inside `{mname}` is not supported")
                if isinstance(n, (ast.AsyncFor, ast.AsyncWith)):
                    raise _err(self.name, n, f"async construct in `{mname}` is not supported")

    # -- helpers that mutate a parameter ---------------------------------------------------------
    def _mutated_roots(self, fn: ast.FunctionDef) -> set[str]:
        """names of plain locals/parameters that `fn` mutates in place"""
        out = set()
        for n in ast.walk(fn):
            if isinstance(n, ast.Call) and isinstance(n.func, ast.Attribute) and n.func.attr in MUTATORS:
                r = _root_name(n.func.value)
                if r is not None and r != "self":
                    out.add(r)
            if isinstance(n, ast.stmt):
                for t in _store_targets(n):
                    for e in _flatten_targets(t):
                        if isinstance(e, (ast.Subscript, ast.Attribute)):
                            r = _root_name(e)
                            if r is not None and r != "self":
                                out.add(r)
        return out

    def _param_mutating_helpers(self) -> dict[str, set[int]]:
        """helper -> indices (0 = first after self) of parameters it mutates in place (fixpoint over
        helper-to-helper calls)."""
        res: dict[str, set[int]] = {h: set() for h in self.methods if h != "__init__"}
        changed = True
        while changed:
            changed = False
            for h, fn in self.methods.items():
                if h == "__init__":
                    continue
                params = [a.arg for a in fn.args.args[1:]] + [a.arg for a in fn.args.kwonlyargs]
                if fn.args.vararg or fn.args.kwarg:
                    params += [x.arg for x in (fn.args.vararg, fn.args.kwarg) if x]
                mutated = self._mutated_roots(fn)
                # passing a parameter on to a helper that mutates it
                for callee, call in _self_method_calls(fn):
                    if callee in res:
                        for idx in res[callee]:
                            if idx < len(call.args):
                                r = _root_name(call.args[idx])
                                if r is not None:
                                    mutated.add(r)
                        if res[callee]:
                            for kw in call.keywords:
                                r = _root_name(kw.value)
                                if r is not None:
                                    mutated.add(r)
                new = {i for i, p in enumerate(params) if p in mutated}
                if not new <= res[h]:
                    res[h] |= new
                    changed = True
        return res

    # -- the mutable attribute set ---------------------------------------------------------------
    def _mutable_attrs(self) -> set[str]:
        shared: set[str] = set()
        for mname, fn in self.methods.items():
            if mname == "__init__":
                continue
            # local aliases: name -> attrs its value was computed from
            alias: dict[str, set[str]] = {}
            for n in ast.walk(fn):
                if isinstance(n, ast.Assign) or (isinstance(n, ast.AnnAssign) and n.value is not None):
                    src = _self_attrs(n.value) - {self.lock}
                    # aliases of aliases
                    for nm in ast.walk(n.value):
                        if isinstance(nm, ast.Name) and nm.id in alias:
                            src |= alias[nm.id]
                    if src:
                        targets = n.targets if isinstance(n, ast.Assign) else [n.target]
                        for t in targets:
                            for e in _flatten_targets(t):
                                if isinstance(e, ast.Name):
                                    alias.setdefault(e.id, set()).update(src)
                if isinstance(n, ast.For):
                    src = _self_attrs(n.iter) - {self.lock}
                    if src:
                        for e in _flatten_targets(n.target):
                            if isinstance(e, ast.Name):
                                alias.setdefault(e.id, set()).update(src)
            for n in ast.walk(fn):
                # direct stores
                if isinstance(n, ast.stmt):
                    for t in _store_targets(n):
                        for e in _flatten_targets(t):
                            a = _is_self_attr(e)
                            if a is not None:
                                shared.add(a)
                            elif isinstance(e, (ast.Subscript, ast.Attribute)):
                                # self.a[k] = v / self.a.b = v / alias[k] = v
                                base = e.value
                                shared |= _self_attrs(base)
                                r = _root_name(base)
                                if r in alias:
                                    shared |= alias[r]
                # mutator calls
                if isinstance(n, ast.Call) and isinstance(n.func, ast.Attribute) and n.func.attr in MUTATORS:
                    shared |= _self_attrs(n.func.value)
                    r = _root_name(n.func.value)
                    if r in alias:
                        shared |= alias[r]
                # passed to a helper that mutates the parameter
                if isinstance(n, ast.Call):
                    callee = _is_self_attr(n.func)
                    if callee in self.param_mutators and self.param_mutators[callee]:
                        fnc = self.methods[callee]
                        params = [a.arg for a in fnc.args.args[1:]]
                        for idx in self.param_mutators[callee]:
                            if idx < len(n.args):
                                shared |= _self_attrs(n.args[idx])
                                r = _root_name(n.args[idx])
                                if r in alias:
                                    shared |= alias[r]
                        for kw in n.keywords:
                            if kw.arg in params and params.index(kw.arg) in self.param_mutators[callee]:
                                shared |= _self_attrs(kw.value)
                                r = _root_name(kw.value)
                                if r in alias:
                                    shared |= alias[r]
                    if isinstance(n.func, ast.Name) and n.func.id in ("setattr", "delattr", "getattr", "vars"):
                        raise _err(self.name, n, f"`{n.func.id}(...)` in `{mname}`: reflective access not understood")
        shared.discard(self.lock)
        # the lock must never be rebound
        for mname, fn in self.methods.items():
            if mname == "__init__":
                continue
            for n in ast.walk(fn):
                if isinstance(n, ast.stmt):
                    for t in _store_targets(n):
                        for e in _flatten_targets(t):
                            if _is_self_attr(e) == self.lock:
                                raise _err(self.name, n, f"`self.{self.lock}` is rebound in `{mname}`")
        # methods are not data
        return {a for a in shared if a not in self.methods}

    # -- which helpers touch shared state (transitively) ------------------------------------------
    def _shared_touching_helpers(self) -> set[str]:
        touching = set()
        for h in self.helpers:
            fn = self.methods[h]
            if (_self_attrs(fn) - set(self.methods)) & self.shared or self.param_mutators.get(h):
                touching.add(h)
        changed = True
        while changed:
            changed = False
            for h in self.helpers:
                if h in touching:
                    continue
                for callee, _ in _self_method_calls(self.methods[h]):
                    if callee in touching:
                        touching.add(h)
                        changed = True
                        break
        for h in self.helpers:
            for callee, call in _self_method_calls(self.methods[h]):
                if callee in self.lock_takers:
                    raise _err(self.name, call, f"helper `{h}` calls lock-taking method `{callee}`")
        return touching

    # -- classification of one statement header ---------------------------------------------------
    def classify(self, stmt: ast.stmt, alias: dict[str, set[str]], ctx: str) -> str:
        nodes = _header_nodes(stmt)
        kind = "loc"
        for node in nodes:
            attrs = _self_attrs(node)
            if self.lock in attrs:
                raise _err(self.name, stmt, f"`self.{self.lock}` mentioned outside a `with` item in `{ctx}`")
            if attrs & self.shared:
                kind = "sh"
            for callee, call in _self_method_calls(node):
                if callee in self.lock_takers or (callee in self.methods and self._is_public(callee)):
                    raise _err(self.name, call,
                               f"`{ctx}` calls public / lock-taking method `{callee}` of the same object: not supported")
                if callee in self.touching:
                    kind = "sh"
            for n in ast.walk(node):
                if isinstance(n, ast.Call) and isinstance(n.func, ast.Attribute) and n.func.attr in MUTATORS:
                    r = _root_name(n.func.value)
                    if r in alias and alias[r] & self.shared:
                        kind = "sh"
                # a property of the same object read through self (would take the lock)
                a = _is_self_attr(n)
                if a is not None and a in self.props:
                    raise _err(self.name, n, f"`{ctx}` reads property `self.{a}` (lock-taking): not supported")
            if isinstance(node, ast.stmt):
                for t in _store_targets(node):
                    for e in _flatten_targets(t):
                        if isinstance(e, (ast.Subscript, ast.Attribute)) and _is_self_attr(e) is None:
                            r = _root_name(e)
                            if r in alias and alias[r] & self.shared:
                                kind = "sh"
        return kind

    def note_alias(self, stmt: ast.stmt, alias: dict[str, set[str]]) -> None:
        if isinstance(stmt, ast.Assign) or (isinstance(stmt, ast.AnnAssign) and stmt.value is not None):
            src = _self_attrs(stmt.value) & self.shared
            for nm in ast.walk(stmt.value):
                if isinstance(nm, ast.Name) and nm.id in alias:
                    src |= alias[nm.id]
            targets = stmt.targets if isinstance(stmt, ast.Assign) else [stmt.target]
            for t in targets:
                for e in _flatten_targets(t):
                    if isinstance(e, ast.Name):
                        if src:
                            alias.setdefault(e.id, set()).update(src)

    # -- path enumeration ------------------------------------------------------------------------
    def paths_of(self, mname: str) -> tuple[list[list[tuple[str, int]]], dict[int, dict]]:
        """returns (paths, lines): each path a list of (kind, lineno); `lines` maps every source line
        of a statement header of the method to {'kind','held','stmt'}."""
        fn = self.methods[mname]
        lines: dict[int, dict] = {}
        # aliases are collected flow-insensitively over the whole method (conservative)
        alias: dict[str, set[str]] = {}
        for _ in range(3):
            for n in ast.walk(fn):
                if isinstance(n, ast.stmt):
                    self.note_alias(n, alias)

        def reg(stmt: ast.stmt, kind: str, held: bool) -> None:
            lo, hi = _header_lines(stmt)
            for ln in range(lo, hi + 1):
                lines[ln] = {"kind": kind, "held": held, "stmt": stmt.lineno}

        MAXPATHS = 512

        def seq(stmts: list[ast.stmt], held: bool, in_loop: bool) -> list[tuple[list[tuple[str, int]], bool]]:
            """paths through `stmts`: (instructions, finished?) — finished = ended by return/raise"""
            acc: list[tuple[list[tuple[str, int]], bool]] = [([], False)]
            for st in stmts:
                nxt = []
                tails = one(st, held, in_loop)
                for (p, done) in acc:
                    if done:
                        nxt.append((p, True))
                    else:
                        for (q, d2) in tails:
                            nxt.append((p + q, d2))
                acc = nxt
                if len(acc) > MAXPATHS:
                    raise _err(self.name, st, f"`{mname}`: more than {MAXPATHS} paths")
            return acc

        def one(st: ast.stmt, held: bool, in_loop: bool) -> list[tuple[list[tuple[str, int]], bool]]:
            if isinstance(st, ast.Expr) and isinstance(st.value, ast.Constant) and isinstance(st.value.value, str):
                return [([], False)]                     # docstring: no line event
            if isinstance(st, (ast.Return, ast.Raise)):
                if in_loop:
                    raise _err(self.name, st, f"`{mname}`: return/raise inside a loop is not supported")
                k = self.classify(st, alias, mname)
                reg(st, k, held)
                ins = [(k, st.lineno)]
                if held:
                    ins.append(("rel", st.lineno))
                return [(ins, True)]
            if isinstance(st, (ast.Assign, ast.AugAssign, ast.AnnAssign, ast.Expr, ast.Pass, ast.Assert, ast.Delete)):
                k = self.classify(st, alias, mname)
                reg(st, k, held)
                return [([(k, st.lineno)], False)]
            if isinstance(st, ast.If):
                k = self.classify(st, alias, mname)
                reg(st, k, held)
                out = []
                for (p, d) in seq(st.body, held, in_loop):
                    out.append(([(k, st.lineno)] + p, d))
                for (p, d) in (seq(st.orelse, held, in_loop) if st.orelse else [([], False)]):
                    out.append(([(k, st.lineno)] + p, d))
                return out
            if isinstance(st, (ast.While, ast.For)):
                if st.orelse:
                    raise _err(self.name, st, f"`{mname}`: loop `else` is not supported")
                for n in ast.walk(st):
                    if isinstance(n, (ast.Break, ast.Continue, ast.Return, ast.Raise, ast.With)):
                        raise _err(self.name, n,
                                   f"`{mname}`: `{type(n).__name__}` inside a loop is not supported (loop bodies must be lock-neutral)")
                k = self.classify(st, alias, mname)
                reg(st, k, held)
                out = [([(k, st.lineno)], False)]
                for (p, d) in seq(st.body, held, True):
                    assert not d
                    out.append(([(k, st.lineno)] + p + [(k, st.lineno)], False))
                return out
            if isinstance(st, ast.With):
                if len(st.items) != 1:
                    raise _err(self.name, st, f"`{mname}`: `with` with several items is not supported")
                it = st.items[0]
                if _is_self_attr(it.context_expr) != self.lock:
                    raise _err(self.name, st,
                               f"`{mname}`: `with {ast.unparse(it.context_expr)}` is not the component lock: not understood")
                if it.optional_vars is not None:
                    raise _err(self.name, st, f"`{mname}`: `with self.{self.lock} as …` is not supported")
                if held:
                    raise _err(self.name, st, f"`{mname}`: nested `with self.{self.lock}` (would self-deadlock)")
                if in_loop:
                    raise _err(self.name, st, f"`{mname}`: `with self.{self.lock}` inside a loop is not supported")
                reg(st, "acq", False)
                out = []
                for (p, d) in seq(st.body, True, False):
                    if d:
                        out.append(([("acq", st.lineno)] + p, True))      # `rel` already emitted at the return
                    else:
                        out.append(([("acq", st.lineno)] + p + [("rel", st.lineno)], False))
                return out
            raise _err(self.name, st, f"`{mname}`: statement `{type(st).__name__}` is not understood")

        paths = [p for (p, _) in seq(fn.body, False, False)]
        return paths, lines


# ------------------------------------------------------------------------------------------------
# public API
# ------------------------------------------------------------------------------------------------

def py_wl(held: bool, shape: list[str]) -> bool:
    """Python copy of `Redress.Threads.wl` — used ONLY to attribute a failing `decide` to a method
    and to prioritise the dynamic search; the obligation itself is Lean's."""
    for k in shape:
        if k == "loc":
            continue
        if k == "acq":
            if held:
                return False
            held = True
        elif k == "rel":
            if not held:
                return False
            held = False
        elif k == "sh":
            if not held:
                return False
        else:
            raise ValueError(k)
    return not held


def _lean_ident(s: str) -> str:
    out = "".join(ch if (ch.isalnum() or ch == "_") else "_" for ch in s)
    return out.strip("_") or "x"


def extract(repo_path: str | Path) -> dict:
    repo = Path(repo_path)
    info: dict = {"files": {}, "classes": {}}
    for rel, cname in TARGETS:
        path = repo / rel
        if not path.exists():
            raise ExtractError(f"{rel}: file not found under {repo}")
        src = path.read_bytes()
        info["files"][rel] = hashlib.sha256(src).hexdigest()
        tree = ast.parse(src.decode("utf-8"), filename=str(path))
        classes = [n for n in tree.body if isinstance(n, ast.ClassDef) and n.name == cname]
        if len(classes) != 1:
            raise ExtractError(f"{rel}: expected exactly one top-level class `{cname}`, found {len(classes)}")
        ci = ClassInfo(rel, classes[0])
        attrs_all = set()
        for m in ci.methods.values():
            attrs_all |= _self_attrs(m)
        attrs_all -= set(ci.methods)
        cinfo = {
            "file": rel,
            "abs_file": str(path),
            "lock": ci.lock,
            "shared": sorted(ci.shared),
            "immutable": sorted(attrs_all - ci.shared - {ci.lock}),
            "helpers": {h: {"shared": h in ci.touching,
                            "mutates_params": sorted(ci.param_mutators.get(h, ())),
                            "lines": [ci.methods[h].lineno, ci.methods[h].end_lineno]}
                        for h in ci.helpers},
            "properties": sorted(ci.props & set(ci.public)),
            "methods": {},
        }
        for m in ci.public:
            paths, lines = ci.paths_of(m)
            fn = ci.methods[m]
            pl = []
            for k, p in enumerate(paths):
                shape = [x[0] for x in p]
                pl.append({"name": f"{_lean_ident(cname)}_{_lean_ident(m)}_p{k}",
                           "label": f"{cname}.{m}#{k}",
                           "shape": shape,
                           "lines": [x[1] for x in p],
                           "wl": py_wl(False, shape)})
            cinfo["methods"][m] = {"paths": pl,
                                   "lines": {str(k): v for k, v in sorted(lines.items())},
                                   "def_lines": [fn.lineno, fn.end_lineno],
                                   "body_first_line": fn.body[0].lineno}
        info["classes"][cname] = cinfo
    return info


HEADER = """/-
  GENERATED by harness/extract_locks.py on every C17 check — DO NOT EDIT.

  Lock shapes of the public operations of `CircuitBreaker` and `Budget`, extracted from the working
  tree.  One straight-line shape per control-flow path of each public method; the obligation
  `wl false shape = true` (every shared access and every release under the lock, no nested acquire,
  nothing held at the end) is discharged by `decide`.  Removing a `with self._lock:` or moving a
  shared access out of it makes `decide` fail.

  source hashes (sha256):
{hashes}
  mutable (shared) attributes found:
{shared}
-/
import Redress.Model.Threads

namespace Redress.Generated.LockShape
open Redress.Threads

"""


def render_lean(info: dict) -> str:
    hashes = "\n".join(f"    {rel}  {h}" for rel, h in sorted(info["files"].items()))
    shared = "\n".join(f"    {c}: {', '.join(ci['shared']) or '(none)'}   [lock: {ci['lock']}]"
                       for c, ci in sorted(info["classes"].items()))
    out = [HEADER.format(hashes=hashes, shared=shared)]
    all_entries = []
    for cname, ci in info["classes"].items():
        for m, mi in ci["methods"].items():
            for p in mi["paths"]:
                shape = ", ".join("." + k for k in p["shape"])
                out.append(f"/-- `{p['label']}` ({ci['file']}, lines {' '.join(map(str, p['lines']))}) -/\n")
                out.append(f"def {p['name']}_shape : List Instr := [{shape}]\n")
                out.append(f"theorem {p['name']}_wl : wl false {p['name']}_shape = true := by decide\n\n")
                all_entries.append(f"  (\"{p['label']}\", {p['name']}_shape)")
    out.append("/-- every extracted path, labelled `Class.method#path` -/\n")
    out.append("def allShapes : List (String × List Instr) := [\n" + ",\n".join(all_entries) + "]\n\n")
    out.append("/-- all extracted shapes obey the lock discipline (consumed by `Redress.Props.C17`) -/\n")
    out.append("theorem allShapes_wl : ∀ p ∈ allShapes, wl false p.2 = true := by decide\n\n")
    out.append("end Redress.Generated.LockShape\n")
    return "".join(out)


def render_audit(info: dict) -> str:
    out = ["/- GENERATED by harness/extract_locks.py alongside LockShape.lean — DO NOT EDIT. -/\n",
           "import Redress.Generated.LockShape\n\n"]
    for cname, ci in info["classes"].items():
        for m, mi in ci["methods"].items():
            for p in mi["paths"]:
                out.append(f"#print axioms Redress.Generated.LockShape.{p['name']}_wl\n")
    out.append("#print axioms Redress.Generated.LockShape.allShapes_wl\n")
    return "".join(out)


def _write_if_changed(path: Path, text: str) -> bool:
    if path.exists() and path.read_text() == text:
        return False
    path.parent.mkdir(parents=True, exist_ok=True)
    tmp = path.with_suffix(path.suffix + ".tmp")
    tmp.write_text(text)
    tmp.replace(path)
    return True


REFUSED = """/-
  GENERATED by harness/extract_locks.py on every C17 check — DO NOT EDIT.

  THE TRANSLATOR REFUSED THE WORKING TREE:
    {msg}
  so the lock-shape obligation is NOT established.  This file fails to build on purpose (a stale copy of
  the previous shapes must not keep `Redress.Props.C17` green).
-/
import Redress.Model.Threads

namespace Redress.Generated.LockShape
open Redress.Threads

def allShapes : List (String × List Instr) := []

/-- deliberately unprovable -/
theorem extraction_refused_obligation_not_established : (0 : Nat) = 1 := by decide

theorem allShapes_wl : ∀ p ∈ allShapes, wl false p.2 = true := by decide

end Redress.Generated.LockShape
"""


def write_generated(repo_path: str | Path, out_path: str | Path) -> dict:
    """extract + write LockShape.lean and LockShapeAudit.lean next to it; returns the info dict.
    If the translator refuses the tree, a LockShape.lean that FAILS to build is written and the
    ExtractError is re-raised."""
    out = Path(out_path)
    try:
        info = extract(repo_path)
    except (ExtractError, SyntaxError) as e:
        msg = str(e).replace("-/", "- /").replace("/-", "/ -")
        _write_if_changed(out, REFUSED.format(msg=msg))
        _write_if_changed(out.with_name("LockShapeAudit.lean"),
                          "/- GENERATED — extraction refused, nothing to audit -/\nimport Redress.Generated.LockShape\n")
        raise
    info["changed"] = _write_if_changed(out, render_lean(info))
    _write_if_changed(out.with_name("LockShapeAudit.lean"), render_audit(info))
    return info


def main(argv: list[str] | None = None) -> int:
    ap = argparse.ArgumentParser(description=__doc__.split("\n\n")[0])
    ap.add_argument("--repo", default="/repo")
    ap.add_argument("--out", default=None, help="path of LockShape.lean (LockShapeAudit.lean is written next to it)")
    ap.add_argument("--json", action="store_true", help="print the extraction as JSON")
    a = ap.parse_args(argv)
    try:
        if a.out:
            info = write_generated(a.repo, a.out)
        else:
            info = extract(a.repo)
    except ExtractError as e:
        print(f"extract_locks: CANNOT TRANSLATE: {e}", file=sys.stderr)
        return 2
    except SyntaxError as e:
        print(f"extract_locks: CANNOT PARSE: {e}", file=sys.stderr)
        return 2
    if a.json:
        print(json.dumps(info, indent=1, sort_keys=True))
    else:
        for c, ci in info["classes"].items():
            print(f"{c}: lock={ci['lock']} shared={ci['shared']} immutable={ci['immutable']}")
            for m, mi in ci["methods"].items():
                for p in mi["paths"]:
                    print(f"  {p['label']:<34} wl={'ok ' if p['wl'] else 'BAD'} {' '.join(p['shape'])}")
    return 0


if __name__ == "__main__":
    sys.exit(main())
