"""C12's translator for the argument-forwarding glue.

Parses (with `ast`, never imports) the working tree's
    policy/wrappers.py, policy/context.py, policy/retry_sync.py, policy/retry_async.py, policy/policy.py,
    policy/async_policy.py, config.py
and writes `lean/Redress/Generated/Forwarding.lean`: one `Forwarding.Site` per forwarding site (the options
the site exposes, the options its callee accepts, the function it actually calls, the arguments it passes) plus
the obligation `allOk expected extracted = true`, discharged by `decide +kernel`, where `expected`
(`Redress/Props/C12Fwd.lean`, hand-written) says which function each site must call and how every option must
travel.  A dropped / swapped / renamed argument, a wrapper calling something else than the container, a context
dataclass whose field order no longer matches its positional construction … make the obligation fail.

    python harness/extract_forwarding.py [--repo DIR] [--out FILE]
"""
from __future__ import annotations

import argparse
import ast
import hashlib
import sys
from pathlib import Path

POL = "src/redress/policy/"
FILES = {"decorator": POL + "decorator.py", "wrappers": POL + "wrappers.py", "context": POL + "context.py", "retry_sync": POL + "retry_sync.py",
         "retry_async": POL + "retry_async.py", "policy": POL + "policy.py", "async_policy": POL + "async_policy.py",
         "config": "src/redress/config.py"}

# site -> (module, class, function, how its options are found, where the callee's options are found)
#   options:  "kwonly" = keyword-only parameters of the function; "fields" = dataclass fields of the class minus
#             `policy`; "config" = fields of RetryConfig
#   callee options: (module, class, function|None) ; None = dataclass fields minus `policy`; () = not compared
SITES = [
    ("wrappers.RetryPolicy.call", "wrappers", "RetryPolicy", "call", "kwonly", ("policy", "Policy", "call")),
    ("wrappers.RetryPolicy.execute", "wrappers", "RetryPolicy", "execute", "kwonly", ("policy", "Policy", "execute")),
    ("wrappers.RetryPolicy.context", "wrappers", "RetryPolicy", "context", "kwonly", ("policy", "Policy", "context")),
    ("wrappers.AsyncRetryPolicy.call", "wrappers", "AsyncRetryPolicy", "call", "kwonly", ("async_policy", "AsyncPolicy", "call")),
    ("wrappers.AsyncRetryPolicy.execute", "wrappers", "AsyncRetryPolicy", "execute", "kwonly",
     ("async_policy", "AsyncPolicy", "execute")),
    ("wrappers.AsyncRetryPolicy.context", "wrappers", "AsyncRetryPolicy", "context", "kwonly",
     ("async_policy", "AsyncPolicy", "context")),
    ("wrappers.RetryPolicy.from_config", "wrappers", "RetryPolicy", "from_config", "config", ()),
    ("wrappers.AsyncRetryPolicy.from_config", "wrappers", "AsyncRetryPolicy", "from_config", "config", ()),
    ("retry_sync.Retry.from_config", "retry_sync", "Retry", "from_config", "config", ()),
    ("retry_async.AsyncRetry.from_config", "retry_async", "AsyncRetry", "from_config", "config", ()),
    ("context._RetryContext.call", "context", "_RetryContext", "call", "fields", ("retry_sync", "Retry", "call")),
    ("context._AsyncRetryContext.call", "context", "_AsyncRetryContext", "call", "fields", ("retry_async", "AsyncRetry", "call")),
    ("context._PolicyContext.call", "context", "_PolicyContext", "call", "fields", ("policy", "Policy", "call")),
    ("context._AsyncPolicyContext.call", "context", "_AsyncPolicyContext", "call", "fields",
     ("async_policy", "AsyncPolicy", "call")),
    ("retry_sync.Retry.context", "retry_sync", "Retry", "context", "kwonly", ("context", "_RetryContext", None)),
    ("retry_async.AsyncRetry.context", "retry_async", "AsyncRetry", "context", "kwonly", ("context", "_AsyncRetryContext", None)),
    ("policy.Policy.context", "policy", "Policy", "context", "kwonly", ("context", "_PolicyContext", None)),
    ("async_policy.AsyncPolicy.context", "async_policy", "AsyncPolicy", "context", "kwonly",
     ("context", "_AsyncPolicyContext", None)),
    ("policy.Policy.call", "policy", "Policy", "call", "kwonly", ("retry_sync", "Retry", "call")),
    ("async_policy.AsyncPolicy.call", "async_policy", "AsyncPolicy", "call", "kwonly", ("retry_async", "AsyncRetry", "call")),
]


# the four forwarding calls inside the `@retry` closure: (site, dotted callee as written, where the options come from)
DECO_SITES = [
    ("decorator.retry.RetryPolicy()", "RetryPolicy", ("init", "wrappers", "RetryPolicy")),
    ("decorator.retry.AsyncRetryPolicy()", "AsyncRetryPolicy", ("init", "wrappers", "AsyncRetryPolicy")),
    ("decorator.retry.policy.call", "policy.call", ("call", "wrappers", "RetryPolicy")),
    ("decorator.retry.async_policy.call", "async_policy.call", ("call", "wrappers", "AsyncRetryPolicy")),
]


class ExtractError(Exception):
    pass


def _dotted(node) -> str:
    if isinstance(node, ast.Name):
        return node.id
    if isinstance(node, ast.Attribute):
        return _dotted(node.value) + "." + node.attr
    return ast.unparse(node)


def _val(node) -> str:
    """source text of an argument; `typing.cast(T, x)` is `x` at run time"""
    if (isinstance(node, ast.Call) and _dotted(node.func) in ("cast", "typing.cast") and len(node.args) == 2
            and not node.keywords):
        return _val(node.args[1])
    return ast.unparse(node)


def _find_class(tree, name):
    for n in tree.body:
        if isinstance(n, ast.ClassDef) and n.name == name:
            return n
    raise ExtractError(f"class {name} not found")


def _find_func(cls, name):
    for n in cls.body:
        if isinstance(n, (ast.FunctionDef, ast.AsyncFunctionDef)) and n.name == name:
            return n
    raise ExtractError(f"{cls.name}.{name} not found")


def _fields(cls) -> list[str]:
    return [n.target.id for n in cls.body if isinstance(n, ast.AnnAssign) and isinstance(n.target, ast.Name)
            and n.target.id != "policy"]


def _kwonly(fn) -> list[str]:
    return [a.arg for a in fn.args.kwonlyargs]


def extract(repo: Path) -> tuple[list[dict], dict]:
    trees, hashes = {}, {}
    for mod, rel in FILES.items():
        src = (repo / rel).read_text()
        trees[mod] = ast.parse(src)
        hashes[rel] = hashlib.sha256(src.encode()).hexdigest()
    cfg_fields = _fields(_find_class(trees["config"], "RetryConfig"))
    sites = []
    for name, mod, cls_name, fn_name, how, callee_where in SITES:
        cls = _find_class(trees[mod], cls_name)
        fn = _find_func(cls, fn_name)
        options = {"kwonly": lambda: _kwonly(fn), "fields": lambda: _fields(cls), "config": lambda: cfg_fields}[how]()
        callee_options: list[str] = []
        if callee_where:
            cmod, ccls, cfn = callee_where
            c = _find_class(trees[cmod], ccls)
            callee_options = _fields(c) if cfn is None else _kwonly(_find_func(c, cfn))
        calls = [n for n in ast.walk(fn) if isinstance(n, ast.Call)]
        if not calls:
            raise ExtractError(f"{name}: no call found")
        call = max(calls, key=lambda c: (len(c.keywords) + len(c.args), -c.lineno))   # the forwarding call
        sites.append({"name": name, "options": options, "calleeOptions": callee_options,
                      "callee": _dotted(call.func), "positional": [_val(a) for a in call.args],
                      "keywords": [(k.arg or "**", _val(k.value)) for k in call.keywords],
                      "line": call.lineno, "file": FILES[mod]})
    # the @retry decorator (a module-level function with nested closures)
    decos = [n for n in trees["decorator"].body if isinstance(n, ast.FunctionDef) and n.name == "retry"
             and not any(_dotted(d) in ("overload", "typing.overload") for d in n.decorator_list)]
    if len(decos) != 1:
        raise ExtractError(f"decorator.retry: expected one implementation, found {len(decos)}")
    deco = decos[0]
    retry_opts = _kwonly(deco)
    for name, callee, (kind, cmod, ccls) in DECO_SITES:
        c = _find_class(trees[cmod], ccls)
        if kind == "init":
            options = _kwonly(_find_func(c, "__init__"))
        else:
            init_opts = _kwonly(_find_func(c, "__init__"))      # those travel through the constructor
            options = [p for p in _kwonly(_find_func(c, "call")) if p in retry_opts and p not in init_opts]
        calls = [n for n in ast.walk(deco) if isinstance(n, ast.Call) and _dotted(n.func) == callee]
        if len(calls) != 1:
            raise ExtractError(f"{name}: expected exactly one call of `{callee}` inside retry(), found {len(calls)}")
        call = calls[0]
        sites.append({"name": name, "options": options, "calleeOptions": [p for p in options if p in retry_opts],
                      "callee": callee, "positional": [_val(a) for a in call.args],
                      "keywords": [(k.arg or "**", _val(k.value)) for k in call.keywords],
                      "line": call.lineno, "file": FILES["decorator"]})
    return sites, hashes


def _s(x: str) -> str:
    return '"' + x.replace("\\", "\\\\").replace('"', '\\"') + '"'


def render(sites: list[dict], hashes: dict) -> str:
    out = ["/-",
           "  GENERATED by harness/extract_forwarding.py on every C12 check — DO NOT EDIT.",
           "",
           "  Argument-forwarding sites of the sugar / context / from_config / Policy glue, extracted from the",
           "  working tree, and the obligation that each of them calls the expected function and passes every",
           "  option on under its own name (`Redress.Props.C12Fwd.expected`).",
           "",
           "  source hashes (sha256):"]
    out += [f"    {rel}  {h}" for rel, h in sorted(hashes.items())]
    out += ["-/", "import Redress.Props.C12Fwd", "", "namespace Redress.Generated.Forwarding",
            "open Redress.Forwarding", ""]
    names = []
    for i, s in enumerate(sites):
        ident = "site_" + s["name"].replace(".", "_").replace("()", "_ctor")
        names.append(ident)
        out.append(f"/-- `{s['name']}` ({s['file']}, line {s['line']}) -/")
        out.append(f"def {ident} : Site :=")
        out.append(f"  {{ name := {_s(s['name'])}")
        out.append(f"    options := [{', '.join(_s(x) for x in s['options'])}]")
        out.append(f"    calleeOptions := [{', '.join(_s(x) for x in s['calleeOptions'])}]")
        out.append(f"    callee := {_s(s['callee'])}")
        out.append(f"    positional := [{', '.join(_s(x) for x in s['positional'])}]")
        out.append(f"    keywords := [{', '.join('(' + _s(k) + ', ' + _s(v) + ')' for k, v in s['keywords'])}] }}")
        out.append("")
    out.append(f"def extracted : List Site := [{', '.join(names)}]")
    out.append("")
    out.append("/-- every expected site exists, calls the expected function, forwards every option under its own name")
    out.append("    and exposes exactly the options its callee accepts -/")
    out.append("theorem extracted_ok : allOk Redress.Props.C12Fwd.expected extracted = true := by decide +kernel")
    out.append("")
    out.append("end Redress.Generated.Forwarding")
    return "\n".join(out) + "\n"


def write_generated(repo: Path, out: Path) -> dict:
    sites, hashes = extract(repo)
    text = render(sites, hashes)
    if not out.exists() or out.read_text() != text:
        out.write_text(text)
    return {"sites": len(sites), "hashes": hashes}


def main() -> int:
    ap = argparse.ArgumentParser()
    ap.add_argument("--repo", default="/repo")
    ap.add_argument("--out", default=str(Path(__file__).resolve().parent.parent / "lean/Redress/Generated/Forwarding.lean"))
    a = ap.parse_args()
    try:
        info = write_generated(Path(a.repo), Path(a.out))
    except (ExtractError, SyntaxError) as e:
        print("extract_forwarding: cannot translate:", e)
        return 1
    print(info["sites"], "sites ->", a.out)
    return 0


if __name__ == "__main__":
    sys.exit(main())
