"""Which theorems, Lean modules and correspondence families decide which property.

`theorems` are the proof obligations of a property: fully qualified Lean names that the property's
audit module must `#print axioms` for.  `families` are the correspondence / failing-input-search
families (harness/families/<name>.py).  A property is claimed in MANIFEST.json only when `ready`.
"""
from __future__ import annotations

STD_AXIOMS = {"propext", "Classical.choice", "Quot.sound"}

LOOP_NOTE = ("Model = Redress/Model/{World,Retry,Policy}.lean (hand transcription of policy/state.py, "
             "retry_helpers.py, runner/logic.py, runner/sync_core.py, policy.py, execution.py); tie to the code = "
             "behavioural correspondence of family `loop` (same oracle answers through the real library and the "
             "Lean model, full exchange logs compared) + the Lean monitor evaluated on the implementation's log.")

REGISTRY: dict[str, dict] = {
    # filled in as components land; see bottom of file for the loop properties
}


def loop_prop(pid: str, theorems: list[str], modules: list[str], note: str, ready: bool = True,
              partial: str = "") -> None:
    REGISTRY[pid] = {
        "modules": modules, "audit": [f"Redress/Audit/{pid}.lean"], "theorems": theorems,
        "families": ["loop"], "ready": ready, "note": note, "partial": partial,
        "design_ref": f"DESIGN.md §5 {pid}",
    }


def component_prop(pid: str, theorems: list[str], modules: list[str], audits: list[str], families: list[str],
                   note: str, ready: bool = True, partial: str = "") -> None:
    REGISTRY[pid] = {
        "modules": modules, "audit": audits, "theorems": theorems, "families": families,
        "ready": ready, "note": note, "partial": partial, "design_ref": f"DESIGN.md §5 {pid}",
    }
