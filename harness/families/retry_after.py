"""Correspondence family `retry_after` (property C20, first two sentences).

Real code under test (imported from the working tree, never edited):
    redress.extras.http._parse_retry_after / _lookup_header / _coerce_retry_after /
    http_retry_after_classifier   (+ http_classifier, only to learn the class it returns)
Model side: `driver retryafter` (lean/Driver/RetryAfter.lean; protocol documented there).

Oracles handed to the model per request, computed with the real stdlib:
  * the answer of `email.utils.parsedate_to_datetime` on the stripped string (datetime as epoch
    microseconds / None / the kind of exception raised),
  * `now`: `redress.extras.http.datetime` is replaced (module attribute only, restored afterwards)
    by a Shim whose `now(tz)` returns a fixed aware datetime,
  * `str()` of floats and of arbitrary objects inside header containers.

Judgement:
  * an exception escaping the real function, or a hint that is negative / NaN / not a float
    ⇒ C20 `violation` (also confirmed by the Lean monitor `specOk` through `spec …` lines);
  * any other disagreement between model and implementation ⇒ `divergence`.
Strings containing a non-ASCII decimal digit (or a lone surrogate) are OUTSIDE the model: for those
only "does not raise; None or non-negative" is checked; they are counted separately.
"""
from __future__ import annotations

import json
import random
import sys
import unicodedata
from collections import Counter
from collections.abc import Mapping
from datetime import UTC, datetime, timedelta, timezone
from email.message import Message
from email.utils import format_datetime, parsedate_to_datetime
from fractions import Fraction

from harness.common import Shim, ensure_repo_on_path, run_driver, wall

ensure_repo_on_path()

import redress.extras.http as H  # noqa: E402
from redress.classify import Classification  # noqa: E402
from redress.errors import ErrorClass  # noqa: E402

EPOCH = datetime(1970, 1, 1, tzinfo=UTC)
US = timedelta(microseconds=1)
FLOAT_BOUND = 2 ** 1024 - 2 ** 970          # float(n) overflows iff |n| >= FLOAT_BOUND
NOWS = [
    datetime(2025, 6, 15, 12, 0, 0, 0, tzinfo=UTC),
    datetime(2025, 6, 15, 12, 0, 0, 250000, tzinfo=UTC),
    datetime(1994, 11, 6, 8, 49, 36, 999999, tzinfo=UTC),
    datetime(2038, 1, 19, 3, 14, 7, 1, tzinfo=UTC),
]
PY_SPACES = [0x9, 0xa, 0xb, 0xc, 0xd, 0x1c, 0x1d, 0x1e, 0x1f, 0x20, 0x85, 0xa0, 0x1680,
             *range(0x2000, 0x200b), 0x2028, 0x2029, 0x202f, 0x205f, 0x3000]
ASCII_WS = " \t\n\r\x0b\x0c\x1c\x1d\x1e\x1f"
UNI_WS = "".join(chr(c) for c in PY_SPACES if c > 127)
UNI_DIGITS = "٠١٢٣٤٥٦٧٨٩０１２３４５６７８９०१२३𝟎𝟏𝟐𝟗"


# --------------------------------------------------------------------------------------------
# encoding
# --------------------------------------------------------------------------------------------

def hx(s: str) -> str | None:
    try:
        return s.encode("utf-8").hex()
    except UnicodeEncodeError:
        return None


def in_model_str(s: str) -> bool:
    if hx(s) is None:
        return False
    return not any(ord(c) > 127 and unicodedata.decimal(c, None) is not None for c in s)


def kind_of(e: BaseException) -> str:
    if isinstance(e, OverflowError):
        return "OverflowError"
    if isinstance(e, IndexError):
        return "IndexError"
    if isinstance(e, TypeError):
        return "TypeError"
    if isinstance(e, ValueError):
        return "ValueError"
    if isinstance(e, Exception):
        return "Exception"
    return "BaseException"


def date_oracle(raw: str, stats: Counter | None = None) -> str:
    """What parsedate_to_datetime does on `raw` (the real stdlib), as a <dateans> token."""
    try:
        p = parsedate_to_datetime(raw)
    except BaseException as e:  # noqa: BLE001 - we classify every kind
        if stats is not None:
            stats["stdlib-raised:" + type(e).__name__] += 1
        return "r:" + kind_of(e)
    if p is None:
        if stats is not None:
            stats["stdlib-returned-None"] += 1
        return "none"
    aware = p.tzinfo is not None
    q = p if aware else p.replace(tzinfo=UTC)
    us = (q - EPOCH) // US
    if stats is not None:
        stats["stdlib-parsed-aware" if aware else "stdlib-parsed-naive"] += 1
    return ("a:" if aware else "n:") + str(us)


def now_us(now: datetime) -> int:
    return (now - EPOCH) // US


def float_tok(x: float) -> str:
    if x != x:
        return "nan"
    if x == float("inf"):
        return "inf"
    if x == float("-inf"):
        return "-inf"
    n, d = x.as_integer_ratio()
    return f"{n}/{d}"


def tok_to_float(t: str):
    """model <float> token -> python float (correctly rounded) or a marker string"""
    if t in ("nan", "inf", "-inf"):
        return float(t)
    n, d = t.split("/")
    try:
        return int(n) / int(d)
    except OverflowError:
        return "overflow"


class StrRaises:
    """an object whose __str__ raises"""

    def __init__(self, exc_type=RuntimeError):
        self.exc_type = exc_type

    def __str__(self):
        raise self.exc_type("no str for you")

    __repr__ = __str__


class StrIs:
    """an object (not a str) whose str() is given"""

    def __init__(self, s):
        self.s = s

    def __str__(self):
        return self.s


def enc_val(v) -> str | None:
    """<pyval> token; None if the value cannot be encoded (outside the model)"""
    if v is None:
        return "N"
    if v is True:
        return "B1"
    if v is False:
        return "B0"
    if isinstance(v, int):
        return f"I:{v}" if abs(v) < 10 ** 18 else ("I:-h" if v < 0 else "I:h") + hex(abs(v))[2:]
    if isinstance(v, float):
        return f"D:{float_tok(v)}:{hx(str(v))}"
    if isinstance(v, str):
        h = hx(v)
        return None if h is None or not in_model_str(v) else f"S:{h}"
    try:
        s = str(v)
    except Exception as e:  # noqa: BLE001
        return "X:" + kind_of(e)
    h = hx(s)
    return None if h is None or not in_model_str(s) else f"O:{h}"


def strings_in_val(v) -> list[str]:
    if isinstance(v, (bool, int)) and not isinstance(v, bool):
        try:
            return [str(v)]
        except ValueError:
            return []
    try:
        return [str(v)]
    except Exception:  # noqa: BLE001
        return []


def enc_entries(items) -> tuple[str, list] | None:
    toks = []
    vals = []
    n = 0
    for it in items:
        n += 1
        try:
            k, v = it
        except Exception:  # noqa: BLE001
            toks.append("Z")
            continue
        ek, ev = enc_val(k), enc_val(v)
        if ek is None or ev is None:
            return None
        toks.append(f"P {ek} {ev}")
        vals.append(v)
    return (f"{n} " + " ".join(toks)).strip(), vals


def opt(kind) -> str:
    return "-" if kind is None else kind


# --------------------------------------------------------------------------------------------
# header containers: a description -> (fresh python object, <headers> tokens, values inside)
# --------------------------------------------------------------------------------------------

EXC_TYPES = {"TypeError": TypeError, "ValueError": ValueError, "IndexError": IndexError,
             "OverflowError": OverflowError, "Exception": RuntimeError}


class RaisingMapping(Mapping):
    """a Mapping over a pair list; `get` / `items` can raise; get exact or case-insensitive"""

    def __init__(self, pairs, ci, get_raises, items_raises):
        self._pairs = list(pairs)
        self._ci = ci
        self._gr = get_raises
        self._ir = items_raises

    def __getitem__(self, key):
        for k, v in self._pairs:
            if isinstance(k, str) and isinstance(key, str):
                if (k.lower() == key.lower()) if self._ci else (k == key):
                    return v
        raise KeyError(key)

    def __iter__(self):
        return iter([k for k, _ in self._pairs])

    def __len__(self):
        return len(self._pairs)

    def get(self, key, default=None):
        if self._gr:
            raise EXC_TYPES[self._gr]("get raises")
        try:
            return self[key]
        except KeyError:
            return default

    def items(self):
        if self._ir:
            raise EXC_TYPES[self._ir]("items raises")
        return list(self._pairs)


def make_getter(pairs, ci, get_raises, items, iterable, truthy):
    """an object that is NOT a Mapping and has a callable .get"""
    ns = {}

    def get(self, key, default=None):
        if get_raises:
            raise EXC_TYPES[get_raises]("get raises")
        for k, v in pairs:
            if isinstance(k, str) and ((k.lower() == key.lower()) if ci else (k == key)):
                return v
        return default

    ns["get"] = get
    if items != "no":
        def items_fn(self):
            if items != "-":
                raise EXC_TYPES[items]("items raises")
            return iter(list(pairs))
        ns["items"] = items_fn
    if iterable:
        ns["__iter__"] = lambda self: iter(list(pairs))
    ns["__bool__"] = lambda self: truthy
    return type("Getter", (), ns)()


def build_headers(desc):
    """desc -> (object, tokens, values) ; tokens None when outside the model"""
    tag = desc[0]
    if tag == "A":
        return None, "A", []
    if tag == "dict":
        d = dict(desc[1])
        enc = enc_entries(d.items())
        return d, (None if enc is None else f"M 0 - - {enc[0]}"), ([] if enc is None else enc[1])
    if tag == "M":
        _, pairs, ci, gr, ir = desc
        enc = enc_entries(pairs)
        obj = RaisingMapping(pairs, ci, gr, ir)
        return obj, (None if enc is None else f"M {int(ci)} {opt(gr)} {opt(ir)} {enc[0]}"), \
            ([] if enc is None else enc[1])
    if tag == "G":
        _, pairs, ci, gr, items, iterable, truthy = desc
        enc = enc_entries(pairs)
        obj = make_getter(pairs, ci, gr, items, iterable, truthy)
        return obj, (None if enc is None else
                     f"G {int(ci)} {opt(gr)} {items} {int(iterable)} {int(truthy)} {enc[0]}"), \
            ([] if enc is None else enc[1])
    if tag == "msg":                      # email.message.Message: real-world non-Mapping with ci get
        m = Message()
        for k, v in desc[1]:
            m[k] = v
        pairs = m.items()
        enc = enc_entries(pairs)
        return m, (None if enc is None else f"G 1 - - 1 {int(bool(m))} {enc[0]}"), \
            ([] if enc is None else enc[1])
    if tag in ("list", "tuple", "iter", "gen", "str"):
        items = desc[1]
        enc = enc_entries(items)
        if tag == "list":
            obj = list(items)
        elif tag == "tuple":
            obj = tuple(items)
        elif tag == "str":
            obj = items               # a str: iterating yields 1-char strings (do not unpack)
        elif tag == "iter":
            obj = iter(list(items))
        else:
            obj = (x for x in list(items))
        it = tag in ("iter", "gen")
        return obj, (None if enc is None else f"L {int(it)} {enc[0]}"), ([] if enc is None else enc[1])
    if tag == "Q":
        obj = desc[1]
        return obj, f"Q {int(bool(obj))}", []
    raise AssertionError(tag)


class _E(Exception):
    pass


class _Resp:
    pass


def build_exc(desc):
    """desc = dict(direct=<val or 'ABSENT'>, headers=<hdesc or 'ABSENT'>, response=('none'|'absent'|'nohdr'|hdesc), status=int|None)
    -> (exception object, <excrec> tokens or None, strings that may be parsed)"""
    e = _E("boom")
    strs = []
    ok = True
    direct = desc.get("direct", "ABSENT")
    if direct == "ABSENT":
        dtok = "N"
    else:
        e.retry_after = direct
        dtok = enc_val(direct)
        if isinstance(direct, str):
            strs.append(direct)
    hd = desc.get("headers", "ABSENT")
    if hd == "ABSENT":
        htok = "A"
    else:
        obj, htok, vals = build_headers(hd)
        e.headers = obj
        for v in vals:
            strs += strings_in_val(v)
    rd = desc.get("response", "absent")
    if rd == "absent":
        rtok = "R0"
    elif rd == "none":
        e.response = None
        rtok = "R0"
    elif rd == "nohdr":
        e.response = _Resp()
        rtok = "R1 A"
    else:
        r = _Resp()
        obj, t, vals = build_headers(rd)
        r.headers = obj
        e.response = r
        rtok = None if t is None else "R1 " + t
        for v in vals:
            strs += strings_in_val(v)
    if desc.get("status") is not None:
        e.status = desc["status"]
    if dtok is None or htok is None or rtok is None:
        ok = False
    return e, (f"{dtok} {htok} {rtok}" if ok else None), strs


# --------------------------------------------------------------------------------------------
# generators
# --------------------------------------------------------------------------------------------

BOUNDARY_LENGTHS = [1, 2, 17, 307, 308, 309, 310, 311, 1000, 4299, 4300, 4301, 4302, 5000]

DATES = [
    "Sun, 06 Nov 1994 08:49:37 GMT",            # RFC 1123
    "Sunday, 06-Nov-94 08:49:37 GMT",           # RFC 850
    "Sun Nov  6 08:49:37 1994",                 # asctime (naive)
    "Wed, 21 Oct 2015 07:28:00 GMT",
    "Fri, 31 Dec 1999 23:59:59 GMT",
    "Sun, 15 Jun 2025 12:00:00 GMT",            # == NOWS[0]
    "Sun, 15 Jun 2025 12:00:01 GMT",
    "Sun, 15 Jun 2025 11:59:59 GMT",
    "Sun, 15 Jun 2025 12:00:01 +0000",
    "Sun, 15 Jun 2025 14:00:01 +0200",
    "Sun, 15 Jun 2025 12:00:01 -0000",          # naive per RFC 5322
    "Sun, 15 Jun 2025 12:00:01",                # naive
    "15 Jun 2025 12:00:01 GMT",
    "15 Jun 25 12:00 GMT",                      # two-digit year, no seconds
    "15 Jun 68 12:00:00 GMT", "15 Jun 69 12:00:00 GMT",
    "Tue, 19 Jan 2038 03:14:08 GMT",
    "Fri, 31 Dec 9999 23:59:59 GMT",
    "Mon, 01 Jan 0001 00:00:00 GMT",
    "Mon, 01 Jan 0100 00:00:00 +2359",
    "31 Dec 9999 23:59:59 -2359",
    "Sun, 15 Jun 2025 12:00:01 EST", "Sun, 15 Jun 2025 12:00:01 PDT", "Sun, 15 Jun 2025 12:00:01 XYZ",
    "Sun, 15 Jun 2025 12.00.01 GMT",
    "Sun, 15 Jun 2025 12:00:01 +2400", "Sun, 15 Jun 2025 12:00:01 -9999",
    "Sun, 30 Feb 2025 12:00:01 GMT", "Sun, 15 Jun 2025 25:00:01 GMT", "Sun, 15 Jun 2025 12:61:01 GMT",
    "Sun, 15 Foo 2025 12:00:01 GMT", "Sun, 15 Jun 0 12:00:01 GMT", "Sun, 0 Jun 2025 12:00:01 GMT",
]
# finding F10 (fixed by /repo 95684a2): OverflowError escaping the date path
F10_WITNESSES = [
    "01 Jan 2147483648 00:00:00 GMT",
    "01 Jan 99999999999 00:00:00 GMT",
    "Mon, 01 Jan 99999999999999999999 00:00:00 GMT",
    "Mon, 01 Jan 2024 00:00:00 +99999999999999999999",
    "99999999999999999999 Jan 2024 00:00:00 GMT",
    "01 Jan 2024 99999999999999999999:00:00 GMT",
    "01 Jan 2024 00:99999999999999999999:00 GMT",
    "01 Jan 2024 00:00:99999999999999999999 GMT",
]
GARBAGE = ["", " ", "\t\n", "abc", "1.5", "1e3", "nan", "inf", "-inf", "NaN", "Infinity", "0x10", "0b1",
           "0o7", "1,000", "1 000", "١٢", "１２", "12٣", "5s", "five", "+", "-", "_", "+-1", "-+1", "++1",
           "--1", "+ 1", "- 1", "1_0", "1__0", "_1", "1_", "1_0_0", "_", "+_1", "+1_", "0_0", "00", "-0",
           "+0", "007", "\x001", "1\x00", "1\x002", "None", "True", "b'5'", "5;", "5,", "5 5", "5\t5",
           "\x1c5\x1f", "5\x1c", "\x1c", "\x855", "\xa05\xa0", "　5 ", "5​", "﻿5",
           "5\x7f", "é", "😀", " ", "1 2", "⁵", "²", "½", "Ⅷ", "৪", "1.", ".5", "1e", "e1",
           "9" * 5 + "x", "9" * 4301 + "x", "9" * 4301 + "\x00", "9" * 4301 + "\x00x", "9" * 4301 + " \x00",
           "9" * 4301 + " x", "9" * 4301 + "_", "_" + "9" * 4301, "9" * 4300 + "__1", "12\x00", "12 \x00", "\x0012", "x" + "9" * 4301, "120, 60", "120;q=1"]


def rand_ws(rng, allow_uni=True):
    pool = ASCII_WS + (UNI_WS if allow_uni else "")
    return "".join(rng.choice(pool) for _ in range(rng.choice([0, 0, 1, 1, 2, 5])))


def rand_len(rng):
    r = rng.random()
    if r < 0.35:
        return rng.choice(BOUNDARY_LENGTHS)
    if r < 0.6:
        return rng.randint(1, 20)
    if r < 0.8:
        return rng.randint(300, 320)
    if r < 0.9:
        return rng.randint(4290, 4310)
    return int(10 ** rng.uniform(0, 3.7))


def gen_digits(rng):
    n = rand_len(rng)
    first = rng.choice("123456789") if rng.random() < 0.8 else "0"
    body = first + "".join(rng.choice("0123456789") for _ in range(n - 1))
    if rng.random() < 0.25:
        body = "0" * rng.choice([1, 2, 10, 4300 - n if 0 < 4300 - n else 1, 4301 - n if 0 < 4301 - n else 1]) + body
    if rng.random() < 0.2 and len(body) > 1:     # underscores
        k = rng.randint(1, min(4, len(body) - 1))
        for _ in range(k):
            i = rng.randint(0, len(body))
            body = body[:i] + rng.choice(["_", "_", "_", "__"]) + body[i:]
    sign = rng.choice(["", "", "", "+", "-", "-", "+-", " "])
    s = rand_ws(rng) + sign + body + rand_ws(rng)
    if rng.random() < 0.05:
        i = rng.randint(0, len(s))
        s = s[:i] + rng.choice(ASCII_WS + "x._e") + s[i:]
    return s


def gen_near_bound(rng):
    d = rng.choice([0, 0, -1, 1, -2, 2, rng.randint(-10 ** 6, 10 ** 6), 2 ** 969, -(2 ** 969), 2 ** 970])
    n = FLOAT_BOUND + d
    if rng.random() < 0.3:
        n = rng.choice([10 ** 308, 10 ** 309 - 1, 10 ** 309, 2 ** 1024, 2 ** 1023, 2 ** 1024 - 2 ** 971,
                        int("17976931348623157" + "0" * 292), int("17976931348623159" + "0" * 292)])
    s = str(n)
    if rng.random() < 0.3:
        s = "-" + s
    elif rng.random() < 0.2:
        s = "+" + s
    if rng.random() < 0.3:
        s = "0" * rng.randint(1, 30) + s if s[0].isdigit() else s[0] + "0" * rng.randint(1, 30) + s[1:]
    return rand_ws(rng) + s + rand_ws(rng)


WDAYS = ["Mon", "Tue", "Wed", "Thu", "Fri", "Sat", "Sun"]
LWDAYS = ["Monday", "Tuesday", "Wednesday", "Thursday", "Friday", "Saturday", "Sunday"]
MONTHS = ["Jan", "Feb", "Mar", "Apr", "May", "Jun", "Jul", "Aug", "Sep", "Oct", "Nov", "Dec"]


def gen_date(rng, now):
    r = rng.random()
    if r < 0.5:      # near now
        off = rng.choice([0, 1, -1, 2, 59, 60, 3600, -3600, 86400, rng.randint(-10 ** 5, 10 ** 5)])
        t = now.replace(microsecond=0) + timedelta(seconds=off)
    else:
        t = datetime(rng.randint(1, 9999), rng.randint(1, 12), rng.randint(1, 28), rng.randint(0, 23),
                     rng.randint(0, 59), rng.randint(0, 59), tzinfo=UTC)
    fmt = rng.randint(0, 5)
    if fmt == 0:
        s = f"{WDAYS[t.weekday()]}, {t.day:02d} {MONTHS[t.month - 1]} {t.year:04d} {t.hour:02d}:{t.minute:02d}:{t.second:02d} GMT"
    elif fmt == 1:
        s = f"{LWDAYS[t.weekday()]}, {t.day:02d}-{MONTHS[t.month - 1]}-{t.year % 100:02d} {t.hour:02d}:{t.minute:02d}:{t.second:02d} GMT"
    elif fmt == 2:
        s = f"{WDAYS[t.weekday()]} {MONTHS[t.month - 1]} {t.day:2d} {t.hour:02d}:{t.minute:02d}:{t.second:02d} {t.year}"
    elif fmt == 3:
        tzmin = rng.choice([0, 60, -60, 330, -720, 840, 1439, -1439, 1440])
        sign = "+" if tzmin >= 0 else "-"
        a = abs(tzmin)
        s = f"{t.day} {MONTHS[t.month - 1]} {t.year} {t.hour:02d}:{t.minute:02d}:{t.second:02d} {sign}{a // 60:02d}{a % 60:02d}"
    elif fmt == 4:
        s = f"{t.day:02d} {MONTHS[t.month - 1]} {t.year:04d} {t.hour:02d}:{t.minute:02d}:{t.second:02d}"      # naive
    else:
        try:
            s = format_datetime(t, usegmt=True)
        except ValueError:
            s = DATES[0]
    if rng.random() < 0.3:       # mutate one numeric field
        import re
        nums = list(re.finditer(r"\d+", s))
        if nums:
            m = rng.choice(nums)
            rep = rng.choice(["0", "00", "99", "2147483647", "2147483648", "99999999999", "9" * 20, "9" * 4301,
                              str(rng.randint(0, 70)), "-1", ""])
            s = s[:m.start()] + rep + s[m.end():]
    if rng.random() < 0.1:
        i = rng.randint(0, len(s))
        s = s[:i] + rng.choice(" ,:;-+x\x00(") + s[i:]
    return rand_ws(rng) + s + rand_ws(rng)


ALPHABET = "0123456789" * 3 + "+-_ \t\n.,:;eExXaAnNfFiI\x00\x1c\x7f" + UNI_WS[:6] + "é٣５"


def gen_garbage(rng):
    r = rng.random()
    if r < 0.4:
        return rng.choice(GARBAGE)
    if r < 0.6:
        return rand_ws(rng) + rng.choice(GARBAGE) + rand_ws(rng)
    n = rng.choice([1, 2, 3, 5, 8, 20])
    return "".join(rng.choice(ALPHABET) for _ in range(n))


def gen_unicode_digits(rng):
    n = rng.choice([1, 2, 5, 309, 310, 4300, 4301])
    fam = rng.choice([UNI_DIGITS[0:10], UNI_DIGITS[10:20], "0123456789" + UNI_DIGITS])
    s = "".join(rng.choice(fam) for _ in range(n))
    return rng.choice(["", "-", "+"]) + s


def gen_string(rng, now):
    r = rng.random()
    if r < 0.35:
        return gen_digits(rng)
    if r < 0.47:
        return gen_near_bound(rng)
    if r < 0.72:
        return gen_date(rng, now)
    if r < 0.95:
        return gen_garbage(rng)
    return gen_unicode_digits(rng)


def corpus_strings():
    out = []
    out += ["9" * 309, "9" * 310, "1" + "0" * 308, "9" * 308, "9" * 4300, "9" * 4301, "0" * 5000,
            "0" * 4300 + "1", "0" * 4299 + "1", "-" + "9" * 4300, "+" + "9" * 4301,
            "1_" * 2150 + "1", "1_" * 2149 + "11", "1_" * 2150 + "11",
            str(FLOAT_BOUND), str(FLOAT_BOUND - 1), "-" + str(FLOAT_BOUND), "-" + str(FLOAT_BOUND - 1),
            str(FLOAT_BOUND + 1), "000" + str(FLOAT_BOUND - 1), " +" + str(FLOAT_BOUND - 1) + "\n"]
    out += F10_WITNESSES
    out += ["0", "5", "120", "-5", "+5", " 5", "5 ", "\t5\r\n", "\x0b5\x0c", "00005", "-0", "1_000"]
    for n in BOUNDARY_LENGTHS:
        out.append("7" * n)
        out.append("-" + "7" * n)
    for c in PY_SPACES:
        ch = chr(c)
        out += [ch + "5", "5" + ch, ch + "5" + ch, "5" + ch + "5", ch, ch + DATES[6] + ch, "-" + ch + "5"]
    out += DATES
    out += [d.lower() for d in DATES[:4]] + [d.upper() for d in DATES[:4]]
    out += GARBAGE
    out += ["٣", "５", "１２３", "-１", "٠" * 309, "٩" * 4301, "1٣", "𝟏𝟐"]
    return out


KEY_VARIANTS = ["Retry-After", "retry-after", "RETRY-AFTER", "Retry-after", "rEtRy-AfTeR", "retry-After"]
OTHER_KEYS = ["Content-Type", "X-Retry-After", "Retry-After ", " Retry-After", "Retry_After", "RetryAfter",
              "retry-afte", "", "Date"]


def rand_casing(rng):
    return "".join(c.upper() if rng.random() < 0.5 else c.lower() for c in "retry-after")


def gen_key(rng):
    r = rng.random()
    if r < 0.55:
        return rng.choice(KEY_VARIANTS) if rng.random() < 0.7 else rand_casing(rng)
    if r < 0.8:
        return rng.choice(OTHER_KEYS)
    return rng.choice([None, 5, b"Retry-After", StrIs("Retry-After"), StrIs("retry-after"), StrRaises(),
                       1.5, True, ("Retry-After",)])


def gen_hval(rng, now):
    r = rng.random()
    if r < 0.35:
        return rng.choice(["5", "0", "120", "-3", " 12 ", "1_0", "9" * 309, "9" * 4301, "abc", "", " ",
                           "1.5", DATES[0], DATES[6], DATES[7], F10_WITNESSES[0]])
    if r < 0.5:
        s = gen_string(rng, now)
        return s if in_model_str(s) and len(s) < 400 else "17"
    if r < 0.6:
        return None
    return rng.choice([5, 0, -5, 10 ** 400, 10 ** 4299, 10 ** 4300, -(10 ** 4300), 10 ** 5000, True, False,
                       1.5, 0.0, float("nan"), float("inf"), 1e22, b"5", b"", StrIs("7"), StrIs(" 8\n"),
                       StrRaises(), StrRaises(ValueError), [5], ("5",), 2 ** 1024])


def gen_entries(rng, now, unique_str_keys):
    n = rng.choice([0, 1, 1, 2, 2, 3, 4])
    out = []
    seen = set()
    for _ in range(n):
        k = gen_key(rng)
        if unique_str_keys:
            try:
                hk = (type(k).__name__, k if isinstance(k, (str, int, bytes, float, type(None), tuple)) else id(k))
            except Exception:  # noqa: BLE001
                hk = id(k)
            if hk in seen or (isinstance(k, (bool, int, float)) and any(
                    isinstance(s[1], (bool, int, float)) and s[1] == k for s in seen if isinstance(s, tuple))):
                continue
            seen.add(hk)
        out.append((k, gen_hval(rng, now)))
    return out


def gen_hdesc(rng, now):
    r = rng.random()
    if r < 0.04:
        return ("A",)
    if r < 0.34:
        return ("dict", gen_entries(rng, now, True))
    if r < 0.46:
        return ("M", gen_entries(rng, now, False), rng.random() < 0.4,
                rng.choice([None, None, None, "TypeError", "Exception", "OverflowError"]),
                rng.choice([None, None, None, "ValueError", "Exception"]))
    if r < 0.66:
        return ("G", gen_entries(rng, now, False), rng.random() < 0.4,
                rng.choice([None, None, None, "TypeError", "Exception"]),
                rng.choice(["no", "no", "-", "-", "-", "ValueError", "Exception"]),
                rng.random() < 0.5, rng.random() < 0.85)
    if r < 0.72:
        pairs = [(k if isinstance(k, str) and k.strip() and k.isascii() and k == k.strip() and " " not in k else "Retry-After",
                  v if isinstance(v, str) and "\n" not in v and "\r" not in v and v.isascii() and v == v.strip() and "\x00" not in v
                  and all(31 < ord(c) < 127 for c in v) else "30")
                 for k, v in gen_entries(rng, now, False)]
        return ("msg", pairs)
    if r < 0.92:
        tag = rng.choice(["list", "list", "tuple", "iter", "gen"])
        es = gen_entries(rng, now, False)
        if rng.random() < 0.25:
            es.insert(rng.randint(0, len(es)), rng.choice([5, ("a",), ("a", "b", "c"), None, "ab", "abc"]))
        return (tag, es)
    if r < 0.95:
        return ("str", rng.choice(["", "ab", "Retry-After: 5", "x"]))
    return ("Q", rng.choice([5, 0, 1.5, object(), True, False]))


def gen_direct(rng, now):
    r = rng.random()
    if r < 0.3:
        return "ABSENT"
    if r < 0.4:
        return None
    if r < 0.65:
        return rng.choice([True, False, 0, 5, -5, 10 ** 400, -(10 ** 400), FLOAT_BOUND, FLOAT_BOUND - 1,
                           -FLOAT_BOUND, -(FLOAT_BOUND - 1), 2 ** 1024, 1.5, -1.5, 0.0, -0.0, float("nan"),
                           float("inf"), float("-inf"), 1e308, 5e-324, 1e-7, 2 ** 53 + 1, rng.randint(-100, 10 ** 6),
                           rng.random() * 100])
    if r < 0.9:
        s = gen_string(rng, now)
        return s if len(s) < 600 else "42"
    return rng.choice([b"5", [5], StrIs("5"), StrRaises(), object(), (1,), {"a": 1}])


def gen_exc_desc(rng, now, for_classify):
    d = {"direct": gen_direct(rng, now)}
    r = rng.random()
    if r < 0.15:
        d["headers"] = "ABSENT"
    elif r < 0.3:
        d["headers"] = rng.choice([("dict", []), ("list", []), ("A",), ("Q", 0), ("str", ""),
                                   ("G", [("Retry-After", "9")], False, None, "-", True, False), ("msg", [])])
    else:
        d["headers"] = gen_hdesc(rng, now)
    r = rng.random()
    if r < 0.3:
        d["response"] = "absent"
    elif r < 0.4:
        d["response"] = "none"
    elif r < 0.5:
        d["response"] = "nohdr"
    else:
        d["response"] = gen_hdesc(rng, now)
    if for_classify:
        d["status"] = rng.choice([429, 429, 429, 429, 503, 500, 401, 403, 404, 409, 408, 200, None, 418])
    return d


def corpus_exc_descs():
    out = []
    # every direct kind
    for v in ["ABSENT", None, True, False, 0, 5, -5, 10 ** 400, -(10 ** 400), FLOAT_BOUND, FLOAT_BOUND - 1,
              float("nan"), float("inf"), float("-inf"), 1.5, -1.5, -0.0, "5", " 7 ", "-5", "abc", "", " ",
              "9" * 309, "9" * 4301, DATES[6], DATES[7], F10_WITNESSES[0], b"5", StrIs("5"), StrRaises(), [5]]:
        out.append({"direct": v, "headers": ("dict", [("Retry-After", "11")]), "response": "absent"})
        out.append({"direct": v, "headers": "ABSENT", "response": ("dict", [("retry-after", "13")])})
    # every key casing x None handling x container shape (exhaustive small product)
    vals = ["21", None]
    for k1 in KEY_VARIANTS[:4]:
        for v1 in vals:
            for k2 in KEY_VARIANTS[:3]:
                for v2 in ["22", None]:
                    pairs = [(k1, v1), (k2, v2)]
                    shapes = [("M", pairs, False, None, None), ("M", pairs, True, None, None),
                              ("G", pairs, False, None, "-", False, True),
                              ("G", pairs, False, None, "no", True, True),
                              ("G", pairs, False, None, "no", False, True),
                              ("G", pairs, True, None, "-", True, True),
                              ("list", pairs), ("iter", pairs), ("tuple", pairs)]
                    if k1 != k2:
                        shapes.append(("dict", pairs))
                    for sh in shapes:
                        out.append({"direct": "ABSENT", "headers": sh, "response": "absent"})
    # ONE clean source: a plain mapping with the single entry <name in some letter case> -> decimal integer
    # (where the property's text fixes the answer at the container level: `_plain_single_int`)
    for k in ["Retry-After", "retry-after", "RETRY-AFTER", "Retry-after", "retry-After", "rEtRy-AfTeR"]:
        for v in ["0", "7", "21", "86400"]:
            out.append({"direct": "ABSENT", "headers": ("dict", [(k, v)]), "response": "absent"})
            out.append({"direct": "ABSENT", "headers": ("M", [(k, v)], False, None, None), "response": "absent"})
    # faults
    for kind in ["TypeError", "ValueError", "IndexError", "OverflowError", "Exception"]:
        out.append({"headers": ("M", [("Retry-After", "5")], False, kind, None)})
        out.append({"headers": ("M", [("RETRY-AFTER", "5")], False, None, kind)})
        out.append({"headers": ("G", [("Retry-After", "5")], False, kind, "-", True, True)})
        out.append({"headers": ("G", [("RETRY-AFTER", "5")], False, None, kind, True, True)})
    # falsy own headers -> response headers
    for own in [("dict", []), ("list", []), ("tuple", []), ("str", ""), ("Q", 0), ("A",), ("msg", []),
                ("G", [("Retry-After", "9")], False, None, "-", True, False)]:
        for resp in ["absent", "none", "nohdr", ("dict", [("Retry-After", "33")]), ("dict", [])]:
            out.append({"headers": own, "response": resp})
    # truthy own headers without the key shadow the response
    out.append({"headers": ("dict", [("Date", "x")]), "response": ("dict", [("Retry-After", "33")])})
    out.append({"headers": ("iter", []), "response": ("dict", [("Retry-After", "33")])})
    # values
    for v in [5, 0, -5, 10 ** 400, 10 ** 4299, 10 ** 4300, 10 ** 5000, None, True, 1.5, float("nan"), b"5",
              StrIs("7"), StrRaises(), StrRaises(ValueError), "9" * 309, F10_WITNESSES[0], DATES[6]]:
        for sh in ["dict", "list"]:
            out.append({"headers": (sh, [("Retry-After", v)])})
            out.append({"headers": (sh, [("RETRY-AFTER", v)])})
    out.append({"headers": ("msg", [("retry-AFTER", "5")])})
    out.append({"headers": ("msg", [("X", "1"), ("Retry-After", DATES[6])])})
    out.append({"headers": ("list", [5, ("Retry-After", "5")])})
    out.append({"headers": ("list", [("Retry-After", "5"), 5])})
    out.append({"headers": ("list", ["ab"])})
    out.append({"headers": ("list", [(StrRaises(), "1"), ("Retry-After", "5")])})
    out.append({"headers": ("dict", [(StrIs("Retry-After"), "5")])})
    out.append({"headers": ("dict", [(None, "5"), ("retry-after", None), ("RETRY-after", None)])})
    return out


# --------------------------------------------------------------------------------------------
# running cases
# --------------------------------------------------------------------------------------------

class NowHolder:
    def __init__(self):
        self.now = NOWS[0]

    def now_fn(self, tz=None):
        return self.now


def hint_problem(r) -> str | None:
    """unmistakable oracle for 'no hint or a non-negative number of seconds'"""
    if r is None:
        return None
    if isinstance(r, bool) or not isinstance(r, (int, float)):
        return f"hint is not a number: {r!r}"
    if r != r:
        return "hint is NaN"
    if r < 0:
        return f"hint is negative: {r!r}"
    return None


def spec_line(r) -> str:
    if r is None:
        return "spec none"
    return "spec hint " + float_tok(float(r))


def compare_res(model: str, r) -> str | None:
    """model answer `<res>` vs python value r (None or number); returns a mismatch text or None"""
    t = model.split(" ")
    if t[0] == "none":
        return None if r is None else f"model none, python {r!r}"
    if t[0] == "hint":
        if r is None:
            return f"model {t[2]}, python None"
        want = tok_to_float(t[2])
        if want == "overflow":
            return f"model hint beyond float range, python {r!r}"
        if not isinstance(r, float):
            return f"python returned non-float {r!r}"
        return None if want == r else f"model {t[2]} (= {want!r}), python {r!r}"
    return f"model answered {model!r}, python returned {r!r}"


class Runner:
    def __init__(self, tier, seed):
        self.tier = tier
        self.seed = seed
        self.rng = random.Random(seed)
        self.holder = NowHolder()
        self.cases = []            # (kind, lines, checker, meta)
        self.failures = []
        self.dist = Counter()
        self.oracle_stats = Counter()
        self.evaluations = 0
        self.out_of_model = 0
        self.distinct = set()
        self.nontrivial = set()
        self.samples = []
        self._sampled = set()

    # ---- python side ----------------------------------------------------------------------
    def py_call(self, fn, *args):
        try:
            return ("ok", fn(*args))
        except BaseException as e:  # noqa: BLE001 — anything escaping is the point
            return ("raised", e)

    def add_failure(self, kind, sig, detail, replay, case=None):
        self.failures.append({"property": "C20", "kind": kind, "sig": sig, "detail": detail[:1500],
                              "replay": replay[:6000], "_case": case})

    # ---- case builders ----------------------------------------------------------------------
    def parse_case(self, s: str, now: datetime, origin: str):
        self.holder.now = now
        res = self.py_call(H._parse_retry_after, s)
        inm = in_model_str(s)
        lines = []
        if inm:
            raw = s.strip()
            lines.append(f"parse {hx(s) or '.'} {date_oracle(raw, self.oracle_stats)} {now_us(now)}")
            lines.append(f"int {hx(s) or '.'}")
            try:
                iv = ("value", int(s))
            except ValueError as e:
                iv = ("toomany",) if "Exceeds the limit" in str(e) else ("invalid",)
        else:
            iv = None
        if res[0] == "ok" and hint_problem(res[1]) is None:
            lines.append(spec_line(res[1]))
        self.cases.append(("parse", lines, (s, now, res, inm, iv, origin)))

    def exc_case(self, desc, now, op, origin):
        self.holder.now = now
        exc, toks, strs = build_exc(desc)
        fn = H._coerce_retry_after if op == "coerce" else H.http_retry_after_classifier
        klass = None
        if op == "classify":
            k = self.py_call(H.http_classifier, build_exc(desc)[0])
            klass = k[1].name if k[0] == "ok" else None
        res = self.py_call(fn, exc)
        inm = toks is not None and all(in_model_str(s) for s in strs) and (op == "coerce" or klass is not None)
        lines = []
        if inm:
            table = {}
            for s in strs:
                q = s.strip()
                if q not in table:
                    table[q] = date_oracle(q, self.oracle_stats)
            tb = f"{len(table)}" + "".join(f" {hx(q) or '.'} {a}" for q, a in table.items())
            if op == "coerce":
                lines.append(f"coerce {now_us(now)} {tb} {toks}")
            else:
                lines.append(f"classify {klass} {now_us(now)} {tb} {toks}")
        hint = None
        if res[0] == "ok":
            hint = res[1].retry_after_s if isinstance(res[1], Classification) else (
                None if op == "classify" else res[1])
            if hint_problem(hint) is None:
                lines.append(spec_line(hint))
        self.cases.append((op, lines, (desc, now, res, inm, klass, origin)))

    def lookup_case(self, hdesc, name, origin):
        obj, toks, _ = build_headers(hdesc)
        res = self.py_call(H._lookup_header, obj, name)
        inm = toks is not None and in_model_str(name)
        lines = [f"lookup {hx(name) or '.'} {toks}"] if inm else []
        self.cases.append(("lookup", lines, (hdesc, name, res, inm, origin)))

    # ---- evaluation -------------------------------------------------------------------------
    def flush(self):
        all_lines = [ln for _, lines, _ in self.cases for ln in lines]
        out = run_driver("retryafter", "\n".join(all_lines) + "\n").splitlines() if all_lines else []
        out = [o for o in out if not o.startswith("#")]
        if len(out) != len(all_lines):
            raise RuntimeError(f"driver answered {len(out)} lines for {len(all_lines)} requests")
        i = 0
        for kind, lines, meta in self.cases:
            answers = out[i:i + len(lines)]
            i += len(lines)
            self.judge(kind, lines, answers, meta)
        self.cases = []

    def note(self, line, branch, nontrivial):
        self.distinct.add(line)
        if nontrivial:
            self.nontrivial.add(line)
        self.dist["branch:" + branch] += 1

    def judge(self, kind, lines, answers, meta):
        replay = "\n".join(f"> {ln}\n< {a}" for ln, a in zip(lines, answers))
        for a in answers:
            if a.startswith("bad-op"):
                self.add_failure("divergence", f"C20/{kind}/bad-op", f"driver rejected a request: {a}", replay)
                return
        if kind == "parse":
            s, now, res, inm, iv, origin = meta
            self.evaluations += 1
            self.dist["origin:" + origin] += 1
            desc = f"_parse_retry_after({s[:200]!r}{'…' if len(s) > 200 else ''}) [len {len(s)}] now={now.isoformat()}"
            case = ("parse", s, now)
            if res[0] == "raised":
                e = res[1]
                where = "date-path" if not self._int_ok(s) else "int-path"
                self.add_failure("violation", f"C20/{where}/{type(e).__name__}",
                                 f"{desc} raised {type(e).__name__}: {e}", replay + f"\npython: raised {e!r}", case)
                return
            prob = hint_problem(res[1])
            if prob:
                self.add_failure("violation", "C20/parse/bad-hint", f"{desc}: {prob}",
                                 replay + f"\npython: returned {res[1]!r}", case)
                return
            if answers and answers[-1] != "ok":
                self.add_failure("violation", "C20/parse/monitor", f"{desc}: Lean monitor says {answers[-1]}", replay, case)
                return
            if not inm:
                self.out_of_model += 1
                self.dist["out-of-model:parse"] += 1
                return
            pa, ia = answers[0], answers[1]
            body, _, rawtok = pa.rpartition(" raw:")
            branch = body.split(" ")[1]
            self.note(lines[0], branch, branch not in ("empty",))
            self._count_boundaries(s, branch)
            self._count_date(s, now, branch)
            if rawtok != (hx(s.strip()) or ""):
                self.add_failure("divergence", "C20/strip", f"{desc}: model strip {rawtok} != python {hx(s.strip())}", replay, case)
                return
            mm = compare_res(body, res[1])
            if mm:
                # where the model answers with a HINT the value is fixed by the property's own words ("a decimal
                # integer n within float range gives n, an HTTP-date gives the time until that date clamped at
                # 0"; theorems parse_int / parse_date in Props/C20.lean): a different answer is a violation of C20, not
                # just a divergence.  Where the model answers "no hint" the text leaves room ("garbage").
                fixed = body.split(" ")[0] == "hint"
                self.add_failure("violation" if fixed else "divergence",
                                 f"C20/parse{'-value' if fixed else ''}/{self._coarse_parse(branch)}", f"{desc}: {mm}",
                                 replay + f"\npython: returned {res[1]!r}", case)
                return
            want = {"value": f"value {iv[1]}" if iv[0] == "value" else None, "invalid": "invalid",
                    "toomany": "toomany"}[iv[0]]
            if ia != want:
                self.add_failure("divergence", "C20/int", f"int({s[:100]!r}) [len {len(s)}]: model {ia[:80]}, python {str(want)[:80]}", replay, case)
            if branch not in self._sampled and len(s) < 60 and len(self.samples) < 14:
                self._sampled.add(branch)
                self.samples.append({"op": "parse", "value": s, "now": now.isoformat(), "python": res[1], "model": body})
            return
        if kind in ("coerce", "classify"):
            desc_d, now, res, inm, klass, origin = meta
            self.evaluations += 1
            self.dist["origin:" + origin] += 1
            dd = f"{kind}({self._show_desc(desc_d)}) now={now.isoformat()}"
            case = (kind, desc_d, now)
            if res[0] == "raised":
                e = res[1]
                self.add_failure("violation", f"C20/{kind}/{type(e).__name__}",
                                 f"{dd} raised {type(e).__name__}: {e}", replay + f"\npython: raised {e!r}", case)
                return
            r = res[1]
            if kind == "classify":
                if isinstance(r, Classification):
                    hint, rk = r.retry_after_s, r.klass
                    if hint is None:
                        self.add_failure("divergence", "C20/classify/none-in-classification", dd, replay)
                        return
                elif isinstance(r, ErrorClass):
                    hint, rk = None, r
                else:
                    self.add_failure("violation", "C20/classify/type", f"{dd} returned {r!r}", replay)
                    return
            else:
                hint = r
            prob = hint_problem(hint)
            if prob:
                self.add_failure("violation", f"C20/{kind}/bad-hint", f"{dd}: {prob}", replay + f"\npython: returned {r!r}", case)
                return
            if answers and answers[-1] != "ok":
                self.add_failure("violation", f"C20/{kind}/monitor", f"{dd}: Lean monitor says {answers[-1]}", replay)
                return
            if not inm:
                self.out_of_model += 1
                self.dist[f"out-of-model:{kind}"] += 1
                return
            a = answers[0]
            t = a.split(" ")
            branch = t[1]
            self.note(lines[0], self._coarse(branch), "nolookup" not in branch or "direct" in branch)
            self.dist["direct-kind:" + self._direct_kind(desc_d)] += 1
            if kind == "coerce":
                mm = compare_res(a, hint)
            else:
                if t[0] == "bare":
                    mm = None if (hint is None and rk.name == t[2] and isinstance(r, ErrorClass)) else \
                        f"model bare {t[2]}, python {r!r}"
                elif t[0] == "classification":
                    mm = compare_res(f"hint x {t[3]}", hint)
                    if mm is None and rk.name != t[2]:
                        mm = f"class {t[2]} vs {rk.name}"
                else:
                    mm = f"model {a!r}, python {r!r}"
            if mm:
                # Where the property's text fixes the answer also at the container level — ONE clean source: no
                # direct attribute, no response object, a plain mapping with the single entry
                # <"retry-after" in any letter case> -> <1-15 ASCII digits> ("any header container", "a decimal
                # integer n gives n"; header names are case-insensitive) — a different answer is a violation.
                n = self._plain_single_int(desc_d)
                if n is not None and hint != float(n):
                    self.add_failure("violation", f"C20/{kind}/plain-mapping-int",
                                     f"{dd}: the only Retry-After supplied is the decimal integer {n} in a plain mapping; "
                                     f"hint {hint!r}", replay + f"\npython: returned {r!r}", case)
                    return
                self.add_failure("divergence", f"C20/{kind}/{self._sig_branch(branch)}", f"{dd}: {mm}",
                                 replay + f"\npython: returned {r!r}", case)
                return
            cb = kind + ":" + self._coarse(branch).split(":")[0]
            if cb not in self._sampled and len(lines[0]) < 300 and len(self.samples) < 24:
                self._sampled.add(cb)
                self.samples.append({"op": kind, "input": self._show_desc(desc_d), "request": lines[0],
                                     "python": repr(r), "model": a})
            return
        if kind == "lookup":
            hdesc, name, res, inm, origin = meta
            self.evaluations += 1
            dd = f"_lookup_header({self._show_h(hdesc)}, {name!r})"
            if res[0] == "raised":
                e = res[1]
                self.add_failure("violation", f"C20/lookup/{type(e).__name__}", f"{dd} raised {e!r}", replay)
                return
            if not inm:
                self.out_of_model += 1
                self.dist["out-of-model:lookup"] += 1
                return
            a = answers[0].split(" ")
            self.note(lines[0], "lookup-" + a[1], a[1] != "absent")
            r = res[1]
            if a[0] == "none":
                mm = None if r is None else f"model None, python {r!r}"
            elif a[0] == "str":
                got = hx(r) if isinstance(r, str) else None
                mm = None if got == (a[2] if len(a) > 2 else "") else f"model {a[2:]} python {r!r}"
            else:
                mm = f"model {answers[0]!r}, python {r!r}"
            if mm:
                self.add_failure("divergence", f"C20/lookup/{a[1]}", f"{dd}: {mm}", replay)
            return

    @staticmethod
    def _int_ok(s):
        try:
            int(s.strip())
            return True
        except ValueError:
            return False

    @staticmethod
    def _plain_single_int(d):
        if d.get("direct", "ABSENT") != "ABSENT" or d.get("response", "absent") != "absent":
            return None
        h = d.get("headers")
        if not isinstance(h, tuple) or not h:
            return None
        if h[0] == "dict":
            pairs = list(h[1])
        elif h[0] == "M" and h[3] is None and h[4] is None:
            pairs = list(h[1])
        else:
            return None
        if len(pairs) != 1:
            return None
        k, v = pairs[0]
        if not (isinstance(k, str) and k.lower() == "retry-after" and isinstance(v, str)
                and 1 <= len(v) <= 15 and v.isascii() and v.isdigit()):
            return None
        return int(v)

    @staticmethod
    def _coarse_parse(branch):
        for tag in ("date-caught", "date-escape"):
            if tag in branch:
                return branch[:branch.index(tag) + len(tag)]
        return branch

    @staticmethod
    def _coarse(branch):
        # strip embedded exception names / keep the path shape
        return branch.replace("(", "[").replace(")", "]")

    @staticmethod
    def _sig_branch(branch):
        # stable signature: the shape of the path, without embedded exception names
        import re
        return re.sub(r"date-(caught|escape)-\w+", r"date-\1", branch).replace("(", "[").replace(")", "]")

    @staticmethod
    def _direct_kind(d):
        v = d.get("direct", "ABSENT")
        if isinstance(v, str) and v == "ABSENT":
            return "absent"
        if isinstance(v, bool):
            return "bool"
        if isinstance(v, int):
            return "int-huge" if abs(v) >= FLOAT_BOUND else "int"
        if isinstance(v, float):
            return "float-nan" if v != v else ("float-inf" if v in (float("inf"), float("-inf")) else "float")
        if isinstance(v, str):
            return "str"
        return "None" if v is None else "other"

    def _show_h(self, h):
        if isinstance(h, str):
            return h
        try:
            return repr(h)[:400]
        except Exception:  # noqa: BLE001
            return f"<{h[0]} …>"

    def _show_desc(self, d):
        parts = []
        for k in ("direct", "headers", "response", "status"):
            if k in d:
                v = d[k]
                try:
                    sv = repr(v)
                except Exception:  # noqa: BLE001
                    sv = "<unreprable>"
                parts.append(f"{k}={sv[:300]}")
        return ", ".join(parts)

    def _count_boundaries(self, s, branch):
        raw = s.strip()
        body = raw[1:] if raw[:1] in "+-" else raw
        if body and all(c in "0123456789_" for c in body):
            nd = sum(c != "_" for c in body)
            if nd in (308, 309, 310, 4299, 4300, 4301):
                self.dist[f"boundary:digits={nd}"] += 1
            if nd > 4301:
                self.dist["boundary:digits>4301"] += 1
            try:
                v = int(body)
                if abs(v - FLOAT_BOUND) <= 2:
                    self.dist[f"boundary:n-FLOAT_BOUND={v - FLOAT_BOUND}"] += 1
            except ValueError:
                pass

    def _count_date(self, s, now, branch):
        if "date-aware" in branch or "date-naive" in branch:
            try:
                p = parsedate_to_datetime(s.strip())
                if p.tzinfo is None:
                    p = p.replace(tzinfo=UTC)
                d = (p - now) // US
                self.dist["boundary:date-" + ("equals-now" if d == 0 else "past(clamped)" if d < 0 else
                                              "future<=1s" if d <= 10 ** 6 else "future")] += 1
            except Exception:  # noqa: BLE001
                pass

    # ---- shrinking ----------------------------------------------------------------------------
    def _refails(self, case, sig):
        sub = Runner(self.tier, self.seed)
        sub.holder = self.holder
        kind = case[0]
        if kind == "parse":
            sub.parse_case(case[1], case[2], "shrink")
        else:
            sub.exc_case(dict(case[1]), case[2], kind, "shrink")
        sub.flush()
        hits = [f for f in sub.failures if f["sig"] == sig]
        return hits[0] if hits else None

    @staticmethod
    def _smaller_descs(d):
        """candidate simplifications of an exception description"""
        out = []
        if d.get("direct", "ABSENT") != "ABSENT":
            out.append({**d, "direct": "ABSENT"})
        if d.get("response", "absent") != "absent":
            out.append({**d, "response": "absent"})
        if d.get("headers", "ABSENT") != "ABSENT":
            out.append({**d, "headers": "ABSENT"})
        for key in ("headers", "response"):
            h = d.get(key)
            if isinstance(h, tuple) and len(h) > 1 and isinstance(h[1], list):
                for i in range(len(h[1])):
                    out.append({**d, key: (h[0], h[1][:i] + h[1][i + 1:], *h[2:])})
        return out

    def shrink(self, failure):
        """greedy: shorter strings (chunk deletion) / fewer entries, keeping the same signature (bounded)"""
        case, sig = failure.get("_case"), failure["sig"]
        if case is None:
            return failure
        best, budget = failure, 150
        if case[0] == "parse":
            s, now = case[1], case[2]
            chunk = max(1, len(s) // 2)
            while chunk >= 1 and budget > 0:
                i, progressed = 0, False
                while i < len(s) and budget > 0:
                    cand = s[:i] + s[i + chunk:]
                    budget -= 1
                    f = self._refails(("parse", cand, now), sig)
                    if f is not None:
                        s, best, progressed = cand, f, True
                    else:
                        i += chunk
                if not progressed:
                    chunk //= 2
        else:
            kind, d, now = case
            progressed = True
            while progressed and budget > 0:
                progressed = False
                for cand in self._smaller_descs(d):
                    budget -= 1
                    f = self._refails((kind, cand, now), sig)
                    if f is not None:
                        d, best, progressed = cand, f, True
                        break
        if best is not failure:
            best["detail"] = best["detail"] + "  [shrunk]"
        return best

    # ---- main ---------------------------------------------------------------------------------
    def run(self):
        t0 = wall()
        assert sys.get_int_max_str_digits() == 4300, "model parameter pyMaxStrDigits = 4300"
        n_strings, n_exc, n_lookup = (1700, 1100, 300) if self.tier == "quick" else (30000, 17000, 3000)
        saved = H.datetime
        H.datetime = Shim(now=self.holder.now_fn)
        try:
            # corpus first
            for s in corpus_strings():
                for now in NOWS[:2]:
                    self.parse_case(s, now, "corpus")
            for d in corpus_exc_descs():
                self.exc_case(dict(d), NOWS[1], "coerce", "corpus")
                dd = dict(d)
                dd["status"] = 429
                self.exc_case(dd, NOWS[1], "classify", "corpus")
            for st in [503, 401, 404, None, 200]:
                self.exc_case({"direct": 5, "headers": ("dict", [("Retry-After", "5")]), "status": st},
                              NOWS[0], "classify", "corpus")
            for sh in [("A",), ("dict", [("retry-after", "1"), ("Retry-After", "2")]),
                       ("dict", [("Retry-After", None), ("retry-after", "3")]),
                       ("dict", [("Retry-After", None), ("retry-after", None), ("RETRY-AFTER", None)]),
                       ("list", [("RETRY-AFTER", None)]), ("Q", 5), ("str", "ab")]:
                for name in ["Retry-After", "retry-after", "X"]:
                    self.lookup_case(sh, name, "corpus")
            self.flush()
            # seeded generation
            for i in range(n_strings):
                now = self.rng.choice(NOWS)
                self.parse_case(gen_string(self.rng, now), now, "random")
                if len(self.cases) >= 2000:
                    self.flush()
            for i in range(n_exc):
                now = self.rng.choice(NOWS)
                self.exc_case(gen_exc_desc(self.rng, now, i % 2 == 1), now,
                              "classify" if i % 2 == 1 else "coerce", "random")
                if len(self.cases) >= 2000:
                    self.flush()
            for i in range(n_lookup):
                now = NOWS[0]
                name = self.rng.choice(["Retry-After", "Retry-After", "retry-after", "RETRY-AFTER", "Date", ""])
                self.lookup_case(gen_hdesc(self.rng, now), name, "random")
            self.flush()
            # one failure per signature, shrunk
            first = {}
            for f in self.failures:
                first.setdefault(f["sig"], f)
            self.dist["failures-before-dedup"] = len(self.failures)
            self.failures = [self.shrink(f) for f in list(first.values())[:25]]
            for f in self.failures:
                f.pop("_case", None)
        finally:
            H.datetime = saved
        for k, v in self.oracle_stats.items():
            self.dist["oracle:" + k] = v
        self.dist["out-of-model-total"] = self.out_of_model
        return {
            "family": "retry_after",
            "evaluations": self.evaluations,
            "distinct_nontrivial": len(self.nontrivial),
            "rule": ("cases = corpus (F4/F10 witnesses, digit-count and float-range boundaries, every str.isspace code "
                     "point, 3 date formats, garbage, key-casing x None x container-shape product) then seeded generation; "
                     "distinct = distinct driver request lines (hex-encoded input + oracle answers); non-trivial = the "
                     "model's deciding branch is not `empty` (parse), not a header-less no-lookup (coerce/classify), not "
                     "`absent` (lookup). Out-of-model inputs (non-ASCII decimal digits, lone surrogates, unencodable "
                     "objects) are only safety-checked and counted under out-of-model-*."),
            "samples": self.samples[:12],
            "distribution": dict(sorted(self.dist.items())),
            "exhaustive": False,
            "failures": self.failures,
            "seconds": round(wall() - t0, 2),
        }


def lower_table_check() -> bool:
    """the ASCII-lower claim of the model: no non-ASCII code point lower-cases into letters of 'retry-after'"""
    target = set("retry-after")
    for c in range(128, 0x110000):
        if 0xD800 <= c <= 0xDFFF:
            continue
        if any(ch in target for ch in chr(c).lower()):
            return False
    return sorted(c for c in range(0x110000) if not (0xD800 <= c <= 0xDFFF) and chr(c).isspace()) == sorted(PY_SPACES)


def run(tier: str, seed: int) -> dict:
    r = Runner(tier, seed)
    res = r.run()
    if not lower_table_check():
        res["failures"].append({"property": "C20", "kind": "divergence", "sig": "C20/unicode-tables",
                                "detail": "str.isspace table or the lower() claim of the model no longer holds on this Python",
                                "replay": "harness.families.retry_after.lower_table_check()"})
    res["distribution"]["unicode-tables-checked"] = 1
    return res


if __name__ == "__main__":
    tier = sys.argv[1] if len(sys.argv) > 1 else "quick"
    seed = int(sys.argv[2]) if len(sys.argv) > 2 else 0
    print(json.dumps(run(tier, seed), indent=1, default=repr, ensure_ascii=True))
