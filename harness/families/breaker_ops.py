"""Family `breaker_ops` — correspondence for C06 and the breaker-level part of C07.

The REAL `redress.circuit.CircuitBreaker(clock=vclock.read, ...)` and the Lean model
(`driver breaker`, see lean/Driver/BreakerOps.lean for the line protocol) are driven with the same
operation histories.  After EVERY operation the returned decision / event AND the internal state
(`_state`, `_opened_at`, `_probe_in_flight`, `list(_failures)`, `{k: list(v)}` of
`_class_failures`; times converted to ticks) are compared.  Then the implementation's own recorded
history (ops + outputs + observed states) is sent to the driver's `spec` line, which evaluates the
history-based Lean specification `Redress.Breaker.historyOk` on it:

  * spec predicate fails on the implementation's outputs  -> `violation` of C06 (opening / counting
    predicates, prefix `C06.`) or C07 (open / half-open / probe predicates, prefix `C07.`);
  * model and implementation disagree but the spec accepts the implementation's outputs
    -> `divergence`, reported under both C06 and C07.

Generation: named boundary corpus first, then seeded random histories whose clock advances are
drawn from {0, 1, window-1, window, window+1, recovery-1, recovery, recovery+1}; the thorough tier
adds a small-scope EXHAUSTIVE enumeration (see `exhaustive_scopes`).  Constructor validation
(ValueError) is compared with the driver's `err ValueError`.

Stand-alone:  cd /verif && PYTHONPATH=/repo/src /venv/bin/python -m harness.families.breaker_ops quick 0
"""
from __future__ import annotations

import itertools
import json
import random
import sys
from collections import Counter

from harness import common
from harness.common import TICK, VClock, run_driver, to_ticks

common.ensure_repo_on_path()

from redress.circuit import CircuitBreaker, CircuitState  # noqa: E402
from redress.errors import ErrorClass  # noqa: E402

FAMILY = "breaker_ops"

# order of `EClass.all` in the Lean model
CLASS_ORDER = ["AUTH", "PERMISSION", "PERMANENT", "CONCURRENCY", "RATE_LIMIT", "SERVER_ERROR",
               "TRANSIENT", "UNKNOWN"]
KLASS = {n: getattr(ErrorClass, n) for n in CLASS_ORDER}
NAME_OF = {v: k for k, v in KLASS.items()}

# ---------------------------------------------------------------------------------------------
# cases
#   cfg  = {"ft": int, "w": int, "r": int, "trip": None | [names], "cls": {name: int}}
#   ops  = [[kind, klass_or_None, dt]]   kind in allow/success/failure/cancel; the clock advances by
#          dt ticks BEFORE the operation (success / cancel do not read the clock, time still passes)


def mk_cfg(ft, w, r, trip=None, cls=None):
    return {"ft": ft, "w": w, "r": r, "trip": None if trip is None else list(trip),
            "cls": dict(cls or {})}


def A(dt=0):
    return ["allow", None, dt]


def F(k="TRANSIENT", dt=0):
    return ["failure", k, dt]


def S(dt=0):
    return ["success", None, dt]


def C(dt=0):
    return ["cancel", None, dt]


def new_line(cfg) -> str:
    trip = "none" if cfg["trip"] is None else ("+".join(cfg["trip"]) or "-")
    cls = ",".join(f"{k}:{cfg['cls'][k]}" for k in CLASS_ORDER if k in cfg["cls"]) or "-"
    return f"new {cfg['ft']} {cfg['w']} {cfg['r']} {trip} {cls}"


def effective_trip(cfg) -> set:
    base = {"TRANSIENT", "SERVER_ERROR"} if cfg["trip"] is None else set(cfg["trip"])
    return base | set(cfg["cls"].keys())


def make_breaker(cfg, clock: VClock):
    """-> breaker, or the string 'ValueError'"""
    trip_on = None if cfg["trip"] is None else {KLASS[k] for k in cfg["trip"]}
    class_thresholds = {KLASS[k]: v for k, v in cfg["cls"].items()}
    before = (None if trip_on is None else set(trip_on), dict(class_thresholds))
    try:
        b = CircuitBreaker(
            failure_threshold=cfg["ft"],
            window_s=cfg["w"] * TICK,
            recovery_timeout_s=cfg["r"] * TICK,
            trip_on=trip_on,
            class_thresholds=class_thresholds,
            clock=clock.read,
        )
    except ValueError:
        return "ValueError"
    # the caller's containers belong to the caller: the constructor must neither change them (a second
    # breaker built from the same objects must see what the caller wrote) nor keep them (the caller may reuse them)
    if (None if trip_on is None else set(trip_on), dict(class_thresholds)) != before:
        return "MutatedArguments"
    if trip_on is not None:
        trip_on.clear()
        trip_on.update(KLASS.values())
    class_thresholds.clear()
    class_thresholds.update({k: 1 for k in KLASS.values()})
    return b


_STATE_NAMES = {CircuitState.CLOSED: "closed", CircuitState.OPEN: "open",
                CircuitState.HALF_OPEN: "half_open"}


def state_name(st) -> str:
    n = _STATE_NAMES.get(st)
    return n if n is not None else getattr(st, "value", str(st))


def replay_quiet(br, clock: VClock, ops) -> None:
    """apply ops without recording anything (prefix of an exhaustive-tree path)"""
    for kind, k, dt in ops:
        clock.ticks += dt
        if kind == "allow":
            br.allow()
        elif kind == "failure":
            br.record_failure(KLASS[k])
        elif kind == "success":
            br.record_success()
        else:
            br.record_cancel()


def obs_str(br) -> str:
    oa = "-" if br._opened_at is None else str(to_ticks(br._opened_at))
    fs = ",".join(str(to_ticks(x)) for x in br._failures) or "-"
    buckets = {}
    for k, v in br._class_failures.items():
        if len(v) > 0:                      # an empty bucket is the same as no bucket
            buckets[NAME_OF[k]] = ",".join(str(to_ticks(x)) for x in v)
    cf = "/".join(f"{k}:{buckets[k]}" for k in CLASS_ORDER if k in buckets) or "-"
    return f"{state_name(br._state)};{oa};{'1' if br._probe_in_flight else '0'};{fs};{cf}"


def apply_op(br, clock: VClock, op):
    """advance the clock, run the op on the real breaker -> (driver request, out tokens)"""
    kind, k, dt = op
    clock.advance(dt)
    if kind == "allow":
        d = br.allow()
        return (f"allow {clock.ticks}",
                ["allowed", "1" if d.allowed else "0", state_name(d.state), d.event or "-"])
    if kind == "success":
        return "success", ["event", br.record_success() or "-"]
    if kind == "failure":
        return f"failure {k} {clock.ticks}", ["event", br.record_failure(KLASS[k]) or "-"]
    if kind == "cancel":
        r = br.record_cancel()
        return "cancel", ["event", "-" if r is None else str(r)]
    raise AssertionError(kind)


class Stats:
    def __init__(self):
        self.ops = Counter()
        self.transitions = Counter()
        self.boundary = Counter()
        self.states = Counter()
        self.ctor = Counter()
        self.parts = Counter()

    def as_dict(self):
        return {"ops_by_kind": dict(sorted(self.ops.items())),
                "transitions": dict(sorted(self.transitions.items())),
                "boundary_hits": dict(sorted(self.boundary.items())),
                "states_visited_after_op": dict(sorted(self.states.items())),
                "constructor": dict(sorted(self.ctor.items())),
                "histories_by_part": dict(sorted(self.parts.items()))}


def note_boundaries(stats: Stats, cfg, br, clock_after: int, op, trip: set):
    """called BEFORE the op is applied (clock_after = the value the op will read)"""
    kind, k, _dt = op
    st = state_name(br._state)
    w, r = cfg["w"], cfg["r"]
    if kind == "failure" and st == "closed" and k in trip:
        ages = {clock_after - to_ticks(x) for x in br._failures}
        for name, a in (("age==window-1", w - 1), ("age==window", w), ("age==window+1", w + 1)):
            if a in ages:
                stats.boundary[name] += 1
        n_glob = sum(1 for x in br._failures if to_ticks(x) + w > clock_after) + 1
        if n_glob == cfg["ft"] - 1:
            stats.boundary["count==threshold-1"] += 1
        if n_glob == cfg["ft"]:
            stats.boundary["count==threshold"] += 1
        if k in cfg["cls"]:
            b = br._class_failures.get(KLASS[k], ())
            n_cls = sum(1 for x in b if to_ticks(x) + w > clock_after) + 1
            if n_cls == cfg["cls"][k] - 1:
                stats.boundary["class-count==threshold-1"] += 1
            if n_cls >= cfg["cls"][k] and n_glob < cfg["ft"]:
                stats.boundary["class-threshold-before-global"] += 1
            if n_cls < cfg["cls"][k] and n_glob >= cfg["ft"]:
                stats.boundary["global-threshold-before-class"] += 1
    if kind == "failure" and st == "closed" and k not in trip:
        stats.boundary["non-trip-failure-while-closed"] += 1
    if kind == "success" and st == "closed":
        stats.boundary["success-while-closed"] += 1
    if kind == "cancel":
        stats.boundary[f"cancel-in-{st}"] += 1
    if kind == "allow" and st == "open" and br._opened_at is not None:
        el = clock_after - to_ticks(br._opened_at)
        for name, a in (("elapsed==recovery-1", r - 1), ("elapsed==recovery", r),
                        ("elapsed==recovery+1", r + 1)):
            if el == a:
                stats.boundary[name] += 1
    if kind == "allow" and st == "half_open":
        stats.boundary["allow-while-probe-in-flight" if br._probe_in_flight
                       else "allow-with-free-probe-slot"] += 1
    if kind == "failure" and st == "open":
        stats.boundary["failure-while-open"] += 1
    if kind == "failure" and st == "half_open":
        stats.boundary["probe-failure" + ("" if k in trip else "-non-trip-class")] += 1
    if kind == "success" and st == "half_open":
        stats.boundary["probe-success"] += 1


def run_python(case, stats: Stats | None = None):
    """Run the real implementation on a case.
    -> (requests, expected output lines, had_transition)"""
    cfg = case["cfg"]
    clock = VClock(0)
    reqs = [new_line(cfg)]
    br = make_breaker(cfg, clock)
    if br == "ValueError":
        if stats:
            stats.ctor["ValueError"] += 1
        return reqs, ["err ValueError"], False
    if br == "MutatedArguments":
        return reqs, ["python-raised MutatedArguments: the constructor changed the caller's trip_on / "
                      "class_thresholds containers"], False
    if stats:
        stats.ctor["ok"] += 1
    exp = ["ok"]
    recs = []
    trip = effective_trip(cfg)
    transition = False
    for op in case["ops"]:
        before = state_name(br._state)
        if stats:
            note_boundaries(stats, cfg, br, clock.ticks + op[2], op, trip)
        try:
            req, out = apply_op(br, clock, op)
        except Exception as e:  # noqa: BLE001 - a raising implementation is a reportable outcome
            reqs.append(f"{op[0]} {op[1] or ''} {clock.ticks}".replace("  ", " ").strip()
                        if op[0] in ("allow", "failure") else op[0])
            exp.append(f"python-raised {type(e).__name__}: {e}")
            break
        ob = obs_str(br)
        after = state_name(br._state)
        if after != before:
            transition = True
        if stats:
            stats.ops[op[0]] += 1
            stats.states[after] += 1
            if after != before:
                stats.transitions[f"{before}->{after}"] += 1
        reqs.append(req)
        exp.append(f"{' '.join(out)} | st={ob}")
        recs.append(f"{req.replace(' ', ',')}~{','.join(out)}~{ob}")
    reqs.append("spec " + ("#".join(recs) or "-"))
    exp.append(f"spec-ok {len(recs)}")
    return reqs, exp, transition


# ---------------------------------------------------------------------------------------------
# judging


def judge(case, reqs, exp, got):
    """-> list of failure dicts (empty if the case agrees everywhere)"""
    if len(got) != len(exp):
        return [mk_failure(case, p, "divergence", "driver-output-length",
                           f"expected {len(exp)} lines, got {len(got)}", reqs, exp, got)
                for p in ("C06", "C07")]
    first = next((i for i in range(len(exp)) if exp[i] != got[i]), None)
    if first is None:
        return []
    spec_line = got[-1] if reqs[-1].startswith("spec ") else ""
    if spec_line.startswith("spec-bad "):
        parts = spec_line.split(" ", 3)
        pred, idx = parts[1], parts[2]
        detail = parts[3] if len(parts) > 3 else ""
        prop = pred.split(".")[0]
        return [mk_failure(case, prop, "violation", f"{pred}",
                           f"Lean spec predicate {pred} fails on the implementation's own outputs at "
                           f"op #{idx} ({reqs[int(idx) + 1]}): {detail}", reqs, exp, got)]
    what = "constructor" if first == 0 else reqs[first].split(" ")[0]
    detail = (f"first disagreement at line {first} ({reqs[first]}): model[{got[first]}] "
              f"implementation[{exp[first]}]; spec on the implementation's outputs: {spec_line or 'n/a'}")
    return [mk_failure(case, p, "divergence", f"divergence/{what}", detail, reqs, exp, got)
            for p in ("C06", "C07")]


def mk_failure(case, prop, kind, sig, detail, reqs, exp, got):
    replay = [f"# breaker_ops case {case.get('name', '?')}: driver input, then what python did / model said"]
    for i, r in enumerate(reqs):
        e = exp[i] if i < len(exp) else "?"
        g = got[i] if i < len(got) else "?"
        mark = "  " if e == g else "!!"
        replay.append(f"{mark} > {r}")
        replay.append(f"{mark}   python: {e}")
        if e != g:
            replay.append(f"{mark}   model : {g}")
    return {"property": prop, "kind": kind, "sig": sig,
            "detail": f"case {case.get('name', '?')} cfg={json.dumps(case['cfg'], sort_keys=True)} "
                      f"ops={json.dumps(case['ops'])}: {detail}",
            "replay": "\n".join(replay), "_case": case}


def drive(text_lines):
    out = run_driver("breaker", "\n".join(text_lines) + "\n")
    return [ln for ln in out.split("\n") if ln and not ln.startswith("#")]


def check_one(case):
    reqs, exp, _ = run_python(case)
    got = drive(reqs)
    return judge(case, reqs, exp, got)


def run_batch(cases, stats: Stats, failures: list, keys: set | None = None):
    """run cases on both sides in one driver pass; returns number of operations evaluated"""
    all_reqs, spans, evals = [], [], 0
    for case in cases:
        reqs, exp, trans = run_python(case, stats)
        spans.append((case, reqs, exp, len(all_reqs)))
        all_reqs.extend(reqs)
        evals += len(reqs) - 1 if len(reqs) > 1 else 1
        if keys is not None and trans:
            keys.add(case_key(case))
    got_all = drive(all_reqs) if all_reqs else []
    if len(got_all) != len(all_reqs):
        # cannot align: re-run one by one to locate
        for case, reqs, exp, _ in spans:
            failures.extend(judge(case, reqs, exp, drive(reqs)))
        return evals
    for case, reqs, exp, off in spans:
        failures.extend(judge(case, reqs, exp, got_all[off:off + len(reqs)]))
    return evals


def case_key(case) -> str:
    return json.dumps([case["cfg"], case["ops"]], sort_keys=True)


# ---------------------------------------------------------------------------------------------
# shrinking


def shrink(fail, budget=160):
    """greedy: fewer ops, smaller clock steps, smaller numbers, fewer classes — keeping
    (property, kind) and, for violations, the predicate"""
    target = (fail["property"], fail["kind"], fail["sig"] if fail["kind"] == "violation" else None)

    def still(case):
        nonlocal budget
        if budget <= 0:
            return None
        budget -= 1
        for f in check_one(case):
            if (f["property"], f["kind"], f["sig"] if f["kind"] == "violation" else None) == target:
                return f
        return None

    best = fail
    changed = True
    while changed and budget > 0:
        changed = False
        case = best["_case"]
        cands = []
        ops = case["ops"]
        for i in range(len(ops) - 1, -1, -1):           # drop an op (its dt goes to the next one)
            new_ops = [list(o) for o in ops[:i] + ops[i + 1:]]
            if i < len(new_ops):
                new_ops[i][2] += ops[i][2]
            cands.append({**case, "ops": new_ops})
            cands.append({**case, "ops": [list(o) for o in ops[:i] + ops[i + 1:]]})
        for i, o in enumerate(ops):                      # smaller steps
            for nd in sorted({0, 1, o[2] - 1}):
                if 0 <= nd < o[2]:
                    cands.append({**case, "ops": [list(p) if j != i else [p[0], p[1], nd]
                                                  for j, p in enumerate(ops)]})
        cfg = case["cfg"]
        for fld in ("ft", "w", "r"):                     # smaller numbers
            if cfg[fld] > 1:
                cands.append({**case, "cfg": {**cfg, fld: cfg[fld] - 1}})
        for k in list(cfg["cls"]):
            rest = {a: b for a, b in cfg["cls"].items() if a != k}
            cands.append({**case, "cfg": {**cfg, "cls": rest}})
            if cfg["cls"][k] > 1:
                cands.append({**case, "cfg": {**cfg, "cls": {**cfg["cls"], k: cfg["cls"][k] - 1}}})
        if cfg["trip"]:
            for k in cfg["trip"]:
                cands.append({**case, "cfg": {**cfg, "trip": [a for a in cfg["trip"] if a != k]}})
        for cand in cands:
            f = still(cand)
            if f is not None:
                base = case.get("name", "?")
                f["_case"]["name"] = base if base.endswith("/shrunk") else base + "/shrunk"
                best = f
                changed = True
                break
    return best


# ---------------------------------------------------------------------------------------------
# corpus


def corpus():
    cs = []

    def add(name, cfg, ops):
        cs.append({"name": name, "cfg": cfg, "ops": ops})

    c2 = mk_cfg(2, 10, 5)
    add("age==window: not counted, then counted", c2, [F(), F(dt=10), F(dt=0)])
    add("age==window-1: counted", c2, [F(), F(dt=9)])
    add("age==window+1: not counted", c2, [F(), F(dt=11), F(dt=11), F(dt=10), F(dt=9)])
    c1 = mk_cfg(1, 10, 5)
    add("elapsed==recovery-1 rejected, ==recovery admitted", c1, [F(dt=3), A(dt=4), A(dt=1), A()])
    add("elapsed==recovery admitted at once", c1, [F(dt=3), A(dt=5), A()])
    add("elapsed==recovery+1 admitted", c1, [F(dt=3), A(dt=6), A()])
    c3 = mk_cfg(3, 10, 5)
    add("count==threshold-1 then threshold", c3, [F(), F(dt=1), A(), F(dt=1), A()])
    add("class threshold reached before global",
        mk_cfg(5, 10, 5, trip=["TRANSIENT"], cls={"RATE_LIMIT": 2}),
        [F("TRANSIENT"), F("RATE_LIMIT", 1), F("RATE_LIMIT", 1), A()])
    add("global threshold reached before class",
        mk_cfg(2, 10, 5, trip=["TRANSIENT"], cls={"RATE_LIMIT": 3}),
        [F("TRANSIENT"), F("RATE_LIMIT", 1), A()])
    add("class bucket pruned only by its own class; boundary inside the bucket",
        mk_cfg(10, 5, 3, trip=["TRANSIENT"], cls={"RATE_LIMIT": 2}),
        [F("RATE_LIMIT"), F("TRANSIENT", 3), F("RATE_LIMIT", 2), F("RATE_LIMIT", 4), A()])
    for name, w, r in (("window<recovery", 3, 8), ("window>recovery", 8, 3), ("window==recovery", 4, 4)):
        add(f"{name}: full cycle", mk_cfg(2, w, r),
            [F(), F(dt=w - 1), A(dt=r - 1), A(dt=1), A(), S(), F(dt=1), F(dt=w), F(dt=w - 1), A(dt=r),
             F("AUTH", 0), A(dt=r - 1), A(dt=1), C(), A(), S(), A()])
    add("non-trip classes never open", c1,
        [F("AUTH"), F("PERMISSION", 1), F("PERMANENT", 1), F("UNKNOWN", 1), F("RATE_LIMIT"),
         F("CONCURRENCY"), A()])
    add("empty trip_on plus class thresholds: keys are added to trip_on",
        mk_cfg(1, 10, 5, trip=[], cls={"UNKNOWN": 2}),
        [F("TRANSIENT"), F("SERVER_ERROR"), F("UNKNOWN"), A(), F("UNKNOWN", 1), A()])
    add("empty trip_on, nothing ever opens", mk_cfg(1, 10, 5, trip=[]),
        [F("TRANSIENT"), F("SERVER_ERROR"), F("UNKNOWN"), A()])
    add("explicit trip_on with UNKNOWN", mk_cfg(2, 10, 5, trip=["UNKNOWN", "AUTH"]),
        [F("TRANSIENT"), F("UNKNOWN"), F("AUTH"), A()])
    add("success while closed changes nothing", c2, [F(), S(), A(), S(1), F(dt=1), A()])
    add("cancel while closed / open / half-open(probe)", c1,
        [C(), F(), C(), A(dt=1), A(dt=4), C(), A(), A(), C(2), C(), A()])
    add("two allows after the timeout", c1, [F(), A(dt=5), A(), A(dt=100)])
    add("probe success closes with EMPTY history", c2,
        [F(), F(dt=1), A(dt=5), S(), F(dt=0), A(), F(dt=1), A()])
    add("probe failure re-opens with a FRESH timeout (non-trip class too)", c1,
        [F(dt=2), A(dt=5), F("AUTH", 3), A(dt=4), A(dt=1), F("TRANSIENT", 0), A(dt=4), A(dt=1)])
    add("failures while open are ignored and not remembered", c2,
        [F(), F(), F(dt=1), F(dt=1), S(), C(), A(dt=5), S(), F(dt=0), A(), F(), A()])
    add("history does not survive an open/close cycle", c3,
        [F(), F(), F(), A(dt=5), S(), F(dt=0), F(), A(), F(), A()])
    add("stale completion shapes (F7) at breaker level", c1,
        [A(), A(), F(dt=1), A(dt=5), C(), A(), S(), A(), F(dt=1), A(dt=5), F(dt=0), A(dt=5), S(), A()])
    add("clock never advances", mk_cfg(3, 1, 1), [F(), A(), F(), S(), F(), A(), A(), F(), A(), S(), F()])
    add("window 1, recovery 1, every tick", mk_cfg(2, 1, 1),
        [F(), F(dt=1), F(dt=0), A(), A(dt=1), A(), F(dt=1), A(dt=1), S(), F(), F(dt=1), F()])
    add("default trip_on", mk_cfg(2, 10, 5, trip=None),
        [F("RATE_LIMIT"), F("RATE_LIMIT"), F("SERVER_ERROR"), F("TRANSIENT"), A()])
    add("class threshold 1 opens at the first failure of that class",
        mk_cfg(5, 10, 5, cls={"RATE_LIMIT": 1}), [F("TRANSIENT"), F("RATE_LIMIT"), A()])
    add("both thresholds reached by the same failure",
        mk_cfg(2, 10, 5, cls={"TRANSIENT": 2}), [F("TRANSIENT"), F("TRANSIENT", 10), F("TRANSIENT", 9)])
    add("two class thresholds", mk_cfg(9, 6, 2, cls={"TRANSIENT": 3, "RATE_LIMIT": 2}),
        [F("TRANSIENT"), F("RATE_LIMIT", 1), F("TRANSIENT", 1), F("SERVER_ERROR", 1),
         F("RATE_LIMIT", 4), F("RATE_LIMIT", 5), A()])
    # constructor validation
    for name, cfg in (
        ("ctor ft=0", mk_cfg(0, 10, 5)), ("ctor ft=-1", mk_cfg(-1, 10, 5)),
        ("ctor window=0", mk_cfg(1, 0, 5)), ("ctor window=-1", mk_cfg(1, -1, 5)),
        ("ctor recovery=0", mk_cfg(1, 10, 0)), ("ctor recovery=-3", mk_cfg(1, 10, -3)),
        ("ctor class threshold 0", mk_cfg(1, 10, 5, cls={"RATE_LIMIT": 0})),
        ("ctor class threshold -1", mk_cfg(1, 10, 5, cls={"TRANSIENT": 2, "RATE_LIMIT": -1})),
        ("ctor all bad", mk_cfg(0, 0, 0, cls={"AUTH": 0})),
        ("ctor minimal valid", mk_cfg(1, 1, 1)),
    ):
        add(name, cfg, [F(), A(), A(dt=1)])
    return cs


# ---------------------------------------------------------------------------------------------
# random generation


def random_case(rng: random.Random, i: int, max_ops: int):
    ft = rng.choice([1, 1, 2, 2, 3, 3, 4, 5])
    w = rng.choice([1, 2, 3, 4, 5, 8, 13])
    r = rng.choice([1, 2, 3, 4, 5, 8, 13])
    mode = rng.random()
    if mode < 0.3:
        trip = None
    elif mode < 0.4:
        trip = []
    else:
        trip = sorted(rng.sample(CLASS_ORDER, rng.choice([1, 2, 2, 3])), key=CLASS_ORDER.index)
    cls = {}
    for _ in range(rng.choice([0, 0, 1, 1, 2])):
        cls[rng.choice(CLASS_ORDER)] = rng.choice([1, 2, 2, 3])
    if rng.random() < 0.03:                               # an occasional invalid configuration
        bad = rng.choice(["ft", "w", "r", "cls"])
        if bad == "cls":
            cls[rng.choice(CLASS_ORDER)] = rng.choice([0, -1])
        else:
            v = rng.choice([0, -1])
            ft, w, r = (v if bad == "ft" else ft), (v if bad == "w" else w), (v if bad == "r" else r)
    cfg = mk_cfg(ft, w, r, trip, cls)
    counted = sorted(effective_trip(cfg), key=CLASS_ORDER.index)
    steps = [0, 1, w - 1, w, w + 1, r - 1, r, r + 1]
    steps = [s for s in steps if s >= 0]
    n = rng.randint(1, max_ops)
    ops = []
    for _ in range(n):
        dt = 0 if rng.random() < 0.25 else rng.choice(steps)
        x = rng.random()
        if x < 0.34:
            ops.append(A(dt))
        elif x < 0.76:
            if counted and rng.random() < 0.8:
                k = rng.choice(counted)
            else:
                k = rng.choice(CLASS_ORDER)
            ops.append(F(k, dt))
        elif x < 0.90:
            ops.append(S(dt))
        else:
            ops.append(C(dt))
    return {"name": f"rnd{i}", "cfg": cfg, "ops": ops}


# ---------------------------------------------------------------------------------------------
# small-scope exhaustive enumeration (thorough tier)
#
# Scope "wide":  failure_threshold 1..3 x window 1..3 x recovery 1..3 x 4 class set-ups
#                (108 configurations), ALL histories of <= 4 operations over the 11-letter alphabet
#                {allow, failure TRANSIENT, failure RATE_LIMIT} x clock step {0,1,2} + success + cancel.
# Scope "deep":  failure_threshold 1..3 x (window, recovery) in {(1,2),(2,1),(2,2)} x 3 of the class
#                set-ups (27 configurations), ALL histories of <= 6 operations over the 8-letter
#                alphabet with clock steps {0,1}.
# The class set-ups use <= 2 classes: trip_on={TRANSIENT} with class_thresholds {} (RATE_LIMIT is then
# a non-counted class), {TRANSIENT:2}, {RATE_LIMIT:1}, {RATE_LIMIT:2}.
# Every node of the history tree is executed on both sides (python: fresh breaker + replay of the
# path; model: `at <depth>` restores the model state saved at the parent) and the last operation's
# output and after-state are compared; the Lean spec line is evaluated on demand, for paths on
# which the two sides differ (on agreeing paths `historyOk` holds by theorem `historyOk_model`).

CLS_SETUPS = [{}, {"TRANSIENT": 2}, {"RATE_LIMIT": 1}, {"RATE_LIMIT": 2}]


def exhaustive_scopes():
    def alphabet(steps):
        al = []
        for dt in steps:
            al += [A(dt), F("TRANSIENT", dt), F("RATE_LIMIT", dt)]
        return al + [S(), C()]
    wide = [mk_cfg(ft, w, r, ["TRANSIENT"], cls) for ft in (1, 2, 3) for w in (1, 2, 3)
            for r in (1, 2, 3) for cls in CLS_SETUPS]
    deep = [mk_cfg(ft, w, r, ["TRANSIENT"], cls) for ft in (1, 2, 3)
            for (w, r) in ((1, 2), (2, 1), (2, 2)) for cls in (CLS_SETUPS[0], CLS_SETUPS[1], CLS_SETUPS[3])]
    return [("wide", wide, alphabet((0, 1, 2)), 4), ("deep", deep, alphabet((0, 1)), 6)]


def exhaustive_config(cfg, alphabet, depth, stats: Stats):
    """-> (requests, expected, paths) for the whole history tree of one configuration"""
    reqs, exp, paths = [new_line(cfg)], ["ok"], [()]
    trip = effective_trip(cfg)

    def node(path):
        # fresh breaker, replay the path; record only the last operation
        clock = VClock(0)
        br = make_breaker(cfg, clock)
        replay_quiet(br, clock, path[:-1])
        op = path[-1]
        before = state_name(br._state)
        note_boundaries(stats, cfg, br, clock.ticks + op[2], op, trip)
        req, out = apply_op(br, clock, op)
        after = state_name(br._state)
        stats.ops[op[0]] += 1
        stats.states[after] += 1
        if after != before:
            stats.transitions[f"{before}->{after}"] += 1
        reqs.append(f"at {len(path) - 1} {req}")
        exp.append(f"{' '.join(out)} | st={obs_str(br)}")
        paths.append(path)

    def rec(path):
        for op in alphabet:
            p = path + (tuple(op),)
            node(p)
            if len(p) < depth:
                rec(p)

    rec(())
    return reqs, exp, paths


def run_exhaustive(stats: Stats, failures: list):
    total_nodes, total_leaves, sizes = 0, 0, {}
    for scope, cfgs, alphabet, depth in exhaustive_scopes():
        nodes = 0
        batch_reqs, batch_meta = [], []
        for cfg in cfgs:
            reqs, exp, paths = exhaustive_config(cfg, alphabet, depth, stats)
            batch_meta.append((cfg, reqs, exp, paths, len(batch_reqs)))
            batch_reqs.extend(reqs)
            nodes += len(reqs) - 1
            if len(batch_reqs) > 400_000:
                judge_exhaustive(scope, batch_reqs, batch_meta, failures)
                batch_reqs, batch_meta = [], []
        if batch_reqs:
            judge_exhaustive(scope, batch_reqs, batch_meta, failures)
        a = len(alphabet)
        sizes[scope] = {"configurations": len(cfgs), "alphabet": a, "max_ops": depth,
                        "histories_per_configuration": sum(a ** d for d in range(1, depth + 1)),
                        "histories": nodes}
        total_nodes += nodes
        total_leaves += len(cfgs) * a ** depth
        stats.parts[f"exhaustive-{scope}"] += nodes
    return total_nodes, sizes


def judge_exhaustive(scope, batch_reqs, batch_meta, failures):
    got_all = drive(batch_reqs)
    for cfg, reqs, exp, paths, off in batch_meta:
        got = got_all[off:off + len(reqs)]
        bad = next((i for i in range(len(reqs)) if i >= len(got) or got[i] != exp[i]), None)
        if bad is None:
            continue
        # re-run the offending path as an ordinary linear case (with the spec line)
        case = {"name": f"exhaustive-{scope}", "cfg": cfg, "ops": [list(o) for o in paths[bad]]}
        fs = check_one(case)
        if not fs:
            fs = [mk_failure(case, p, "divergence", "divergence/exhaustive-only",
                             f"tree run differs at {reqs[bad]}: model[{got[bad] if bad < len(got) else '?'}] "
                             f"implementation[{exp[bad]}] but the linear re-run agrees", reqs[:1], exp[:1],
                             got[:1]) for p in ("C06", "C07")]
        failures.extend(fs)


# ---------------------------------------------------------------------------------------------


def run(tier: str, seed: int) -> dict:
    assert tier in ("quick", "thorough")
    rng = random.Random(seed)
    stats = Stats()
    failures: list = []
    keys: set = set()
    evaluations = 0

    cs = corpus()
    stats.parts["corpus"] += len(cs)
    evaluations += run_batch(cs, stats, failures, keys)

    n_random = 1500 if tier == "quick" else 15000
    cases = [random_case(rng, i, 40) for i in range(n_random)]
    stats.parts["random"] += len(cases)
    for i in range(0, len(cases), 3000):
        evaluations += run_batch(cases[i:i + 3000], stats, failures, keys)

    exhaustive = False
    sizes = {}
    distinct = len(keys)
    if tier == "thorough":
        nodes, sizes = run_exhaustive(stats, failures)
        evaluations += nodes
        exhaustive = True
        # every node of the tree is a distinct history; those with a transition are non-trivial,
        # but they are not tracked individually: count only corpus/random ones in `distinct`.

    # dedupe by (property, kind, sig), shrink the first representatives
    seen, out = {}, []
    for f in failures:
        key = (f["property"], f["kind"], f["sig"])
        seen.setdefault(key, []).append(f)
    for key, fs in sorted(seen.items()):
        rep = min(fs, key=lambda f: (len(f["_case"]["ops"]), f["detail"]))
        if len(out) < 12:
            rep = shrink(rep)
        rep = {k: v for k, v in rep.items() if k != "_case"}
        rep["detail"] = f"[{len(fs)} case(s) with this signature] " + rep["detail"]
        out.append(rep)

    samples = [{"name": c["name"], "cfg": c["cfg"], "ops": c["ops"]} for c in (cs[:2] + cases[:2])]
    dist = stats.as_dict()
    if sizes:
        dist["exhaustive_scopes"] = sizes
    return {
        "family": FAMILY,
        "evaluations": evaluations,
        "distinct_nontrivial": distinct,
        "rule": ("corpus of named boundary histories, then seeded random histories (<= 40 ops, clock "
                 "steps from {0,1,w-1,w,w+1,r-1,r,r+1}, ~3% invalid configurations); thorough adds "
                 "the exhaustive scopes described in distribution.exhaustive_scopes (exhaustive=true "
                 "refers to that part only). evaluations = operations (plus constructor checks) "
                 "executed on BOTH sides with output and full internal state compared. A case is "
                 "distinct by (configuration, op list) and non-trivial if the breaker changes state "
                 "at least once in it (corpus + random part only)."),
        "samples": samples,
        "distribution": dist,
        "exhaustive": exhaustive,
        "failures": out,
    }


if __name__ == "__main__":
    tier = sys.argv[1] if len(sys.argv) > 1 else "quick"
    seed = int(sys.argv[2]) if len(sys.argv) > 2 else 0
    json.dump(run(tier, seed), sys.stdout, indent=1, sort_keys=True)
    print()
