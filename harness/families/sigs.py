"""Family `sigs` (C05): the decision table of `strategies._normalize_strategy`.

For EVERY signature shape with up to 4 required / 3 defaulted positional parameters, with and without
`*args`, 0-1 required / 0-1 defaulted keyword-only parameters, with and without `**kwargs` (320 shapes;
plus wider ones in the thorough tier) a callable with exactly that `inspect.signature` is generated,
handed to the real `_normalize_strategy`, and the normalised strategy is called once with a
`BackoffContext`; how the callable was then actually invoked (one positional argument = context-style,
three = legacy) or the `TypeError` is compared with the Lean function `normalizeSig` (`driver sigs`),
about which `Redress/Props/C05Sig.lean` proves `ctx_iff`, `legacy_iff`, `rejected_iff`,
`optional_parts_irrelevant`.

A disagreement is a concrete violation of C05 ("the strategy … is called with its signature kind"): the
replay is the shape.
"""
from __future__ import annotations

import itertools
import json
import sys
from collections import Counter

from ..common import run_driver, wall
from ..loopenv import sig_callable

from redress.classify import Classification  # noqa: E402
from redress.errors import ErrorClass  # noqa: E402
from redress.strategies import BackoffContext, _normalize_strategy  # noqa: E402


def shape_tok(shape) -> str:
    r, o, v, kr, ko, vk = shape
    return f"{r}.{o}.{int(v)}.{kr}.{ko}.{int(vk)}"


def observe(shape) -> str:
    """ctx | legacy | error | other:<what> — what the real library does with a callable of this shape"""
    seen: list = []

    def on_call(args, kwargs):
        seen.append((len(args), sorted(kwargs)))
        return 0.0

    fn = sig_callable(shape, on_call)
    try:
        norm = _normalize_strategy(fn)
    except TypeError:
        return "error"
    ctx = BackoffContext(attempt=2, classification=Classification(klass=ErrorClass.TRANSIENT),
                         prev_sleep_s=0.5, remaining_s=3.0, cause="exception")
    try:
        norm(ctx)
    except TypeError as e:          # the wrapped call did not fit the callable's signature
        return f"other:call-TypeError:{e}"
    except Exception as e:  # noqa: BLE001 - e.g. a different callable than the one handed in was invoked
        return f"other:call-raised:{type(e).__name__}"
    if seen == [(1, [])]:
        return "ctx"
    if seen == [(3, [])]:
        return "legacy"
    return f"other:{seen}"


def shapes(tier: str):
    rng_r, rng_o = (range(0, 5), range(0, 4)) if tier == "quick" else (range(0, 7), range(0, 6))
    rng_k = range(0, 2) if tier == "quick" else range(0, 3)
    return list(itertools.product(rng_r, rng_o, (False, True), rng_k, rng_k, (False, True)))


def run(tier: str, seed: int) -> dict:
    t0 = wall()
    sh = shapes(tier)
    impl = [observe(s) for s in sh]
    model = run_driver("sigs", "".join(shape_tok(s) + "\n" for s in sh)).splitlines()
    fails = []
    dist: Counter = Counter()
    for s, i, m in zip(sh, impl, model):
        dist[f"impl:{i.split(':')[0]}"] += 1
        if i != m:
            fails.append({"kind": "violation", "property": "C05", "sig": f"C05/sigs/{m}->{i.split(':')[0]}",
                          "detail": f"signature shape {shape_tok(s)} (req.opt.varargs.kwreq.kwopt.varkw): "
                                    f"_normalize_strategy => {i}; normalizeSig (Lean) => {m}",
                          "replay": json.dumps({"family": "sigs", "shape": shape_tok(s), "impl": i, "model": m})})
    return {"family": "sigs", "evaluations": len(sh), "distinct_nontrivial": len(sh),
            "rule": "one case = one signature shape (required/defaulted positional, *args, required/defaulted "
                    "kw-only, **kwargs); all shapes in the stated ranges are enumerated",
            "samples": [{"shape": shape_tok(s), "impl": i} for s, i in list(zip(sh, impl))[:3]],
            "distribution": dict(dist), "exhaustive": True, "failures": fails, "wall_s": round(wall() - t0, 2)}


def replay(text: str):
    try:
        d = json.loads(text.split("\n", 1)[-1] if text.startswith("#") else text)
    except Exception:  # noqa: BLE001
        return None
    if not isinstance(d, dict) or d.get("family") != "sigs":
        return None
    r, o, v, kr, ko, vk = d["shape"].split(".")
    shape = (int(r), int(o), v == "1", int(kr), int(ko), vk == "1")
    i = observe(shape)
    m = run_driver("sigs", d["shape"] + "\n").strip()
    print(f"shape {d['shape']}: implementation => {i}; model => {m}")
    if i != m:
        print(f"VIOLATION property=C05 replay=<this file>")
        return 1
    return 0


if __name__ == "__main__":
    r = run(sys.argv[1] if len(sys.argv) > 1 else "quick", 0)
    f = r.pop("failures")
    print(json.dumps(r, indent=1))
    print("FAILURES", Counter(x["sig"] for x in f))
    for x in f[:5]:
        print(x["detail"])
