"""Family budget_ops (property C10): the real `redress.budget.Budget` vs the Lean model/spec.

Every case is one budget object and one history of operations with the clock value each operation
reads:

    {"name": str, "max": int, "window": int (ticks), "ops": [["c", now, cost] | ["r", now], ...]}

Both sides execute the same lines (`new`, `consume`, `remaining` — see Driver/BudgetOps.lean);
after EVERY operation the returned value and the internal deque (`list(b._events)` in ticks) are
compared with the model's.  The implementation's recorded log is then sent back to the driver's
`spec` line, where the Lean predicates of Redress/Spec/Budget.lean (refusalOk, remainingOk,
windowBoundOk, eventsOk) are evaluated on the implementation's own outputs:

    violation  = the Lean spec predicate refusal/remaining/window fails on the implementation's log
    divergence = model and implementation disagree (or only the internal deque is off) but no C10
                 predicate fails

The clock is `redress.budget.time` replaced by `Shim(monotonic=clock.read)` (module attribute of
redress.budget only; restored afterwards).  Histories whose clock is NOT non-decreasing are also
compared against the model (its prune is the pop-left loop, not a filter) but are not judged by the
spec, whose hypothesis is a monotone clock.
"""
from __future__ import annotations

import itertools
import json
import random
import sys
import threading
import time
from collections import Counter

from harness.common import TICK, Shim, VClock, ensure_repo_on_path, run_driver, wall

ensure_repo_on_path()

import redress.budget as _rb  # noqa: E402

FAMILY = "budget_ops"
C10_PREDS = ("refusal", "remaining", "window")


# --------------------------------------------------------------------------------------------
# executing one case on the implementation
# --------------------------------------------------------------------------------------------

def _ev_tok(ev):
    return ",".join(map(str, ev)) if ev else "-"


def case_lines(case):
    """driver input lines of a case"""
    out = [f"new {case['max']} {case['window']}"]
    for op in case["ops"]:
        if op[0] == "c":
            out.append(f"consume {op[1]} {op[2]}")
        else:
            out.append(f"remaining {op[1]}")
    return out


def is_monotone(case):
    last = 0
    for op in case["ops"]:
        if op[1] < last:
            return False
        last = op[1]
    return True


class ImplRun:
    __slots__ = ("lines", "log", "events", "ctor_rejected", "stats_rows")

    def __init__(self):
        self.lines = []        # reply lines in the driver's format
        self.log = []          # spec entries (only ops the code accepted)
        self.events = []       # deque after the last op (ticks)
        self.ctor_rejected = False
        self.stats_rows = []   # (kind, now, cost, result, before, after)


_INV_TICK = round(1.0 / TICK)
assert _INV_TICK * TICK == 1.0


class _Unreadable(Exception):
    """the budget's private state is no longer a sequence of grant times"""


UNREADABLE = [False]        # set when some Budget's private state could not be read in this process


def _ticks(events):
    """deque of float seconds on the grid -> list of int ticks (exactness checked)"""
    out = []
    for e in events:
        if isinstance(e, bool) or not isinstance(e, (int, float)):
            # the private representation changed: fall back to what a caller can observe (consume / remaining
            # results); the deque comparison is dropped and reported once as a broken correspondence
            UNREADABLE[0] = True
            raise _Unreadable(repr(e)[:80])
        x = e * _INV_TICK
        k = int(x)
        if k != x:
            raise AssertionError(f"deque entry {e!r} is off the tick grid")
        out.append(k)
    return out


def _safe_ticks(b):
    try:
        return _ticks(b._events)
    except (_Unreadable, AttributeError, TypeError):
        UNREADABLE[0] = True
        return ["?"]


def _strip_events(line: str) -> str:
    return line.split(" events=")[0]


def run_impl(case, clock: VClock, want_rows: bool = True) -> ImplRun:
    """Drive the real Budget.  Requires redress.budget.time to be shimmed onto `clock`."""
    r = ImplRun()
    clock.ticks = 0
    try:
        b = _rb.Budget(max_retries=case["max"], window_s=case["window"] * TICK)
    except ValueError:
        r.ctor_rejected = True
        r.lines.append("reject")
        # no object: every later line is a bad-op on the driver side
        r.lines.extend("bad-op" for _ in case["ops"])
        return r
    lines, log, rows = r.lines, r.log, r.stats_rows
    lines.append("ok")
    ev = []                      # deque after the previous op == deque before this one
    for op in case["ops"]:
        now = op[1]
        clock.ticks = now
        before = ev
        if op[0] == "c":
            cost = op[2]
            try:
                ok = b.consume(cost)
            except ValueError:
                lines.append("reject")
                if "?" not in before and list(b._events) != [e * TICK for e in before]:
                    raise AssertionError("rejected consume touched the deque")
                if want_rows:
                    rows.append(("c", now, cost, None, before, before))
                continue
            if ok is not True and ok is not False:
                raise AssertionError(f"consume returned {ok!r}")
            ev = _safe_ticks(b)
            lines.append(f"granted {1 if ok else 0} events={_ev_tok(ev)}")
            log.append(f"c,{now},{cost},{1 if ok else 0}")
            if want_rows:
                rows.append(("c", now, cost, ok, before, ev))
        else:
            n = b.remaining()
            if type(n) is not int:
                raise AssertionError(f"remaining returned {n!r}")
            ev = _safe_ticks(b)
            lines.append(f"remaining {n} events={_ev_tok(ev)}")
            log.append(f"r,{now},{n}")
            if want_rows:
                rows.append(("r", now, 0, n, before, ev))
    r.events = ev
    return r


def spec_line(case, r: ImplRun) -> str:
    return f"spec {case['max']} {case['window']} | {';'.join(r.log) if r.log else '-'} | {_ev_tok(r.events)}"


class Shimmed:
    """Context manager: redress.budget.time -> Shim(monotonic=clock.read), restored on exit."""

    def __init__(self):
        self.clock = VClock()
        self._saved = None

    def __enter__(self):
        self._saved = _rb.time
        _rb.time = Shim(monotonic=self.clock.read)
        return self.clock

    def __exit__(self, *exc):
        _rb.time = self._saved
        return False


# --------------------------------------------------------------------------------------------
# comparison of a batch of cases
# --------------------------------------------------------------------------------------------

def first_diff(model_lines, impl_lines):
    for i, (m, p) in enumerate(zip(model_lines, impl_lines)):
        if m != p:
            mt, pt = m.split(" "), p.split(" ")
            if mt[0] != pt[0]:
                what = f"{mt[0]}-vs-{pt[0]}"
            elif len(mt) > 1 and len(pt) > 1 and mt[1] != pt[1]:
                what = mt[0]              # granted / remaining value differs
            else:
                what = "events"
            return i, what
    if len(model_lines) != len(impl_lines):
        return min(len(model_lines), len(impl_lines)), "line-count"
    return None


def judge(case, impl: ImplRun, model_lines, spec_reply):
    """-> None if clean, else a failure dict (unshrunk)."""
    diff = first_diff(model_lines, impl.lines)
    preds = []
    if spec_reply is not None and spec_reply != "spec-ok":
        if not spec_reply.startswith("spec-bad "):
            raise RuntimeError(f"driver spec line answered {spec_reply!r} for {case}")
        preds = [t.split("@")[0] for t in spec_reply.split()[1:]]
        if "monotone" in preds or "shape" in preds:
            raise RuntimeError(f"harness bug: spec line {spec_reply!r} for {case}")
    c10 = sorted(p for p in preds if p in C10_PREDS)
    if diff is None and not preds:
        return None
    if c10:
        kind, sig = "violation", "C10/" + "+".join(c10)
    elif diff is not None:
        kind, sig = "divergence", f"budget-ops/{diff[1]}"
    else:
        kind, sig = "divergence", "budget-ops/" + "+".join(sorted(preds))
    return {"kind": kind, "sig": sig, "diff": diff, "spec": spec_reply}


def _run_driver_retry(text):
    """run_driver, tolerating the executable being re-linked under us (it briefly disappears or is
    replaced while `lake build driver` runs): wait and retry a few times, then give up loudly."""
    last = None
    for _ in range(30):
        try:
            return run_driver("budget", text)
        except (RuntimeError, OSError) as e:
            if "driver not built" not in str(e) and not isinstance(e, OSError):
                raise
            last = e
            time.sleep(2.0)
    raise last


def _driver_lines(text):
    out = _run_driver_retry(text)
    return [ln for ln in out.split("\n") if ln and not ln.startswith("#")]


def check_batch(cases, clock, stats=None, spec_all=True):
    """Run all cases on both sides.  Returns (evaluations, spec lines, [(case, failure)]).
    The driver subprocess runs in a helper thread while this thread drives the implementation."""
    text = "\n".join("\n".join(case_lines(c)) for c in cases) + "\n"
    box = {}

    def work():
        try:
            box["model"] = _driver_lines(text)
        except BaseException as e:  # re-raised below
            box["err"] = e

    th = threading.Thread(target=work)
    th.start()
    try:
        impls = [run_impl(c, clock, want_rows=stats is not None) for c in cases]
    finally:
        th.join()
    if "err" in box:
        raise box["err"]
    model = box["model"]
    evaluations = sum(len(r.lines) for r in impls)
    if len(model) != evaluations:
        raise RuntimeError(f"driver answered {len(model)} lines for {evaluations} requests")
    # slice the model's replies per case
    per_case, k = [], 0
    for r in impls:
        n = len(r.lines)
        per_case.append(model[k:k + n])
        k += n
    if UNREADABLE[0]:
        # compare observable results only; hand the spec predicates the model's final deque
        for r, ml in zip(impls, per_case):
            if any("events=?" in ln for ln in r.lines):
                r.lines[:] = [_strip_events(ln) for ln in r.lines]
                last = next((m for m in reversed(ml) if " events=" in m), None)
                tok = last.split(" events=")[1] if last else "-"
                r.events = [] if tok == "-" else [int(x) for x in tok.split(",")]
                ml[:] = [_strip_events(m) for m in ml]
    # spec lines on the implementation's logs
    need = []
    for i, (c, r) in enumerate(zip(cases, impls)):
        if r.ctor_rejected:
            continue
        if (spec_all or per_case[i] != r.lines) and is_monotone(c):
            need.append(i)
    spec_replies = {}
    if need:
        slines = _driver_lines("\n".join(spec_line(cases[i], impls[i]) for i in need) + "\n")
        if len(slines) != len(need):
            raise RuntimeError("driver spec: line count mismatch")
        spec_replies = dict(zip(need, slines))
    failures = []
    for i, (c, r) in enumerate(zip(cases, impls)):
        if per_case[i] != r.lines or i in spec_replies:
            f = judge(c, r, per_case[i], spec_replies.get(i))
            if f is not None:
                failures.append((c, f))
        if stats is not None:
            stats.add(c, r)
    return evaluations, len(need), failures


def check_one(case, clock):
    _, _, fails = check_batch([case], clock, stats=None, spec_all=True)
    return fails[0][1] if fails else None


# --------------------------------------------------------------------------------------------
# statistics
# --------------------------------------------------------------------------------------------

class Stats:
    def __init__(self, keep_keys=True):
        self.d = Counter()
        self.max_deque = 0
        self.keep_keys = keep_keys      # False: cases are distinct by construction (enumeration)
        self.distinct = set()
        self.nontrivial = set()
        self.n_nontrivial = 0

    def add(self, case, r: ImplRun):
        d = self.d
        key = None
        if self.keep_keys:
            key = (case["max"], case["window"], tuple(tuple(o) for o in case["ops"]))
            self.distinct.add(key)
        d["cases"] += 1
        if r.ctor_rejected:
            d["ctor_rejected"] += 1
            return
        mono = is_monotone(case)
        d["cases_monotone" if mono else "cases_nonmonotone"] += 1
        if case["max"] == 0:
            d["cases_max_retries_0"] += 1
        w, mx = case["window"], case["max"]
        grants = refusals = aged = 0
        last_grant_t = None
        for kind, now, cost, res, before, after in r.stats_rows:
            d["ops_consume" if kind == "c" else "ops_remaining"] += 1
            if kind == "c" and res is None:
                d["consume_rejected_cost_lt_1"] += 1
                continue
            if before:
                if (now - w) in before:
                    d["boundary_age_eq_window"] += 1
                if (now - w + 1) in before:
                    d["boundary_age_eq_window_minus_1"] += 1
                if (now - w - 1) in before:
                    d["boundary_age_eq_window_plus_1"] += 1
            pruned_len = len(after) - (cost if (kind == "c" and res) else 0)
            popped = len(before) - pruned_len
            if popped > 0:
                d["ops_that_pruned"] += 1
                aged += popped
                if popped > 1:
                    d["ops_that_pruned_several"] += 1
            if kind == "c":
                if cost > 1:
                    d["consume_cost_gt_1"] += 1
                if res:
                    grants += 1
                    d["granted"] += 1
                    if pruned_len + cost == mx:
                        d["grant_exactly_fills"] += 1
                    if cost == mx:
                        d["grant_cost_eq_max"] += 1
                    if last_grant_t == now:
                        d["grant_same_instant_as_previous_grant"] += 1
                    last_grant_t = now
                else:
                    refusals += 1
                    d["refused"] += 1
                    if pruned_len + cost == mx + 1:
                        d["refusal_one_over"] += 1
                    if cost > 1 and pruned_len < mx:
                        d["refusal_partial_fit_all_or_nothing"] += 1
            else:
                if res == 0:
                    d["remaining_eq_0"] += 1
                if res == mx:
                    d["remaining_eq_max"] += 1
            if len(after) > self.max_deque:
                self.max_deque = len(after)
            if not mono and any(after[i] > after[i + 1] for i in range(len(after) - 1)):
                d["ops_with_unsorted_deque"] += 1
        if grants and (refusals or aged):
            if self.keep_keys:
                self.nontrivial.add(key)
                self.n_nontrivial = len(self.nontrivial)
            else:
                self.n_nontrivial += 1

    def as_dict(self):
        out = dict(sorted(self.d.items()))
        out["max_deque_length"] = self.max_deque
        return out


# --------------------------------------------------------------------------------------------
# generation
# --------------------------------------------------------------------------------------------

def corpus():
    C = []

    def add(name, mx, w, ops):
        C.append({"name": name, "max": mx, "window": w, "ops": ops})

    for w in (1, 2, 3, 64, 1000):
        add(f"age-eq-window/w{w}", 1, w, [["c", 5, 1], ["c", 5 + w, 1], ["r", 5 + w]])
        add(f"age-eq-window-minus-1/w{w}", 1, w, [["c", 5, 1], ["c", 5 + w - 1, 1], ["r", 5 + w - 1]])
        add(f"age-eq-window-plus-1/w{w}", 1, w, [["c", 5, 1], ["c", 5 + w + 1, 1], ["r", 5 + w + 1]])
        add(f"remaining-across-boundary/w{w}", 2, w,
            [["c", 0, 1], ["c", 1, 1], ["r", w - 1], ["r", w], ["r", w + 1], ["r", w + 2]])
    add("closed-interval-holds-max-plus-1", 1, 3, [["c", 0, 1], ["c", 3, 1]])
    add("cost-2-fits", 2, 4, [["c", 0, 2], ["r", 0], ["c", 0, 1]])
    add("cost-2-partial-fit-refused", 2, 4, [["c", 0, 1], ["c", 1, 2], ["r", 1], ["c", 1, 1], ["c", 1, 1]])
    add("cost-eq-max", 3, 4, [["c", 0, 3], ["c", 0, 1], ["r", 3], ["c", 4, 3]])
    add("cost-gt-max", 3, 4, [["c", 0, 4], ["r", 0], ["c", 0, 3]])
    add("max-retries-0", 0, 3, [["r", 0], ["c", 0, 1], ["c", 7, 1], ["c", 7, 2], ["r", 9]])
    add("many-grants-same-instant", 5, 3,
        [["c", 2, 1], ["c", 2, 1], ["c", 2, 1], ["c", 2, 1], ["c", 2, 1], ["c", 2, 1],
         ["r", 4], ["c", 5, 5], ["c", 5, 1]])
    add("grants-age-out-one-by-one", 3, 3,
        [["c", 0, 1], ["c", 1, 1], ["c", 2, 1], ["c", 2, 1], ["c", 3, 1], ["c", 3, 1],
         ["c", 4, 1], ["c", 5, 1], ["r", 5], ["r", 8]])
    add("batch-ages-out-at-once", 4, 5, [["c", 1, 4], ["r", 5], ["c", 5, 1], ["r", 6], ["c", 6, 4]])
    add("long-idle", 2, 3, [["c", 0, 2], ["c", 1000000, 2], ["r", 1000002], ["r", 1000003]])
    add("empty-history", 2, 3, [])
    add("only-remaining", 2, 3, [["r", 0], ["r", 100]])
    add("two-tests-of-the-suite", 1, 64, [["c", 0, 1], ["c", 0, 1]])
    # inputs the code rejects
    add("cost-0-rejected", 2, 3, [["c", 0, 0], ["r", 0], ["c", 0, 2]])
    add("cost-negative-rejected", 2, 3, [["c", 0, 1], ["c", 1, -1], ["c", 1, -5], ["r", 1]])
    add("ctor-max-negative", -1, 3, [["c", 0, 1]])
    add("ctor-window-zero", 2, 0, [["c", 0, 1], ["r", 1]])
    add("ctor-window-negative", 2, -4, [])
    # non-monotone clock: pop-left loop vs filter (model must follow the code)
    add("nonmonotone-hidden-expired", 2, 3, [["c", 5, 1], ["c", 1, 1], ["c", 5, 1], ["r", 8], ["r", 9]])
    add("nonmonotone-forgets-token", 1, 3, [["c", 10, 1], ["r", 13], ["c", 11, 1]])
    return C


def rand_case(rng: random.Random, idx: int, max_ops: int):
    mx = rng.choice((0, 1, 1, 2, 2, 3, 3, 4, 5, 8))
    w = rng.choice((1, 2, 3, 3, 4, 5, 8, 64, 100))
    nonmono = rng.random() < 0.06
    invalid = rng.random() < 0.05
    n = rng.randint(1, max_ops)
    now = rng.choice((0, 0, 1, 7, 1000))
    issued = []
    ops = []
    for _ in range(n):
        mode = rng.random()
        if issued and mode < 0.40:
            # land on / next to the instant some earlier consume ages out
            p = rng.choice(issued[-8:])
            target = p + w + rng.choice((-1, 0, 0, 1))
            if target >= now:
                now = target
            else:
                now += rng.choice((0, 1))
        elif mode < 0.85:
            now += rng.choice((0, 0, 1, 1, max(w - 1, 0), w, w + 1))
        else:
            now += rng.randint(0, 2 * w + 2)
        t = now
        if nonmono and rng.random() < 0.3:
            t = max(0, now - rng.randint(1, w + 2))
        if rng.random() < 0.72:
            c = rng.random()
            if c < 0.62:
                cost = 1
            elif c < 0.80:
                cost = 2
            elif c < 0.86:
                cost = 3
            elif c < 0.93:
                cost = max(mx, 1)
            else:
                cost = mx + 1
            if invalid and rng.random() < 0.15:
                cost = rng.choice((0, -1, -3))
            ops.append(["c", t, cost])
            issued.append(t)
        else:
            ops.append(["r", t])
    return {"name": f"rand-{idx}", "max": mx, "window": w, "ops": ops}


def exhaustive_cases(max_retries_list, windows, n_ops):
    """All histories of exactly n_ops ops (every shorter one is a prefix, and outputs are compared
    after every op): first op at tick 0, then clock steps in {0,1,w-1,w,w+1}; op kinds
    consume(1), consume(2), remaining()."""
    kinds = (("c", 1), ("c", 2), ("r", 0))
    for w in windows:
        steps = sorted({0, 1, w - 1, w, w + 1})
        first = [(0, k) for k in kinds]
        later = [(s, k) for s in steps for k in kinds]
        for mx in max_retries_list:
            for combo in itertools.product(first, *([later] * (n_ops - 1))):
                now = 0
                ops = []
                for s, (kind, cost) in combo:
                    now += s
                    ops.append(["c", now, cost] if kind == "c" else ["r", now])
                yield {"name": "exh", "max": mx, "window": w, "ops": ops}


def exhaustive_size(max_retries_list, windows, n_ops):
    tot = 0
    for w in windows:
        s = len({0, 1, w - 1, w, w + 1})
        tot += len(max_retries_list) * 3 * (3 * s) ** (n_ops - 1)
    return tot


# --------------------------------------------------------------------------------------------
# shrinking
# --------------------------------------------------------------------------------------------

def shrink(case, clock, budget=250):
    """Greedy: drop ops, then lower numbers, while the case still fails (any failure kind that
    keeps the same `kind`)."""
    f0 = check_one(case, clock)
    if f0 is None:
        return case, None
    best, bestf = case, f0
    tries = [0]

    def attempt(cand):
        if tries[0] >= budget:
            return False
        tries[0] += 1
        try:
            f = check_one(cand, clock)
        except Exception:
            return False
        nonlocal best, bestf
        if f is not None and f["kind"] == bestf["kind"]:
            best, bestf = cand, f
            return True
        return False

    def with_ops(ops, **kw):
        c = {"name": best["name"] + "/shrunk" if not best["name"].endswith("/shrunk") else best["name"],
             "max": best["max"], "window": best["window"], "ops": ops}
        c.update(kw)
        return c

    changed = True
    while changed and tries[0] < budget:
        changed = False
        # drop the tail after the first diverging op, then single ops
        i = len(best["ops"]) - 1
        while i >= 0:
            ops = best["ops"][:i] + best["ops"][i + 1:]
            if attempt(with_ops(ops)):
                changed = True
            i -= 1
        # cost -> 1
        for i, op in enumerate(best["ops"]):
            if op[0] == "c" and op[2] > 1:
                ops = [list(o) for o in best["ops"]]
                ops[i][2] = 1
                if attempt(with_ops(ops)):
                    changed = True
        # shift times down: shrink the gap before op i (all later ops move with it)
        for i in range(len(best["ops"])):
            prev = best["ops"][i - 1][1] if i > 0 else 0
            gap = best["ops"][i][1] - prev
            for newgap in (0, gap // 2, gap - 1):
                if 0 <= newgap < gap:
                    delta = gap - newgap
                    ops = [list(o) for o in best["ops"]]
                    for j in range(i, len(ops)):
                        ops[j][1] -= delta
                    if min(o[1] for o in ops) >= 0 and attempt(with_ops(ops)):
                        changed = True
                        break
        # smaller configuration
        if best["max"] > 0 and attempt(with_ops(best["ops"], max=best["max"] - 1)):
            changed = True
        if best["window"] > 1 and attempt(with_ops(best["ops"], window=best["window"] - 1)):
            changed = True
    return best, bestf


def make_failure(case, f, clock):
    impl = run_impl(case, clock)
    text = "\n".join(case_lines(case)) + "\n"
    model = [ln for ln in run_driver("budget", text).split("\n") if ln and not ln.startswith("#")]
    rows = []
    for i, (req, m, p) in enumerate(zip(case_lines(case), model, impl.lines)):
        mark = "   <-- differs" if m != p else ""
        rows.append(f"  [{i}] {req:<22} model: {m:<34} python: {p}{mark}")
    sl = spec_line(case, impl) if (not impl.ctor_rejected and is_monotone(case)) else None
    detail = (f"Budget(max_retries={case['max']}, window_s={case['window']}*TICK) "
              f"ops={json.dumps(case['ops'])}; ")
    if f["diff"] is not None:
        i = f["diff"][0]
        detail += (f"first difference at line {i} ({case_lines(case)[i] if i < len(case_lines(case)) else '?'}): "
                   f"expected (model) {model[i] if i < len(model) else '<none>'!r}, "
                   f"got (python) {impl.lines[i] if i < len(impl.lines) else '<none>'!r}; ")
    else:
        detail += "model and python agree line by line; "
    detail += f"Lean spec on python's log: {f['spec']}"
    replay = ("# driver budget  (TICK = 1/64 s; python clock = redress.budget.time.monotonic shim)\n"
              + text
              + (sl + "\n" if sl else "")
              + "# line-by-line:\n" + "\n".join(rows) + "\n"
              + (f"# spec reply: {f['spec']}\n" if sl else "# (non-monotone clock or rejected ctor: no spec line)\n"))
    return {"property": "C10", "kind": f["kind"], "sig": f["sig"], "detail": detail, "replay": replay,
            "case": case}


# --------------------------------------------------------------------------------------------
# entry point
# --------------------------------------------------------------------------------------------

RULE = ("case = one Budget(max_retries, window) + a history of consume(cost)/remaining() with the clock "
        "value each op reads; corpus of named boundary cases, then seeded random histories (steps biased "
        "to 0, 1, window-1, window, window+1 and to the exact ageing-out instant of earlier consumes ±1; "
        "6% with a non-monotone clock, 5% with invalid costs), then (thorough) exhaustive small scope. "
        "distinct = distinct (max, window, ops) tuples; non-trivial = at least one grant AND at least one "
        "refusal or one token aged out of the deque (measured on the implementation). "
        "evaluations = request lines (new/consume/remaining) executed on both sides and compared.")


def run(tier: str, seed: int) -> dict:
    t0 = wall()
    rng = random.Random(seed)
    stats = Stats()
    failures_raw = []
    evaluations = 0
    spec_lines = 0
    samples = []
    dist_extra = {}

    with Shimmed() as clock:
        # 1. corpus
        cs = corpus()
        ev, ns, fl = check_batch(cs, clock, stats)
        evaluations += ev
        spec_lines += ns
        failures_raw += fl
        dist_extra["corpus_cases"] = len(cs)
        samples.append(cs[0])
        samples.append(next(c for c in cs if c["name"] == "cost-2-partial-fit-refused"))

        # 2. seeded random histories
        n_rand, max_ops = (1500, 60) if tier == "quick" else (20000, 80)
        done = 0
        while done < n_rand:
            k = min(2000, n_rand - done)
            batch = [rand_case(rng, done + i, max_ops) for i in range(k)]
            if done == 0:
                samples.append({**batch[0], "ops": batch[0]["ops"][:12], "note": "first 12 ops"})
            ev, ns, fl = check_batch(batch, clock, stats)
            evaluations += ev
            spec_lines += ns
            failures_raw += fl
            done += k
        dist_extra["random_cases"] = n_rand

        # 3. small-scope exhaustive (thorough only)
        exhaustive = False
        if tier != "quick":
            scope = [  # (max_retries list, windows, n_ops)
                ([0, 1, 2, 3], [1, 2], 6),
                ([0, 1, 2, 3], [3], 5),
            ]
            ex_stats = Stats(keep_keys=False)
            ex_total = 0
            ex_eval = 0
            ex_fail = 0
            for mxs, ws, n in scope:
                gen = exhaustive_cases(mxs, ws, n)
                while True:
                    batch = list(itertools.islice(gen, 20000))
                    if not batch:
                        break
                    ev, ns, fl = check_batch(batch, clock, ex_stats, spec_all=False)
                    ex_total += len(batch)
                    ex_eval += ev
                    spec_lines += ns
                    ex_fail += len(fl)
                    if len(failures_raw) < 50:
                        failures_raw += fl
            expected = sum(exhaustive_size(m, w, n) for m, w, n in scope)
            assert ex_total == expected, (ex_total, expected)
            evaluations += ex_eval
            exhaustive = True
            dist_extra["exhaustive"] = {
                "scope": "first op at tick 0; clock steps in {0,1,w-1,w,w+1}; ops consume(1)/consume(2)/remaining(); "
                         "compared after every op so every shorter history is covered as a prefix; "
                         "max_retries in 0..3: window in {1,2} all histories of <= 6 ops, window = 3 all histories of <= 5 ops",
                "histories": ex_total,
                "request_lines": ex_eval,
                "failing_histories": ex_fail,
                "distinct_nontrivial": ex_stats.n_nontrivial,
                "distribution": ex_stats.as_dict(),
            }

        # shrink + report (one failure per signature, at most 5)
        failures = []
        seen = set()
        for case, f in failures_raw:
            if f["sig"] in seen or len(failures) >= 5:
                continue
            seen.add(f["sig"])
            small, sf = shrink(case, clock)
            if sf is None:      # flaky?  report unshrunk
                small, sf = case, f
            if sf["sig"] != f["sig"] and sf["sig"] in seen:
                continue        # shrank into a failure already reported
            seen.add(sf["sig"])
            failures.append(make_failure(small, sf, clock))

    if UNREADABLE[0]:
        failures.append({"property": "C10", "kind": "divergence",
                         "sig": "budget-ops/private-state-unreadable",
                         "detail": "Budget._events is no longer a sequence of grant times: the deque comparison was dropped, "
                                   "only consume()/remaining() results were compared with the model",
                         "replay": "# Budget._events could not be read as a sequence of numbers\n"})
    dist = stats.as_dict()
    dist.update(dist_extra)
    dist["spec_lines_evaluated_on_impl_logs"] = spec_lines
    dist["failing_cases_before_dedup"] = len(failures_raw)
    dist["seconds"] = round(wall() - t0, 2)
    return {
        "family": FAMILY,
        "evaluations": evaluations,
        "distinct_nontrivial": stats.n_nontrivial,
        "rule": RULE,
        "samples": samples[:4],
        "distribution": dist,
        # True only for the enumerated small scope (thorough tier); corpus and random parts are samples.
        "exhaustive": exhaustive,
        "failures": failures,
    }


if __name__ == "__main__":
    tier = sys.argv[1] if len(sys.argv) > 1 else "quick"
    seed = int(sys.argv[2]) if len(sys.argv) > 2 else 0
    print(json.dumps(run(tier, seed), indent=1))
