"""Family threads (property C17): Budget and CircuitBreaker are atomic under concurrent threads.

`run(tier, seed)` does, in this order,

A. **the structural obligation**: runs the translator `harness/extract_locks.py` on the working tree
   (`REDRESS_REPO`, default /repo), rewrites `lean/Redress/Generated/LockShape.lean` (+ its audit file)
   and builds it (`lake build Redress.Generated.LockShape`).  A refused construct or a failed `decide`
   is reported as a failure of kind `divergence`, sig `lockshape-obligation-broken:<Class>.<method>`
   (resp. `lockshape-extractor-refused`); the programs that use the affected methods are then explored
   FIRST and with the whole budget, so that the concrete bad interleaving is found if there is one.

B. **the dynamic explorer** (`harness/sched.py`): for every small concurrent program
   (component, configuration, initial state, one op list per thread, the clock value each op reads)
   ALL line-level interleavings of the real code are run (plain DFS; pre-emption before every source
   line of circuit.py / budget.py; the object's `_lock` replaced, on that object only, by a
   cooperative lock) and every complete interleaving is checked for

   * **linearizability**: (per-thread results, final component state) must be one of the outcomes of
     the sequential orderings of the same operations, computed by the LEAN component models through
     `driver breaker` / `driver budget` (see `sequential_outcomes`; falls back to running the real
     object single-threaded if the driver lacks the subcommand) — otherwise a C17 `violation`;
   * **deadlock** (unfinished threads, none schedulable) — a C17 `violation`;
   * the **named predicates** of the property on the named unit cases that run first
     (two racing probes: exactly one admitted; racing failures: `circuit_opened` exactly once; racing
     `consume(1)` with one slot left: exactly one granted, deque never above `max_retries`);
   * **lockset / extraction validation**: the component's class is replaced *on that object* by an
     instrumented subclass that reports every read/write of an instance attribute with "does the
     current logical thread hold the lock?" and the source statement of the public method being
     executed.  An access to an attribute the extractor classified shared from a statement it
     classified `loc`, an access without the lock, a write to an attribute classified immutable, a
     statement whose held/not-held status differs from the extracted one, a line the extractor does
     not know, or an executed line sequence that is none of the extracted paths, is a `divergence`
     ("extractor classification disagrees with observed access").

A case (JSON, also the replay format; `python -m harness.families.threads replay <file>`):

    {"component": "breaker", "cfg": {"ft": 2, "window": 8, "recovery": 4, "trip": "none", "class": "-"},
     "init": [["failure", "TRANSIENT", 16], ...],        # run single-threaded first
     "threads": [[["allow", 20]], [["allow", 20]]],      # one op list per thread
     "schedule": [0, 1, 1, ...]}                         # optional: thread id per step

ops: breaker `["allow", now] ["success"] ["failure", K, now] ["cancel"] ["state"]`,
budget `["consume", now, cost] ["remaining", now]`; times in ticks (1 tick = 1/64 s).
"""
from __future__ import annotations

import itertools
import json
import os
import random
import re
import subprocess
import sys
import time
from collections import Counter
from pathlib import Path

from harness import extract_locks, sched
from harness.common import DRIVER, LEAN_DIR, REPO, TICK, Shim, ensure_repo_on_path, run_driver, to_ticks, wall

ensure_repo_on_path()

import redress.budget as _rb  # noqa: E402
import redress.circuit as _rc  # noqa: E402
from redress.errors import ErrorClass  # noqa: E402

FAMILY = "threads"
PROP = "C17"
GENERATED = LEAN_DIR / "Redress" / "Generated" / "LockShape.lean"
ECLASS_ORDER = ["AUTH", "PERMISSION", "PERMANENT", "CONCURRENCY", "RATE_LIMIT", "SERVER_ERROR", "TRANSIENT", "UNKNOWN"]
CLASS_OF = {"breaker": "CircuitBreaker", "budget": "Budget"}
METHOD_OF = {"allow": "allow", "success": "record_success", "failure": "record_failure",
             "cancel": "record_cancel", "state": "state", "consume": "consume", "remaining": "remaining"}


# ------------------------------------------------------------------------------------------------
# A. structural obligation
# ------------------------------------------------------------------------------------------------

def structural_obligation() -> tuple[dict | None, list[dict], set[str]]:
    """returns (extraction info or None, failures, affected 'Class.method' names)"""
    failures: list[dict] = []
    affected: set[str] = set()
    try:
        info = extract_locks.write_generated(REPO, GENERATED)
    except (extract_locks.ExtractError, SyntaxError) as e:
        failures.append({
            "property": PROP, "kind": "divergence", "sig": "lockshape-extractor-refused",
            "detail": f"extract_locks cannot translate the working tree, so the lock-shape obligation is not "
                      f"established: {e}",
            "replay": f"/venv/bin/python /verif/harness/extract_locks.py --repo {REPO}"})
        m = re.search(r"(\w+) \(line \d+\).* in `(\w+)`", str(e))
        if m:                                # explore the programs that use the refused method first
            affected.add(f"{m.group(1)}.{m.group(2)}")
        return None, failures, affected
    p = subprocess.run(["lake", "build", "Redress.Generated.LockShape"], cwd=str(LEAN_DIR),
                       capture_output=True, text=True, timeout=900)
    out = p.stdout + p.stderr
    if p.returncode != 0:
        bad_lines = {int(m.group(1)) for m in re.finditer(r"LockShape\.lean:(\d+):\d+:? ?error|error: [^\n]*LockShape\.lean:(\d+)", out)
                     if m.group(1)}
        bad_lines |= {int(m.group(2)) for m in re.finditer(r"LockShape\.lean:(\d+):\d+:? ?error|error: [^\n]*LockShape\.lean:(\d+)", out)
                      if m.group(2)}
        if "LockShape.lean" not in out:
            raise RuntimeError(f"lake build Redress.Generated.LockShape failed for an unrelated reason:\n{out[-3000:]}")
        text = GENERATED.read_text().splitlines()
        lean_bad = set()
        for ln in bad_lines:
            if 1 <= ln <= len(text):
                m = re.match(r"theorem (\w+)_wl\b", text[ln - 1])
                if m:
                    lean_bad.add(m.group(1))
        by_method: dict[str, list[dict]] = {}
        for cname, ci in info["classes"].items():
            for m, mi in ci["methods"].items():
                for path in mi["paths"]:
                    if path["name"] in lean_bad or not path["wl"]:
                        by_method.setdefault(f"{cname}.{m}", []).append(path)
        if not by_method:
            raise RuntimeError(f"LockShape.lean failed to build but no shape theorem is implicated:\n{out[-3000:]}")
        for meth, paths in sorted(by_method.items()):
            affected.add(meth)
            cname = meth.split(".")[0]
            failures.append({
                "property": PROP, "kind": "divergence", "sig": f"lockshape-obligation-broken:{meth}",
                "detail": f"`decide` no longer proves the lock discipline of {meth}: "
                          + "; ".join(f"{q['label']} = [{' '.join(q['shape'])}] (source lines {q['lines']})" for q in paths)
                          + f" — a shared access or release outside `with self.{info['classes'][cname]['lock']}`, "
                            f"a nested acquire, or the lock left held.  The hypothesis `WL` of "
                            f"Redress.C17.serializable_extracted is no longer established for programs that call {meth}.",
                "replay": f"/venv/bin/python /verif/harness/extract_locks.py --repo {REPO} --out {GENERATED} && "
                          f"cd {LEAN_DIR} && lake build Redress.Generated.LockShape   # theorems "
                          + ", ".join(q["name"] + "_wl" for q in paths)})
    return info, failures, affected


# ------------------------------------------------------------------------------------------------
# canonical results
# ------------------------------------------------------------------------------------------------

def _t(x):
    return None if x is None else to_ticks(x)


def breaker_state(b) -> list:
    g = object.__getattribute__
    cf = g(b, "_class_failures")
    by = {getattr(k, "name", str(k)): [to_ticks(x) for x in v] for k, v in cf.items()}
    return [g(b, "_state").value, _t(g(b, "_opened_at")), bool(g(b, "_probe_in_flight")),
            [to_ticks(x) for x in g(b, "_failures")],
            [[k, by[k]] for k in ECLASS_ORDER if by.get(k)]]


def budget_state(b) -> list:
    return [to_ticks(x) for x in object.__getattribute__(b, "_events")]


def freeze(x):
    if isinstance(x, (list, tuple)):
        return tuple(freeze(y) for y in x)
    return x


class Clock:
    """the clock value the current logical thread's current operation reads"""

    def __init__(self, s: sched.Scheduler | None, n: int) -> None:
        self.sched = s
        self.main_now = 0
        self.now = [0] * n

    def read(self) -> float:
        t = self.sched.tid() if self.sched is not None else None
        return (self.main_now if t is None else self.now[t]) * TICK


_CLOCK: list[Clock | None] = [None]


def _budget_monotonic() -> float:
    c = _CLOCK[0]
    if c is None:
        raise RuntimeError("threads family: budget clock read outside a run")
    return c.read()


def make_component(case: dict, clock: Clock):
    cfg = case["cfg"]
    if case["component"] == "breaker":
        trip = None if cfg["trip"] == "none" else ({ErrorClass[k] for k in cfg["trip"].split("+")} if cfg["trip"] != "-" else set())
        cls = {} if cfg["class"] == "-" else {ErrorClass[kv.split(":")[0]]: int(kv.split(":")[1]) for kv in cfg["class"].split(",")}
        return _rc.CircuitBreaker(failure_threshold=cfg["ft"], window_s=cfg["window"] * TICK,
                                  recovery_timeout_s=cfg["recovery"] * TICK, trip_on=trip,
                                  class_thresholds=cls or None, clock=clock.read)
    return _rb.Budget(max_retries=cfg["max"], window_s=cfg["window"] * TICK)


def apply_op(obj, op: list, set_now) -> list:
    """run one op on the real object; canonical result"""
    try:
        k = op[0]
        if k == "allow":
            set_now(op[1])
            d = obj.allow()
            return ["allow", bool(d.allowed), d.state.value, d.event]
        if k == "success":
            return ["event", obj.record_success()]
        if k == "failure":
            set_now(op[2])
            return ["event", obj.record_failure(ErrorClass[op[1]])]
        if k == "cancel":
            r = obj.record_cancel()
            return ["event", r]
        if k == "state":
            return ["state", obj.state.value]
        if k == "consume":
            set_now(op[1])
            return ["granted", bool(obj.consume(op[2]))]
        if k == "remaining":
            set_now(op[1])
            return ["remaining", int(obj.remaining())]
    except Exception as e:  # noqa: BLE001 — an op that raises is an observable result
        return ["raise", type(e).__name__]
    raise ValueError(f"unknown op {op!r}")


def final_state(case: dict, obj) -> list:
    return breaker_state(obj) if case["component"] == "breaker" else budget_state(obj)


# ------------------------------------------------------------------------------------------------
# sequential oracle
# ------------------------------------------------------------------------------------------------

def orders_of(threads: list[list]) -> list[tuple[int, ...]]:
    """all interleavings of whole operations that respect each thread's program order"""
    counts = [len(t) for t in threads]
    out: list[tuple[int, ...]] = []

    def rec(done: list[int], acc: list[int]) -> None:
        if all(done[i] == counts[i] for i in range(len(counts))):
            out.append(tuple(acc))
            return
        for i in range(len(counts)):
            if done[i] < counts[i]:
                done[i] += 1
                acc.append(i)
                rec(done, acc)
                acc.pop()
                done[i] -= 1
    rec([0] * len(counts), [])
    return out


def _driver_lines(case: dict, seq: list[list]) -> list[str]:
    cfg = case["cfg"]
    if case["component"] == "breaker":
        out = [f"new {cfg['ft']} {cfg['window']} {cfg['recovery']} {cfg['trip']} {cfg['class']}"]
        for op in seq:
            if op[0] == "allow":
                out.append(f"allow {op[1]}")
            elif op[0] == "success":
                out.append("success")
            elif op[0] == "failure":
                out.append(f"failure {op[1]} {op[2]}")
            elif op[0] == "cancel":
                out.append("cancel")
            elif op[0] == "state":
                pass                      # pure read of the state: answered from the last `st=`
            else:
                raise ValueError(op)
        return out
    out = [f"new {cfg['max']} {cfg['window']}"]
    for op in seq:
        out.append(f"consume {op[1]} {op[2]}" if op[0] == "consume" else f"remaining {op[1]}")
    return out


def _parse_nats(tok: str) -> list[int]:
    return [] if tok == "-" else [int(x) for x in tok.split(",")]


def _parse_breaker_st(st: str) -> list:
    state, opened, probe, fails, cls = st.split(";")
    cl = []
    if cls != "-":
        for part in cls.split("/"):
            k, v = part.split(":")
            cl.append([k, _parse_nats(v)])
    return [state, None if opened == "-" else int(opened), probe == "1", _parse_nats(fails), cl]


def _driver_decode(case: dict, seq: list[list], replies: list[str]) -> tuple[list, list]:
    """(results per op of seq, final state) from the driver's reply lines (first reply answers `new`)"""
    if case["component"] == "breaker":
        if replies[0] != "ok":
            raise RuntimeError(f"driver breaker rejected the configuration: {replies[0]}")
        cur = ["closed", None, False, [], []]
        res = []
        it = iter(replies[1:])
        for op in seq:
            if op[0] == "state":
                res.append(["state", cur[0]])
                continue
            line = next(it)
            head, st = line.split(" | st=")
            cur = _parse_breaker_st(st)
            w = head.split()
            if w[0] == "allowed":
                res.append(["allow", w[1] == "1", w[2], None if w[3] == "-" else w[3]])
            elif w[0] == "event":
                res.append(["event", None if w[1] == "-" else w[1]])
            else:
                raise RuntimeError(f"driver breaker: unexpected reply {line!r}")
        return res, cur
    if replies[0] != "ok":
        raise RuntimeError(f"driver budget rejected the configuration: {replies[0]}")
    cur: list = []
    res = []
    for op, line in zip(seq, replies[1:]):
        if line == "reject":
            res.append(["raise", "ValueError"])
            continue
        w = line.split()
        ev = w[2].split("=", 1)[1]
        cur = _parse_nats(ev)
        if w[0] == "granted":
            res.append(["granted", w[1] == "1"])
        elif w[0] == "remaining":
            res.append(["remaining", int(w[1])])
        else:
            raise RuntimeError(f"driver budget: unexpected reply {line!r}")
    return res, cur


def _python_sequential(case: dict, seq: list[list]) -> tuple[list, list]:
    clock = Clock(None, 0)
    _CLOCK[0] = clock
    obj = make_component(case, clock)

    def set_now(v: int) -> None:
        clock.main_now = v
    res = [apply_op(obj, op, set_now) for op in seq]
    return res, final_state(case, obj)


_DRIVER_OK: dict[str, bool] = {}


def driver_available(component: str) -> bool:
    if os.environ.get("C17_ORACLE") == "python":
        return False
    if component not in _DRIVER_OK:
        ok = False
        try:
            if True:                      # run_driver waits for the binary while a concurrent build re-links it
                if component == "breaker":
                    out = run_driver("breaker", "new 2 8 4 none -\nallow 0\n").split("\n")
                    ok = out[0] == "ok" and out[1].startswith("allowed 1 closed - | st=closed;")
                else:
                    out = run_driver("budget", "new 2 8\nconsume 0 1\n").split("\n")
                    ok = out[0] == "ok" and out[1].startswith("granted 1 events=0")
        except Exception:  # noqa: BLE001
            ok = False
        _DRIVER_OK[component] = ok
    return _DRIVER_OK[component]


def sequential_outcomes(component: str, init: list[list], ops: list[list[list]], order: tuple[int, ...],
                        cfg: dict | None = None, backend: str | None = None) -> tuple:
    """Outcome of running `init` and then the operations of `ops` (one list per thread) one at a time
    in `order` (a sequence of thread indices): (per-thread results, final component state).
    backend 'driver' = the LEAN model (`driver breaker` / `driver budget`); 'python' = the real object
    run single-threaded.  The ONE place that decides: `_oracle_backend`."""
    case = {"component": component, "cfg": cfg, "init": init, "threads": ops}
    return _seq_batch(case, [order], backend or _oracle_backend(component))[0]


def _oracle_backend(component: str) -> str:
    return "driver" if driver_available(component) else "python"      # <- the one-line switch


def _flatten(case: dict, order: tuple[int, ...]) -> tuple[list[list], list[int]]:
    pos = [0] * len(case["threads"])
    seq = list(case["init"])
    owner = [-1] * len(seq)
    for t in order:
        seq.append(case["threads"][t][pos[t]])
        owner.append(t)
        pos[t] += 1
    return seq, owner


def _seq_batch(case: dict, orders: list[tuple[int, ...]], backend: str) -> list[tuple]:
    flat = [_flatten(case, o) for o in orders]
    decoded = []
    if backend == "driver":
        lines: list[str] = []
        spans = []
        for seq, _ in flat:
            ls = _driver_lines(case, seq)
            spans.append((len(lines), len(ls)))
            lines.extend(ls)
        replies = [l for l in run_driver(CLASS_TO_SUBCMD[case["component"]], "\n".join(lines) + "\n").split("\n")
                   if l and not l.startswith("#")]
        if len(replies) != len(lines):
            raise RuntimeError(f"driver {case['component']}: {len(lines)} requests, {len(replies)} replies")
        for (seq, _), (a, n) in zip(flat, spans):
            decoded.append(_driver_decode(case, seq, replies[a:a + n]))
    else:
        for seq, _ in flat:
            decoded.append(_python_sequential(case, seq))
    out = []
    for (seq, owner), (res, fin) in zip(flat, decoded):
        per = [[] for _ in case["threads"]]
        for o, r in zip(owner, res):
            if o >= 0:
                per[o].append(r)
        out.append(freeze((per, fin)))
    return out


CLASS_TO_SUBCMD = {"breaker": "breaker", "budget": "budget"}


# ------------------------------------------------------------------------------------------------
# instrumentation (lockset + extraction validation)
# ------------------------------------------------------------------------------------------------

_INSTR_CACHE: dict[type, type] = {}


def instrument(obj, hook) -> None:
    """swap obj's class for a subclass reporting every instance-attribute read / write to `hook`"""
    base = type(obj)
    sub = _INSTR_CACHE.get(base)
    if sub is None:
        def __getattribute__(self, name):
            h = object.__getattribute__(self, "__dict__").get("_c17_hook")
            if h is not None and name != "__dict__" and name in object.__getattribute__(self, "__dict__"):
                v = base.__getattribute__(self, name)
                h(name, "r", v)
                return v
            return base.__getattribute__(self, name)

        def __setattr__(self, name, value):
            h = object.__getattribute__(self, "__dict__").get("_c17_hook")
            if h is not None:
                h(name, "w", value)
            base.__setattr__(self, name, value)

        def __delattr__(self, name):
            h = object.__getattribute__(self, "__dict__").get("_c17_hook")
            if h is not None:
                h(name, "w", None)
            base.__delattr__(self, name)
        sub = type(base.__name__ + "_C17Instrumented", (base,),
                   {"__getattribute__": __getattribute__, "__setattr__": __setattr__, "__delattr__": __delattr__})
        _INSTR_CACHE[base] = sub
    object.__getattribute__(obj, "__dict__")["_c17_hook"] = hook
    obj.__class__ = sub


class Validator:
    """collects disagreements between the extractor's classification and what is observed"""

    def __init__(self, info: dict | None) -> None:
        self.info = info
        self.problems: dict[str, dict] = {}       # sig -> failure record (first / best)
        self.accesses = Counter()
        self.lines_checked = 0
        self.paths_seen = Counter()

    def note(self, sig: str, detail: str, case: dict, trace: list[int]) -> None:
        if sig not in self.problems:
            c = dict(case)
            c["schedule"] = list(trace)
            self.problems[sig] = {"property": PROP, "kind": "divergence", "sig": sig,
                                  "detail": "extractor classification disagrees with observed access: " + detail,
                                  "replay": json.dumps(c)}


def _reduce_repeats(seq: list[int]) -> list[int]:
    """collapse immediately repeated blocks (loop iterations): A B A B A -> A B A"""
    changed = True
    while changed:
        changed = False
        n = len(seq)
        for size in range(1, n // 2 + 1):
            for i in range(0, n - 2 * size + 1):
                if seq[i:i + size] == seq[i + size:i + 2 * size]:
                    seq = seq[:i + size] + seq[i + 2 * size:]
                    changed = True
                    break
            if changed:
                break
    return seq


# ------------------------------------------------------------------------------------------------
# one program: explore all interleavings
# ------------------------------------------------------------------------------------------------

def op_names(case: dict) -> str:
    return "|".join("+".join(METHOD_OF[o[0]] for o in t) for t in case["threads"])


def case_methods(case: dict) -> set[str]:
    c = CLASS_OF[case["component"]]
    return {f"{c}.{METHOD_OF[o[0]]}" for t in case["threads"] for o in t}


class Explorer:
    def __init__(self, info: dict | None, stats: Counter) -> None:
        self.info = info
        self.stats = stats
        self.validator = Validator(info)
        self.violations: dict[str, dict] = {}
        self.files = {_rc.__file__, _rb.__file__}
        self.oracle_cache: dict[str, set] = {}
        self.backend_used = Counter()
        self.schedules = 0
        self.pruned = 0
        self.written_attrs: set[str] = set()      # attributes some worker wrote (in any run so far)
        self.const_reads: set[str] = set()        # attributes whose reads were treated as silent

    # -- allowed outcomes ------------------------------------------------------------------------
    def allowed(self, case: dict) -> set:
        key = json.dumps([case["component"], case["cfg"], case["init"], case["threads"]])
        if key not in self.oracle_cache:
            orders = orders_of(case["threads"])
            backend = _oracle_backend(case["component"])
            self.backend_used[backend] += 1
            outs = _seq_batch(case, orders, backend)
            if backend == "driver":
                # free cross-check: the real object run single-threaded must agree with the model
                py = _seq_batch(case, orders, "python")
                for o, a, b in zip(orders, outs, py):
                    if a != b:
                        sig = f"sequential-model-vs-impl:{case['component']}:{op_names(case)}"
                        if sig not in self.validator.problems:
                            self.validator.problems[sig] = {
                                "property": PROP, "kind": "divergence", "sig": sig,
                                "detail": f"single-threaded run of the real object disagrees with the Lean model for order {list(o)}: "
                                          f"model {a!r}, implementation {b!r} (a sequential divergence: see C06/C07/C10)",
                                "replay": json.dumps({**case, "order": list(o)})}
            self.oracle_cache[key] = set(outs)
        return self.oracle_cache[key]

    # -- one run -----------------------------------------------------------------------------------
    def _setup(self, case: dict, reduce: bool = False):
        def setup(s: sched.Scheduler):
            n = len(case["threads"])
            clock = Clock(s, n)
            _CLOCK[0] = clock
            obj = make_component(case, clock)

            def set_main(v: int) -> None:
                clock.main_now = v
            for op in case["init"]:
                apply_op(obj, op, set_main)
            cname = CLASS_OF[case["component"]]
            lock_attr = self.info["classes"][cname]["lock"] if self.info else "_lock"
            lock = sched.CoopLock(s)
            object.__setattr__(obj, lock_attr, lock)
            s.locks.append(lock)
            accesses: list[tuple] = []

            def hook(name: str, kind: str, value) -> None:
                t = s.tid()
                if t is None or name == lock_attr or name == "_c17_hook":
                    return
                # silent (see sched.py) only if: a read, of an attribute no worker has ever written, whose
                # value is an immutable scalar or a callable (clock); anything else is visible to others
                if kind == "w":
                    self.written_attrs.add(name)
                    s.touch()
                elif name in self.written_attrs or not (
                        value is None or isinstance(value, (int, float, str, bool)) or callable(value)):
                    s.touch()
                else:
                    self.const_reads.add(name)
                accesses.append((t, name, kind, lock.owner == t, s.top_func[t], s.top_line[t]))
            instrument(obj, hook)
            if reduce:
                s.snapshot = lambda: freeze(final_state(case, obj))
            return {"obj": obj, "clock": clock, "lock": lock, "accesses": accesses, "events": s.events}
        return setup

    def _bodies(self, case: dict):
        def make(ctx):
            def body_for(t: int):
                def body(_t: int):
                    out = []
                    for k, op in enumerate(case["threads"][t]):
                        def set_now(v: int, t=t) -> None:
                            ctx["clock"].now[t] = v
                        ctx["events"][t].append(("opstart", k))
                        out.append(apply_op(ctx["obj"], op, set_now))
                    return out
                return body
            return [body_for(t) for t in range(len(case["threads"]))]
        return make

    def explore_case(self, case: dict, named=None, max_schedules: int = 20000, deadline: float | None = None,
                     reduce: bool = False, bound: int | None = None) -> dict:
        """explore all interleavings of one program; returns per-case summary"""
        allowed = self.allowed(case)
        n = len(case["threads"])
        summary = {"schedules": 0, "outcomes": set(), "blocked": 0, "maxlen": 0, "exhaustive": False,
                   "sequential_outcomes": len(allowed)}
        setup2 = self._setup(case, reduce)

        def on_run(r: sched.RunResult):
            summary["schedules"] += 1
            self.schedules += 1
            summary["maxlen"] = max(summary["maxlen"], len(r.trace))
            internal = [e for e in r.errors]
            if internal:
                raise RuntimeError(f"thread explorer internal error on {json.dumps(case)} schedule {r.trace}: {internal}")
            obj = r.ctx["obj"]
            summary["blocked"] += sum(1 for t in range(n) for e in r.events[t] if e[0] == "blocked")
            if r.deadlock or r.overrun:
                what = "deadlock" if r.deadlock else "nontermination"
                self._violation(f"{what}:{case['component']}:{op_names(case)}", case, r.trace,
                                f"{what}: threads {r.stuck} unfinished and none schedulable "
                                f"(lock holder: {r.ctx['lock'].owner!r}"
                                + ("; a thread is blocked on a lock that is not the object's original one" if r.hung else "")
                                + f") after schedule {r.trace}"
                                if r.deadlock else f"step bound exceeded after {len(r.trace)} steps")
                if r.hung:
                    self.hangs = getattr(self, "hangs", 0) + 1
                    return True if self.hangs >= 2 else None     # each hang costs sched.HANG_S seconds: stop this program
                self._validate(case, r)
                return None
            outcome = freeze((r.results, final_state(case, obj)))
            summary["outcomes"].add(outcome)
            if outcome not in allowed:
                self._violation(
                    f"non-linearizable:{case['component']}:{op_names(case)}", case, r.trace,
                    f"interleaving {r.trace} of {json.dumps(case['threads'])} from init {json.dumps(case['init'])} "
                    f"(cfg {json.dumps(case['cfg'])}) produced (per-thread results, final state) = {outcome!r}, which is the outcome "
                    f"of NO sequential ordering of the same operations; sequential outcomes ({_oracle_backend(case['component'])}): "
                    f"{sorted(map(repr, allowed))}")
            if named is not None:
                msg = named[1](case, r.results, final_state(case, obj))
                if msg:
                    self._violation(f"{named[0]}", case, r.trace,
                                    f"named case {named[0]}: {msg}; interleaving {r.trace}; results {r.results!r}; "
                                    f"final state {final_state(case, obj)!r}")
            self._validate(case, r)
            if deadline is not None and time.time() > deadline:
                return True
            return None

        while True:
            w0 = set(self.written_attrs)
            count, pruned, exhaustive = sched.explore(setup2, self._bodies(case), n, self.files, on_run,
                                                      max_schedules=max_schedules, reduce=reduce, bound=bound)
            if not reduce or self.written_attrs == w0 or (deadline is not None and time.time() > deadline):
                break
            # an attribute turned out to be written by workers: reads of it were wrongly treated as
            # silent during this exploration -> explore again with the larger set (it only grows)
            summary.update({"schedules": 0, "outcomes": set(), "blocked": 0})
        if reduce and self.written_attrs != w0:
            exhaustive = False
        self.pruned += pruned
        summary["pruned"] = pruned
        summary["reduce"] = reduce
        summary["exhaustive"] = exhaustive
        return summary

    def _violation(self, sig: str, case: dict, trace: list[int], detail: str) -> None:
        c = dict(case)
        c["schedule"] = list(trace)
        rec = {"property": PROP, "kind": "violation", "sig": sig, "detail": detail, "replay": json.dumps(c),
               "_cost": (sum(len(t) for t in case["threads"]), len(case["threads"]), sched.context_switches(trace), len(trace))}
        old = self.violations.get(sig)
        if old is None or rec["_cost"] < old["_cost"]:
            self.violations[sig] = rec

    # -- lockset / extraction validation of one run ---------------------------------------------
    def _validate(self, case: dict, r: sched.RunResult) -> None:
        if self.info is None:
            return
        v = self.validator
        cname = CLASS_OF[case["component"]]
        ci = self.info["classes"][cname]
        shared = set(ci["shared"])
        immutable = set(ci["immutable"])
        meths = ci["methods"]
        for (t, name, kind, held, func, line) in r.ctx["accesses"]:
            v.accesses[(name, kind, held)] += 1
            if func is None:
                continue
            where = f"{cname}.{func}:{line}"
            if name in shared:
                if not held:
                    v.note(f"unlocked-access:{cname}.{func}:{name}",
                           f"{'write to' if kind == 'w' else 'read of'} shared attribute `{name}` at {where} while thread {t} does NOT hold the lock",
                           case, r.trace)
                mi = meths.get(func)
                li = mi["lines"].get(str(line)) if mi and line is not None else None
                if li is not None and li["kind"] == "loc":
                    v.note(f"loc-statement-touches-shared:{cname}.{func}:{name}",
                           f"statement at {where} is classified `loc` but accesses shared attribute `{name}`", case, r.trace)
            elif name in immutable:
                if kind == "w":
                    v.note(f"write-to-immutable:{cname}.{func}:{name}",
                           f"attribute `{name}` is classified immutable (assigned only in __init__) but is written at {where}",
                           case, r.trace)
            else:
                v.note(f"unknown-attribute:{cname}.{func}:{name}",
                       f"attribute `{name}` accessed at {where} is unknown to the extractor", case, r.trace)
        # per-line held status, and the executed path of every operation
        for t, evs in enumerate(r.events):
            cur: list[int] | None = None
            cur_func = None
            held_now = False

            def close():
                if cur_func is None or cur is None:
                    return
                mi = meths.get(cur_func)
                if mi is None:
                    return
                obs = _reduce_repeats([x for i, x in enumerate(cur) if i == 0 or x != cur[i - 1]])
                ok = False
                for p in mi["paths"]:
                    pl0 = [ln for ln, kd in zip(p["lines"], p["shape"]) if kd != "rel"]   # `rel` is not a line event
                    pl = [x for i, x in enumerate(pl0) if i == 0 or x != pl0[i - 1]]
                    if _reduce_repeats(pl) == obs:
                        ok = True
                        v.paths_seen[p["label"]] += 1
                        break
                if not ok:
                    v.note(f"path-not-extracted:{cname}.{cur_func}",
                           f"thread {t} executed statements at lines {obs} of {cname}.{cur_func}, which is none of the extracted paths "
                           f"{[p['lines'] for p in mi['paths']]}", case, r.trace)
            for e in evs:
                if e[0] == "acq":
                    held_now = True
                elif e[0] == "rel":
                    held_now = False
                elif e[0] == "line":
                    _, func, line, depth, held = e
                    if depth != 1:
                        continue
                    mi = meths.get(func)
                    if mi is None:
                        v.note(f"unknown-public-frame:{cname}.{func}", f"top-level frame `{func}` is not an extracted public method", case, r.trace)
                        continue
                    if cur_func != func or cur is None:
                        close()
                        cur, cur_func = [], func
                    li = mi["lines"].get(str(line))
                    v.lines_checked += 1
                    if li is None:
                        v.note(f"unknown-line:{cname}.{func}:{line}", f"line {line} of {cname}.{func} executed but unknown to the extractor", case, r.trace)
                        continue
                    if li["kind"] == "acq":
                        if held:
                            continue             # the line event of leaving the `with` block
                    elif li["held"] != held:
                        v.note(f"held-mismatch:{cname}.{func}:{line}",
                               f"statement at {cname}.{func}:{line} is extracted as {'inside' if li['held'] else 'outside'} the lock "
                               f"but thread {t} {'holds' if held else 'does not hold'} it there", case, r.trace)
                    cur.append(li["stmt"])
                elif e[0] == "opstart":
                    close()
                    cur, cur_func = None, None
            close()


# ------------------------------------------------------------------------------------------------
# named cases of the property
# ------------------------------------------------------------------------------------------------

BCFG = {"ft": 2, "window": 8, "recovery": 4, "trip": "none", "class": "-"}
BCFG_CLASS = {"ft": 3, "window": 8, "recovery": 4, "trip": "none", "class": "RATE_LIMIT:1"}
QCFG = {"max": 2, "window": 8}
NOW = 20

BREAKER_INITS = {
    "closed_empty": [],
    "closed_threshold_minus_1": [["failure", "TRANSIENT", 18]],
    "closed_threshold_minus_1_expiring_now": [["failure", "TRANSIENT", 12]],     # age == window at NOW
    "open_at_recovery_boundary": [["failure", "TRANSIENT", 16], ["failure", "TRANSIENT", 16]],   # opened_at + recovery == NOW
    "open_before_boundary": [["failure", "TRANSIENT", 17], ["failure", "TRANSIENT", 17]],
    "half_open_probe_in_flight": [["failure", "TRANSIENT", 16], ["failure", "TRANSIENT", 16], ["allow", 20]],
    "half_open_no_probe": [["failure", "TRANSIENT", 16], ["failure", "TRANSIENT", 16], ["allow", 20], ["cancel"]],
}
BUDGET_INITS = {
    "empty": [],
    "capacity_minus_1": [["consume", 18, 1]],
    "at_capacity": [["consume", 18, 2]],
    "at_capacity_expiring_now": [["consume", 12, 2]],          # age == window at NOW: expired exactly
    "at_capacity_one_tick_left": [["consume", 13, 2]],
}


def _admitted(results):
    return sum(1 for per in results for r in per if r[0] == "allow" and r[1])


def named_probes(case, results, fin):
    a = _admitted(results)
    if a != 1:
        return f"{a} of the racing allow() calls were admitted (must be exactly 1)"
    if fin[0] != "half_open" or fin[2] is not True:
        return f"breaker did not end HALF_OPEN with the probe in flight: {fin}"
    return None


def named_failures(case, results, fin):
    opened = sum(1 for per in results for r in per if r == ["event", "circuit_opened"])
    if opened != 1:
        return f"circuit_opened reported {opened} times by the racing record_failure() calls (must be exactly 1)"
    if fin[0] != "open":
        return f"breaker did not end OPEN: {fin}"
    return None


def named_consume(case, results, fin):
    g = sum(1 for per in results for r in per if r == ["granted", True])
    if g != 1:
        return f"{g} racing consume(1) calls were granted with exactly one slot left (must be exactly 1)"
    if len(fin) > case["cfg"]["max"]:
        return f"deque holds {len(fin)} events > max_retries {case['cfg']['max']}"
    return None


def bcase(init: str, threads, cfg=None):
    return {"component": "breaker", "cfg": cfg or BCFG, "init": BREAKER_INITS[init], "init_name": init, "threads": threads}


def qcase(init: str, threads, cfg=None):
    return {"component": "budget", "cfg": cfg or QCFG, "init": BUDGET_INITS[init], "init_name": init, "threads": threads}


def named_cases(tier: str):
    A, F, C = ["allow", NOW], ["failure", "TRANSIENT", NOW], ["consume", NOW, 1]
    out = [
        ("named:two-racing-probes:open-at-boundary", named_probes, bcase("open_at_recovery_boundary", [[A], [A]])),
        ("named:two-racing-probes:half-open-no-probe", named_probes, bcase("half_open_no_probe", [[A], [A]])),
        ("named:two-racing-probes:clock-advanced", named_probes,
         bcase("open_at_recovery_boundary", [[["allow", NOW]], [["allow", NOW + 1]]])),
        ("named:racing-failures-open-once", named_failures, bcase("closed_threshold_minus_1", [[F], [F]])),
        ("named:racing-failures-open-once:mixed-classes", named_failures,
         bcase("closed_threshold_minus_1", [[F], [["failure", "SERVER_ERROR", NOW + 1]]])),
        ("named:racing-consume-one-slot", named_consume, qcase("capacity_minus_1", [[C], [C]])),
        ("named:racing-consume-one-slot:after-expiry", named_consume,
         qcase("at_capacity_expiring_now", [[["consume", NOW, 1]], [["consume", NOW, 1]]], {"max": 1, "window": 8})),
    ]
    if tier == "thorough":
        out += [
            ("named:three-racing-probes", named_probes, bcase("open_at_recovery_boundary", [[A], [A], [A]])),
            ("named:three-racing-failures", named_failures, bcase("closed_threshold_minus_1", [[F], [F], [F]])),
            ("named:three-racing-consume", named_consume, qcase("capacity_minus_1", [[C], [C], [C]])),
        ]
    return out


# ------------------------------------------------------------------------------------------------
# systematic program sets
# ------------------------------------------------------------------------------------------------

def breaker_ops(now: int) -> list[list]:
    return [["allow", now], ["success"], ["failure", "TRANSIENT", now], ["failure", "PERMANENT", now], ["cancel"], ["state"]]


def budget_ops(now: int) -> list[list]:
    return [["consume", now, 1], ["consume", now, 2], ["remaining", now], ["consume", now, 0]]


def program_sets(tier: str, rng: random.Random):
    """yields (set name, must_be_complete_for_exhaustive, iterable of cases) in priority order"""
    def pairs_1x1(component):
        inits = BREAKER_INITS if component == "breaker" else BUDGET_INITS
        mk = bcase if component == "breaker" else qcase
        opsf = breaker_ops if component == "breaker" else budget_ops
        for init in inits:
            base = opsf(NOW)
            for i, a in enumerate(base):                    # fixed clock: unordered pairs
                for b in base[i:]:
                    yield mk(init, [[a], [b]])
            adv = opsf(NOW + 1)
            for a in base:                                   # clock advanced between the two threads' reads
                for b in adv:
                    if a != b or (len(a) > 1 and a[0] in ("allow", "failure", "consume", "remaining")):
                        if b != a and b[0] in ("allow", "failure", "consume", "remaining"):
                            yield mk(init, [[a], [b]])

    def progs_2x1(component, sample: int | None):
        inits = BREAKER_INITS if component == "breaker" else BUDGET_INITS
        mk = bcase if component == "breaker" else qcase
        opsf = breaker_ops if component == "breaker" else budget_ops
        allp = []
        for init in inits:
            o0, o1 = opsf(NOW), opsf(NOW + 1)
            for a in o0:
                for a2 in o1:
                    for b in o0:
                        allp.append(mk(init, [[a, a2], [b]]))
        if sample is not None and sample < len(allp):
            allp = rng.sample(allp, sample)
        return allp

    def progs_2x2(component, sample: int):
        inits = BREAKER_INITS if component == "breaker" else BUDGET_INITS
        mk = bcase if component == "breaker" else qcase
        opsf = breaker_ops if component == "breaker" else budget_ops
        out = []
        for _ in range(sample):
            init = rng.choice(list(inits))
            o0, o1 = opsf(NOW), opsf(NOW + rng.choice([0, 1, 4, 8]))
            out.append(mk(init, [[rng.choice(o0), rng.choice(o1)], [rng.choice(o0), rng.choice(o1)]]))
        return out

    def progs_3(component, sample: int, two_ops: bool):
        inits = BREAKER_INITS if component == "breaker" else BUDGET_INITS
        mk = bcase if component == "breaker" else qcase
        opsf = breaker_ops if component == "breaker" else budget_ops
        out = []
        for _ in range(sample):
            init = rng.choice(list(inits))
            o0 = opsf(NOW)
            th = [[rng.choice(o0)], [rng.choice(o0)], [rng.choice(opsf(NOW + rng.choice([0, 1])))]]
            if two_ops:
                th[rng.randrange(3)].append(rng.choice(opsf(NOW + 1)))
            out.append(mk(init, th))
        return out

    def class_threshold_cases():
        R = ["failure", "RATE_LIMIT", NOW]
        T = ["failure", "TRANSIENT", NOW]
        for init in ([], [["failure", "TRANSIENT", 18], ["failure", "TRANSIENT", 19]]):
            for th in ([[R], [R]], [[R], [T]], [[T], [T]], [[R], [["allow", NOW]]]):
                yield {"component": "breaker", "cfg": BCFG_CLASS, "init": init, "init_name": f"class_cfg_{len(init)}", "threads": th}
        # a class failure racing a transition that clears the counters (probe success / cancel / a failure that
        # opens): the per-class bucket the failure is counted in must be the one that survives
        cfg2 = {"ft": 3, "window": 8, "recovery": 4, "trip": "none", "class": "RATE_LIMIT:2"}
        opened = [["failure", "TRANSIENT", 16], ["failure", "TRANSIENT", 16], ["failure", "TRANSIENT", 16]]
        for init, name in ((opened + [["allow", 20]], "class2_half_open_probe"), (opened, "class2_open_at_boundary"),
                           ([["failure", "RATE_LIMIT", 18]], "class2_one_class_failure")):
            for th in ([[R], [["success"]]], [[R], [["cancel"]]], [[R], [R]], [[R], [T]], [[R], [["allow", NOW]]]):
                yield {"component": "breaker", "cfg": cfg2, "init": init, "init_name": name, "threads": th}

    yield ("breaker 2 threads x 1 op, all inits, all op pairs", True, list(pairs_1x1("breaker")))
    yield ("budget 2 threads x 1 op, all inits, all op pairs", True, list(pairs_1x1("budget")))
    yield ("breaker per-class threshold races", True, list(class_threshold_cases()))
    if tier == "quick":
        yield ("budget 2 threads x (2,1) ops, sampled", False, progs_2x1("budget", 60))
        yield ("breaker 2 threads x (2,1) ops, sampled", False, progs_2x1("breaker", 100))
        yield ("breaker 2 threads x 2 ops, sampled", False, progs_2x2("breaker", 20))
        yield ("budget 2 threads x 2 ops, sampled", False, progs_2x2("budget", 15))
        yield ("breaker 3 threads x 1 op, sampled", False, progs_3("breaker", 12, False))
        yield ("budget 3 threads x 1 op, sampled", False, progs_3("budget", 8, False))
    else:
        yield ("budget 2 threads x (2,1) ops, all", True, progs_2x1("budget", None))
        yield ("breaker 2 threads x (2,1) ops, all", True, progs_2x1("breaker", None))
        yield ("budget 2 threads x 2 ops, sampled", False, progs_2x2("budget", 120))
        yield ("breaker 2 threads x 2 ops, sampled", False, progs_2x2("breaker", 200))
        yield ("budget 3 threads x 1 op, sampled", False, progs_3("budget", 60, False))
        yield ("breaker 3 threads x 1 op, sampled", False, progs_3("breaker", 100, False))
        yield ("breaker 3 threads x 1-2 ops, sampled", False, progs_3("breaker", 30, True))
        yield ("budget 3 threads x 1-2 ops, sampled", False, progs_3("budget", 20, True))


# ------------------------------------------------------------------------------------------------
# run
# ------------------------------------------------------------------------------------------------



def _named_fn(name: str | None):
    if not name:
        return None
    if "probes" in name:
        return named_probes
    if "failures" in name:
        return named_failures
    if "consume" in name:
        return named_consume
    raise ValueError(name)


def _case_key(case: dict) -> str:
    return json.dumps([case["component"], case["cfg"], case["init"], case["threads"]])


def _export(ex: "Explorer") -> dict:
    v = ex.validator
    return {"violations": list(ex.violations.values()), "problems": list(v.problems.values()),
            "accesses": [[list(k), n] for k, n in v.accesses.items()], "lines_checked": v.lines_checked,
            "paths_seen": dict(v.paths_seen), "schedules": ex.schedules, "pruned": ex.pruned,
            "backend": dict(ex.backend_used)}


def _worker_main() -> int:
    """`python -m harness.families.threads _worker`: child process doing PLAIN DFS (every interleaving)
    of the cases of a job read from stdin; appends one JSON line per finished case to job['out']
    (each line carries the cumulative export, so a killed worker loses only its current case)."""
    job = json.loads(sys.stdin.read())
    old_time = _rb.time
    _rb.time = Shim(monotonic=_budget_monotonic)
    try:
        try:
            info = extract_locks.extract(REPO)
        except (extract_locks.ExtractError, SyntaxError):
            info = None                      # reported by the parent; explore without extraction validation
        ex = Explorer(info, Counter())
        with open(job["out"], "a") as fh:
            # the lock discipline of some method no longer checks: FIRST, for every program that uses such a method,
            # every interleaving with at most 2 pre-emptions (a few hundred runs each; unlike the capped plain DFS
            # below, which spends its cap permuting the early lines, it reaches the late lines of both operations)
            aff = set(job.get("affected") or [])
            for (name, case) in job["cases"]:
                if aff & case_methods(case) and time.time() < job["deadline"]:
                    fn = _named_fn(name)
                    ex.explore_case(case, named=(name, fn) if fn else None, max_schedules=2000,
                                    deadline=job["deadline"], reduce=False, bound=2)
            for (name, case) in job["cases"]:
                if time.time() > job["deadline"]:
                    rec = {"name": name, "case": case, "skipped": True}
                else:
                    fn = _named_fn(name)
                    s = ex.explore_case(case, named=(name, fn) if fn else None, max_schedules=job["cap"],
                                        deadline=job["deadline"], reduce=job["reduce"])
                    s["outcome_set"] = sorted(map(repr, s["outcomes"]))
                    s["outcomes"] = len(s["outcomes"])
                    rec = {"name": name, "case": case, "summary": s}
                rec["export"] = _export(ex)
                fh.write(json.dumps(rec) + "\n")
                fh.flush()
        return 0
    finally:
        _rb.time = old_time
        _CLOCK[0] = None


def _spawn_workers(jobs: list, nproc: int, cap: int, deadline: float, affected=None) -> list:
    """static round-robin partition of the plain-DFS jobs over `nproc` independent child processes"""
    import tempfile
    workers = []
    parts = [jobs[i::nproc] for i in range(nproc)]
    for part in parts:
        if not part:
            continue
        fd, out = tempfile.mkstemp(prefix="c17-plain-", suffix=".jsonl")
        os.close(fd)
        p = subprocess.Popen([sys.executable, "-m", "harness.families.threads", "_worker"], cwd=str(LEAN_DIR.parent),
                             stdin=subprocess.PIPE, stdout=subprocess.DEVNULL, stderr=subprocess.PIPE, text=True)
        p.stdin.write(json.dumps({"cases": part, "cap": cap, "deadline": deadline, "reduce": False, "out": out,
                                  "affected": sorted(affected or [])}))
        p.stdin.close()
        workers.append((p, out, len(part)))
    return workers


def _collect_workers(workers: list, hard_deadline: float) -> tuple[list[dict], list[dict], bool]:
    """returns (per-case records, one cumulative export per worker, all workers finished all their cases?)"""
    recs: list[dict] = []
    exports: list[dict] = []
    complete = True
    for (p, out, n) in workers:
        try:
            p.wait(timeout=max(0.1, hard_deadline - time.time()))
        except subprocess.TimeoutExpired:
            p.kill()
            p.wait()
            complete = False
        err = p.stderr.read() if p.stderr else ""
        lines = [json.loads(l) for l in Path(out).read_text().splitlines() if l.strip()]
        os.unlink(out)
        if p.returncode not in (0, -9):
            raise RuntimeError(f"threads family: plain-DFS worker failed (rc={p.returncode}):\n{err[-3000:]}")
        if len(lines) < n:
            complete = False
        if lines:
            exports.append(lines[-1]["export"])
        for l in lines:
            l.pop("export", None)
            recs.append(l)
    return recs, exports, complete


def run(tier: str, seed: int) -> dict:
    assert tier in ("quick", "thorough")
    t0 = wall()
    e0 = time.time()
    rng = random.Random(seed)
    stats: Counter = Counter()
    info, failures, affected = structural_obligation()
    t_struct = wall() - t0
    budget_s = {"quick": 19.0, "thorough": 210.0}[tier]
    ncpu = os.cpu_count() or 2
    nproc = {"quick": min(4, max(1, ncpu - 1)), "thorough": min(8, max(2, ncpu // 2))}[tier]
    plain_cap = {"quick": 30000, "thorough": 150000}[tier]
    reduce_cap = {"quick": 4000, "thorough": 60000}[tier]
    deadline = time.time() + budget_s
    hard_deadline = deadline + 8.0

    named = named_cases(tier)
    sets = list(program_sets(tier, rng))

    def prio(case) -> int:
        return 0 if (affected and case_methods(case) & affected) else 1

    # ---- plain-DFS jobs (every single interleaving), in child processes ---------------------------
    plain_jobs: list[tuple[str | None, dict]] = [(name, case) for (name, fn, case) in named if len(case["threads"]) == 2]
    if tier == "thorough":
        for (setname, must, cases) in sets:
            if "2 threads x 1 op" in setname or "per-class" in setname:
                plain_jobs += [(None, c) for c in cases]
    if affected:
        extra = [(None, c) for (_, _, cases) in sets for c in cases
                 if case_methods(c) & affected and sum(len(t) for t in c["threads"]) == 2]
        seenk = {_case_key(c) for _, c in plain_jobs}
        plain_jobs += [(n, c) for n, c in extra if _case_key(c) not in seenk]
    plain_jobs.sort(key=lambda nc: (prio(nc[1]), 0 if nc[0] else 1))
    workers = _spawn_workers(plain_jobs, nproc, plain_cap, deadline, affected)

    # ---- sleep-set DFS in this process ----------------------------------------------------------------
    old_time = _rb.time
    _rb.time = Shim(monotonic=_budget_monotonic)
    ex = Explorer(info, stats)
    samples: list = []
    dist: dict = {"by_component": Counter(), "by_init": Counter(), "by_ops": Counter(), "threads": Counter(),
                  "ops_per_program": Counter(), "sets": {}, "order_sensitive_programs": 0, "clock": Counter()}
    seen: set[str] = set()
    nontrivial = 0
    all_exhaustive = True
    reduced_outcomes: dict[str, list[str]] = {}

    def account(case, s, name) -> None:
        nonlocal nontrivial
        key = _case_key(case)
        if key in seen:
            return
        seen.add(key)
        dist["by_component"][case["component"]] += 1
        dist["by_init"][case["component"] + ":" + case.get("init_name", "?")] += 1
        dist["by_ops"][case["component"] + ":" + op_names(case)] += 1
        dist["threads"][str(len(case["threads"]))] += 1
        dist["ops_per_program"][str(sum(len(t) for t in case["threads"]))] += 1
        nows = {o[-1] if o[0] in ("allow", "failure") else (o[1] if o[0] in ("consume", "remaining") else None)
                for t in case["threads"] for o in t} - {None}
        dist["clock"]["fixed" if len(nows) <= 1 else "advanced"] += 1
        if s["sequential_outcomes"] >= 2:
            nontrivial += 1
            dist["order_sensitive_programs"] += 1
        if len(samples) < 8 and (name or (s["sequential_outcomes"] >= 2 and len(samples) < 5)):
            samples.append({"case": {k: case[k] for k in ("component", "cfg", "init", "threads")}, "name": name,
                            "mode": "sleep-set DFS" if s.get("reduce") else "plain DFS",
                            "interleavings": s["schedules"], "pruned_runs": s.get("pruned", 0),
                            "distinct_outcomes": s["outcomes"] if isinstance(s["outcomes"], int) else len(s["outcomes"]),
                            "sequential_outcomes": s["sequential_outcomes"], "exhaustive": s["exhaustive"],
                            "longest_schedule": s["maxlen"]})

    try:
        def do_case(case, name=None) -> bool:
            fn = _named_fn(name)
            s = ex.explore_case(case, named=(name, fn) if fn else None, max_schedules=reduce_cap,
                                deadline=deadline, reduce=True)
            account(case, s, name)
            if s["exhaustive"]:
                reduced_outcomes[_case_key(case)] = sorted(map(repr, s["outcomes"]))
            return s["exhaustive"]

        done_keys: set[str] = set()
        ordered_named = sorted(named, key=lambda x: prio(x[2]))
        for name, fn, case in ordered_named:
            if not do_case(case, name):
                all_exhaustive = False
            done_keys.add(_case_key(case))
        if affected:
            n_prio = 0
            for (setname, must, cases) in sets:
                for case in cases:
                    if prio(case) == 0 and _case_key(case) not in done_keys and time.time() < deadline:
                        do_case(case)
                        done_keys.add(_case_key(case))
                        n_prio += 1
            dist["prioritized_programs_for_broken_obligation"] = n_prio
        for (setname, must, cases) in sets:
            explored = 0
            complete = True
            before = ex.schedules
            for case in cases:
                if time.time() > deadline:
                    complete = False
                    break
                if _case_key(case) in done_keys:
                    explored += 1
                    continue
                if not do_case(case):
                    complete = False
                done_keys.add(_case_key(case))
                explored += 1
            dist["sets"][setname] = {"mode": "sleep-set DFS", "complete_program_space": bool(must),
                                     "programs": len(cases), "explored": explored,
                                     "every_program_fully_enumerated": complete and explored == len(cases),
                                     "complete_interleavings": ex.schedules - before}
            if must and not (complete and explored == len(cases)):
                all_exhaustive = False
    finally:
        _rb.time = old_time
        _CLOCK[0] = None

    # ---- collect the plain-DFS children -------------------------------------------------------------------
    exports = [_export(ex)]
    plain = {"programs": len(plain_jobs), "explored": 0, "fully_enumerated": 0, "complete_interleavings": 0,
             "processes": nproc, "largest_program_interleavings": 0}
    recs, wexports, wcomplete = _collect_workers(workers, hard_deadline)
    exports.extend(wexports)
    if not wcomplete:
        all_exhaustive = False
    if True:
        for c in recs:
            if c.get("skipped"):
                all_exhaustive = False
                continue
            s = c["summary"]
            plain["explored"] += 1
            plain["complete_interleavings"] += s["schedules"]
            plain["largest_program_interleavings"] = max(plain["largest_program_interleavings"], s["schedules"])
            if s["exhaustive"]:
                plain["fully_enumerated"] += 1
                # self-check of the sleep-set reduction: it must reach exactly the outcomes plain DFS reaches
                ro = reduced_outcomes.get(_case_key(c["case"]))
                if ro is not None:
                    plain["cross_checked_against_sleep_set_dfs"] = plain.get("cross_checked_against_sleep_set_dfs", 0) + 1
                    if ro != s["outcome_set"] and failures:
                        # the lock discipline the sleep-set reduction relies on is itself broken (structural
                        # obligation failed): the reduction is no longer a self-check; every interleaving either
                        # search ran is still a real execution, so their verdicts stand
                        plain["sleep_set_mismatch_with_broken_lock_shape"] = \
                            plain.get("sleep_set_mismatch_with_broken_lock_shape", 0) + 1
                    elif ro != s["outcome_set"]:
                        raise RuntimeError("thread explorer internal error: sleep-set DFS and plain DFS reach different outcome sets on "
                                           f"{json.dumps(c['case'])}: plain-only {sorted(set(s['outcome_set']) - set(ro))}, "
                                           f"sleep-set-only {sorted(set(ro) - set(s['outcome_set']))}")
            else:
                all_exhaustive = False
            if c["name"]:
                samples.insert(0, {"case": {k: c["case"][k] for k in ("component", "cfg", "init", "threads")},
                                   "name": c["name"], "mode": "plain DFS", "interleavings": s["schedules"],
                                   "distinct_outcomes": s["outcomes"], "sequential_outcomes": s["sequential_outcomes"],
                                   "exhaustive": s["exhaustive"], "longest_schedule": s["maxlen"],
                                   "blocked_lock_attempts": s["blocked"]})
    dist["plain_dfs"] = plain

    # ---- merge -------------------------------------------------------------------------------------------------
    viol: dict[str, dict] = {}
    probs: dict[str, dict] = {}
    accesses: Counter = Counter()
    paths_seen: Counter = Counter()
    lines_checked = evaluations = pruned = 0
    backend: Counter = Counter()
    for e in exports:
        for r in e["violations"]:
            c = tuple(r["_cost"])
            if r["sig"] not in viol or c < tuple(viol[r["sig"]]["_cost"]):
                viol[r["sig"]] = r
        for r in e["problems"]:
            probs.setdefault(r["sig"], r)
        for k, n in e["accesses"]:
            accesses[tuple(k)] += n
        paths_seen.update(e["paths_seen"])
        lines_checked += e["lines_checked"]
        evaluations += e["schedules"]
        pruned += e["pruned"]
        backend.update(e["backend"])
    ranked = sorted(viol.values(), key=lambda r: (0 if r["sig"].startswith(("named:", "deadlock", "nontermination")) else 1,
                                                  tuple(r["_cost"])))
    kept = [r for r in ranked if r["sig"].startswith(("named:", "deadlock", "nontermination"))]
    others = [r for r in ranked if r not in kept]
    kept += others[:4]
    dist["violation_signatures_found"] = len(viol)
    if len(others) > 4:
        dist["violation_signatures_not_listed"] = sorted(r["sig"] for r in others[4:])
    for r in kept:
        r = dict(r)
        r.pop("_cost", None)
        failures.append(r)
    failures.extend(probs.values())
    dist["lockset"] = {"attribute_accesses_checked": sum(accesses.values()),
                       "accesses": {f"{a}:{k}:{'locked' if h else 'UNLOCKED'}": n for (a, k, h), n in sorted(accesses.items())},
                       "top_level_lines_checked": lines_checked,
                       "extracted_paths_observed": dict(sorted(paths_seen.items())),
                       "extracted_paths_never_observed": sorted(
                           p["label"] for ci in (info["classes"].values() if info else []) for mi in ci["methods"].values()
                           for p in mi["paths"] if p["label"] not in paths_seen)}
    dist["oracle_backend_programs"] = dict(backend)
    dist["sleep_set_pruned_runs"] = pruned
    dist["structural"] = {"seconds": round(t_struct, 2),
                          "shapes": sum(len(mi["paths"]) for ci in info["classes"].values() for mi in ci["methods"].values()) if info else 0,
                          "shared_attributes": {c: ci["shared"] for c, ci in info["classes"].items()} if info else {},
                          "broken": sorted(affected)}
    for k in ("by_component", "by_init", "by_ops", "threads", "ops_per_program", "clock"):
        dist[k] = dict(sorted(dist[k].items()))
    return {
        "family": FAMILY,
        "evaluations": evaluations,
        "distinct_nontrivial": nontrivial,
        "rule": "a case = (component, configuration, initial state, one op list per thread with the clock value each op reads). "
                "Order: the named cases of the property, then every pair of public ops (2 threads x 1 op) from every initial state "
                "with fixed and advanced clocks, per-class-threshold races, then larger programs (seeded sample in the quick tier). "
                "Two exploration modes: PLAIN DFS = every line-level interleaving (named 2-thread cases in both tiers; all 2x1 "
                "programs in the thorough tier; run in child processes), SLEEP-SET DFS = one interleaving per class modulo swapping "
                "adjacent steps one of which is silent (no attribute access other than never-written scalars, no lock operation, "
                "outermost frame, deep state unchanged) — used for every case. evaluations = complete interleavings executed on the "
                "real code and compared with the set of sequential outcomes of the Lean model (driver breaker/budget); "
                "distinct = distinct cases; non-trivial = the sequential orderings of the case have >= 2 different outcomes; "
                "exhaustive = every COMPLETE program space of the tier (distribution.sets[*].complete_program_space: all op pairs x all "
                "initial states x fixed/advanced clock; per-class races; in the thorough tier also all (2,1)-op programs) and every named "
                "case had all its interleavings enumerated (sleep-set DFS, plus plain DFS where listed in distribution.plain_dfs); the "
                "seeded samples of larger programs are additional and are not a space",
        "samples": samples[:10],
        "distribution": dist,
        "exhaustive": bool(all_exhaustive),
        "seconds": round(wall() - t0, 2),
        "failures": failures,
    }


def replay(case: dict) -> dict:
    """re-run one recorded case under its recorded schedule (or explore it fully if no schedule is given)"""
    try:
        info = extract_locks.extract(REPO)
    except (extract_locks.ExtractError, SyntaxError):
        info = None
    old_time = _rb.time
    _rb.time = Shim(monotonic=_budget_monotonic)
    try:
        ex = Explorer(info, Counter())
        if "order" in case:
            return {"implementation_sequential": repr(_seq_batch(case, [tuple(case["order"])], "python")),
                    "model": repr(_seq_batch(case, [tuple(case["order"])], _oracle_backend(case["component"])))}
        allowed = ex.allowed(case)
        if "schedule" not in case:
            s = ex.explore_case(case, max_schedules=200000)
            return {"interleavings": s["schedules"], "exhaustive": s["exhaustive"],
                    "failures": [{k: v for k, v in f.items() if k != "_cost"} for f in ex.violations.values()]
                    + list(ex.validator.problems.values())}
        r = sched.run_once(ex._setup(case), ex._bodies(case), len(case["threads"]), ex.files, list(case["schedule"]))
        out = {"recorded_schedule": " ".join(map(str, case["schedule"])), "executed_schedule": " ".join(map(str, r.trace)),
               "deadlock": r.deadlock}
        if r.errors:
            # the recorded schedule does not fit this tree (different code => different steps): explore the case instead
            s = ex.explore_case({k: v for k, v in case.items() if k != "schedule"}, max_schedules=200000, reduce=True)
            out.update({"schedule_replayable_on_this_tree": False, "errors": r.errors,
                        "explored_instead": {"interleavings": s["schedules"], "exhaustive": s["exhaustive"], "mode": "sleep-set DFS"},
                        "failures": [{k: v for k, v in f.items() if k != "_cost"} for f in ex.violations.values()]
                        + list(ex.validator.problems.values())})
            return out
        if not r.deadlock:
            outcome = freeze((r.results, final_state(case, r.ctx["obj"])))
            out.update({"results": r.results, "final_state": final_state(case, r.ctx["obj"]),
                        "linearizable": outcome in allowed, "sequential_outcomes": sorted(map(repr, allowed))})
        ex._validate(case, r)
        out["extraction_problems"] = list(ex.validator.problems.values())
        return out
    finally:
        _rb.time = old_time
        _CLOCK[0] = None


def main(argv: list[str]) -> int:
    if argv and argv[0] == "_worker":
        return _worker_main()
    if len(argv) >= 2 and argv[0] == "replay":
        text = Path(argv[1]).read_text() if argv[1] != "-" else sys.stdin.read()
        print(json.dumps(replay(json.loads(text)), indent=1, default=str))
        return 0
    tier = argv[0] if argv else "quick"
    seed = int(argv[1]) if len(argv) > 1 else int(os.environ.get("VERIF_SEED", "0"))
    res = run(tier, seed)
    print(json.dumps(res, indent=1, default=str))
    return 0


if __name__ == "__main__":
    sys.exit(main(sys.argv[1:]))
