"""Correspondence family `strategies` (C18, and the `hint_honoured` sentence of C20).

The REAL functions of `redress.strategies` are called with the module attribute
`redress.strategies.random` replaced by a shim whose `uniform(a, b)` / `random()` return the
scripted draw (`uniform(a,b) = a + (b-a)*u`, CPython's formula).  Every returned float is turned
into an exact rational (`float.as_integer_ratio`) and

  * compared with the value of the Lean model (`driver strategies`, exact rational arithmetic)
    within a relative tolerance of 2^-40 of the operand scale plus an absolute epsilon 2^-1060
    for the subnormal range  ->  mismatch = `divergence` C18;
  * handed to the Lean-defined envelope predicate (`check_*` lines of the driver)
    ->  outside, non-finite, or the call raised = `violation` C18 (C20 for the hint envelope).

Float-only behaviour the rational model cannot express is compared with the envelope only:
`g ** attempt` raising OverflowError inside `_grow` (cap saturates to max_s) and
`prev * 3.0` overflowing to inf in decorrelated_jitter (inf * 0 = nan -> max_s).
"""
from __future__ import annotations

import json
import math
import random as _random
import sys
from fractions import Fraction

from harness.common import Shim, TICK, VClock, ensure_repo_on_path, run_driver, wall

ensure_repo_on_path()

import redress.strategies as S  # noqa: E402
from redress.classify import Classification  # noqa: E402
from redress.errors import ErrorClass  # noqa: E402

REL = Fraction(1, 2 ** 40)
EPS = Fraction(1, 2 ** 1060)
REL_S = "2^-40"
EPS_S = "2^-1060"
INF = math.inf
NAN = math.nan
U1M = 1.0 - 2.0 ** -53          # largest double below 1
UMIN = 2.0 ** -53               # smallest positive value random() can return
DENORM = 5e-324

ATTEMPTS_SMALL = list(range(1, 71))
ATTEMPTS_BIG = [1023, 1024, 1025, 1750, 1751, 5000, 10 ** 6]
DRAWS = [0.0, 0.5, U1M, UMIN, 1.0]
DRAW_NAME = {0.0: "u=0", 0.5: "u=1/2", U1M: "u=1-2^-53", UMIN: "u=2^-53", 1.0: "u=1"}

# (base_s, max_s) with 0 <= base <= max : zero, denormal, tiny, typical, huge, base == max
PAIRS = [
    (0.0, 0.0), (0.0, 30.0), (0.0, 1e300),
    (DENORM, DENORM), (DENORM, 1e-300), (DENORM, 1.0), (DENORM, 30.0), (DENORM, 1e300),
    (1e-300, 1e-300), (1e-300, 1e-9), (1e-300, 30.0), (1e-300, 1e10), (1e-300, 1e300),
    (1e-9, 1e-9), (1e-9, 0.001), (1e-9, 30.0),
    (0.25, 0.25), (0.25, 20.0), (0.25, 30.0), (0.25, 1e300),
    (0.1, 0.3), (1.0, 1.0), (3.7, 1234.5), (30.0, 30.0),
    (1e300, 1e300), (1e300, 1.7e308), (1.7e308, 1.7e308),
]
PREVS = [None, 0.0, -0.0, DENORM, 1e-12, 0.05, 0.08, 1.0 / 12.0, 1.0, 29.9, 31.0, 1e300, 1e308, INF]


# ----------------------------------------------------------------------------- helpers

def q(x) -> str:
    """float / int -> driver token (exact)."""
    if isinstance(x, bool):
        x = int(x)
    if isinstance(x, int):
        return str(x)
    if x != x:
        return "nan"
    if x == INF:
        return "inf"
    if x == -INF:
        return "-inf"
    n, d = x.as_integer_ratio()
    return str(n) if d == 1 else f"{n}/{d}"


def qo(x) -> str:
    return "none" if x is None else q(x)


def frac(x) -> Fraction:
    return Fraction(x)


def parse_rat(tok: str) -> Fraction:
    n, _, d = tok.partition("/")
    return Fraction(int(n), int(d) if d else 1)


def is_num(v) -> bool:
    return isinstance(v, (int, float)) and not isinstance(v, bool)


def finite(v) -> bool:
    return is_num(v) and math.isfinite(v)


def close(impl: Fraction, model: Fraction, scale: Fraction) -> bool:
    s = max(abs(impl), abs(model), abs(scale))
    return abs(impl - model) <= REL * s + EPS


def r(x) -> str:
    return repr(x)


def bucket(a: int) -> str:
    if a <= 10:
        return "1-10"
    if a <= 70:
        return "11-70"
    if a in (1023, 1024, 1025):
        return "1023-1025"
    if a in (1750, 1751):
        return "1750-1751"
    if a in (5000, 10 ** 6):
        return str(a)
    if a < 1023:
        return "71-1022"
    if a < 1750:
        return "1026-1749"
    return "1752-4999"


def draw_name(u: float) -> str:
    return DRAW_NAME.get(u, "random")


class Draw:
    """The scripted draw served to `redress.strategies.random`."""

    def __init__(self) -> None:
        self.u = 0.5
        self.calls = 0

    def uniform(self, a, b):
        self.calls += 1
        return a + (b - a) * self.u

    def random(self):
        self.calls += 1
        return self.u


DRAW = Draw()


def call(fn):
    """Run the implementation; never let anything escape."""
    try:
        return ("ok", fn())
    except BaseException as e:  # noqa: BLE001 - the property says *nothing* is raised
        return ("raise", type(e).__name__ + ": " + str(e)[:80])


def ctx_for(attempt=1, hint=None, prev=None, remaining=None):
    return S.BackoffContext(
        attempt=attempt,
        classification=Classification(klass=ErrorClass.TRANSIENT, retry_after_s=hint),
        prev_sleep_s=prev,
        remaining_s=remaining,
        cause="exception",
    )


# ----------------------------------------------------------------------------- cases
# A case is a dict: kind, key (hashable identity), params, and after evaluation: impl, lines.

def mk_jitter(kind, base, mx, attempt, u, via):
    return {"kind": kind, "base": base, "max": mx, "attempt": attempt, "u": u, "via": via,
            "key": (kind, base, mx, attempt, u, via)}


def mk_decor(base, mx, prev, u, via):
    return {"kind": "decorrelated", "base": base, "max": mx, "prev": prev, "u": u, "via": via,
            "key": ("decorrelated", base, mx, r(prev), u, via)}


def mk_rao(jitter, hint, fb, remaining, u, style):
    """fb: float, or ('equal_jitter'|'token_backoff'|'decorrelated', base, max, attempt, prev)."""
    return {"kind": "retry_after_or", "jitter": jitter, "hint": hint, "fb": fb,
            "remaining": remaining, "u": u, "style": style,
            "key": ("retry_after_or", jitter, r(hint), r(fb), r(remaining), u, style)}


def mk_adaptive(window_t, ts, mn, mx, ops, style):
    """ops: list of ('s'|'f'|'m', tick) or ('c', tick, fb)."""
    return {"kind": "adaptive", "window_t": window_t, "ts": ts, "min": mn, "max": mx,
            "ops": ops, "style": style,
            "key": ("adaptive", window_t, ts, mn, mx, tuple(ops), style)}


def mk_adaptive_invalid(window_s, ts, mn, mx):
    return {"kind": "adaptive_ctor", "window_s": window_s, "ts": ts, "min": mn, "max": mx,
            "key": ("adaptive_ctor", window_s, ts, mn, mx)}


def rand_draw(rng) -> float:
    x = rng.random()
    if x < 0.5:
        return rng.choice(DRAWS)
    return rng.random()


def rand_pair(rng):
    if rng.random() < 0.6:
        return rng.choice(PAIRS)
    base = rng.choice([0.0, DENORM, 1e-300, 1e-9, 0.01, 0.25, 1.0, rng.uniform(0.0, 5.0),
                       10.0 ** rng.uniform(-320, 300)])
    mx = rng.choice([base, base, base * 2.0 if base * 2.0 < INF else base, 30.0, 20.0, 1e300,
                     base + rng.uniform(0.0, 100.0)])
    if not (base <= mx) or mx == INF:
        mx = base
    return (base, mx)


def rand_prev(rng, base):
    x = rng.random()
    if x < 0.5:
        return rng.choice(PREVS)
    if x < 0.7:
        return rng.choice([base / 3.0, base / 3.0 * (1 - 2 ** -52), base, base * 3.0 if base * 3.0 < INF else base])
    return rng.choice([rng.uniform(0.0, 40.0), 10.0 ** rng.uniform(-320, 308)])


def gen_jitter_cases(tier, rng):
    cases = []
    kinds = ["equal_jitter", "token_backoff"]
    attempts = ATTEMPTS_SMALL + ATTEMPTS_BIG
    if tier == "thorough":
        # full product: attempts x pairs x boundary draws x both strategies
        for k in kinds:
            for a in attempts:
                for (b, m) in PAIRS:
                    for u in DRAWS:
                        cases.append(mk_jitter(k, b, m, a, u, "direct"))
        n_rand = 17000
    else:
        # every attempt exhaustively, pairs and draws rotated so that every pair meets every draw
        i = 0
        for k in kinds:
            for a in attempts:
                for j in range(7 if a in ATTEMPTS_BIG else 4):
                    b, m = PAIRS[(i * 7 + j * 11 + a) % len(PAIRS)]
                    u = DRAWS[(i + j) % len(DRAWS)]
                    cases.append(mk_jitter(k, b, m, a, u, "direct"))
                    i += 1
            # the overflow boundary against every parameter pair
            for a in ([1023, 1024] if k == "equal_jitter" else [1750, 1751]):
                for (b, m) in PAIRS:
                    cases.append(mk_jitter(k, b, m, a, DRAWS[(i := i + 1) % len(DRAWS)], "direct"))
        n_rand = 1200
    for _ in range(n_rand):
        k = rng.choice(kinds)
        b, m = rand_pair(rng)
        x = rng.random()
        a = rng.choice(ATTEMPTS_BIG) if x < 0.2 else (rng.randint(1, 70) if x < 0.8 else rng.randint(71, 3000))
        cases.append(mk_jitter(k, b, m, a, rand_draw(rng), rng.choice(["direct", "normalize"])))
    return cases


def gen_decor_cases(tier, rng):
    cases = []
    if tier == "thorough":
        for (b, m) in PAIRS:
            for p in PREVS:
                for u in DRAWS:
                    cases.append(mk_decor(b, m, p, u, "direct"))
        n_rand = 17000
    else:
        i = 0
        for (b, m) in PAIRS:
            for p in PREVS:
                cases.append(mk_decor(b, m, p, DRAWS[i % len(DRAWS)], "direct"))
                i += 1
        n_rand = 900
    for _ in range(n_rand):
        b, m = rand_pair(rng)
        cases.append(mk_decor(b, m, rand_prev(rng, b), rand_draw(rng), rng.choice(["direct", "normalize"])))
    return cases


RAO_JITTERS = [0.25, 0.0, -1.0, -0.0, 1e-9, 3.0]
RAO_HINTS = [None, NAN, INF, -INF, -2.5, -0.0, 0.0, 0.1, 1.0, 5, 7.5, 1e300]
RAO_FBS = [NAN, INF, -INF, -1.0, 0.0, 0.5, 100.0, 1e308,
           ("equal_jitter", 0.25, 30.0), ("token_backoff", 0.25, 20.0), ("decorrelated", 0.25, 30.0)]
RAO_REMAINING = [None, 0.0, 1e-9, 0.05, 1.0, 1.125, 2.0, 1e6]
RAO_STYLES = ["ctx", "legacy"]


def gen_rao_cases(tier, rng):
    cases = []

    def fbx(fb, rng):
        if isinstance(fb, tuple):
            return fb + (rng.randint(1, 12), rng.choice([None, 0.0, 0.5, 4.0]))
        return fb

    if tier == "thorough":
        for j in RAO_JITTERS:
            for h in RAO_HINTS:
                for fb in RAO_FBS:
                    for rem in RAO_REMAINING:
                        for u in (0.0, 0.5, U1M):
                            cases.append(mk_rao(j, h, fbx(fb, rng), rem, u, RAO_STYLES[len(cases) % 2]))
        n_rand = 6000
    else:
        # pairwise-ish corpus: every hint x every remaining x every jitter; every fb x remaining
        i = 0
        for h in RAO_HINTS:
            for rem in RAO_REMAINING:
                for j in RAO_JITTERS:
                    fb = RAO_FBS[i % len(RAO_FBS)]
                    cases.append(mk_rao(j, h, fbx(fb, rng), rem, DRAWS[i % len(DRAWS)], RAO_STYLES[i % 2]))
                    i += 1
        for fb in RAO_FBS:
            for rem in RAO_REMAINING:
                for h in (None, NAN, INF, -INF):
                    cases.append(mk_rao(RAO_JITTERS[i % len(RAO_JITTERS)], h, fbx(fb, rng), rem,
                                        DRAWS[i % len(DRAWS)], RAO_STYLES[i % 2]))
                    i += 1
        n_rand = 300
    for _ in range(n_rand):
        h = rng.choice(RAO_HINTS + [rng.uniform(-1.0, 10.0), rng.uniform(0.0, 3.0)])
        rem = rng.choice(RAO_REMAINING + [rng.uniform(0.0, 4.0)])
        j = rng.choice(RAO_JITTERS + [rng.uniform(0.0, 2.0)])
        fb = rng.choice(RAO_FBS + [rng.uniform(-5.0, 50.0)])
        cases.append(mk_rao(j, h, fbx(fb, rng), rem, rand_draw(rng), rng.choice(RAO_STYLES)))
    return cases


AD_TS = [2.0 ** -60, 1e-300, 0.25, 0.3, 0.5, 0.9, 1.0 - 2.0 ** -53, 1.0]
AD_MULT = [(1.0, 5.0), (1.0, 1.0), (2.5, 2.5), (1.5, 1e6), (1.0, 1.0 + 2.0 ** -20), (1.0, 1e300)]
AD_WINDOWS = [1, 2, 64, 3840]   # ticks (1/64 s)


def gen_adaptive_history(rng, window_t, n_ops, mx=5.0):
    ops = []
    t = rng.choice([0, 0, 5, 1000, 10 ** 7])
    p_fail = rng.choice([0.05, 0.1, 0.3, 0.5, 0.9, 1.0])
    for _ in range(n_ops):
        x = rng.random()
        if x < 0.55:
            d = rng.choice([0, 0, 1, 1, 2, max(window_t - 1, 0), window_t, window_t + 1])
            if window_t > 8 and rng.random() < 0.5:
                d = rng.choice([0, 1, window_t // 7, window_t // 3])
        elif x < 0.95:
            d = rng.randint(0, max(1, window_t // 2))
        else:
            d = -rng.randint(1, max(1, window_t))     # clock steps backwards (non-monotone history)
        t = max(0, t + d)
        y = rng.random()
        if y < 0.55:
            ops.append(("f" if rng.random() < p_fail else "s", t))
        elif y < 0.8:
            ops.append(("m", t))
        else:
            ops.append(("c", t, rng.choice([0.0, 0.25, 1.0, 7.5, 30.0, DENORM] + ([1e300] if mx <= 1e6 else []))))
    if not any(o[0] in "mc" for o in ops):
        ops.append(("m", t))
    return ops


def gen_adaptive_cases(tier, rng):
    cases = []
    # corpus: exact window boundaries, empty deque, all failures, all successes, ts == 1, min == max
    W = 64
    corpus_ops = [
        [("m", 0)],
        [("f", 0), ("m", W - 1), ("m", W), ("m", W + 1)],
        [("f", 10), ("s", 10 + W - 1), ("m", 10 + W - 1), ("m", 10 + W), ("m", 10 + 2 * W - 2), ("m", 10 + 2 * W - 1)],
        [("f", 0), ("f", 1), ("f", 2), ("m", 3), ("c", 3, 7.5), ("s", 4), ("m", 4)],
        [("s", 0)] * 9 + [("f", 1), ("m", 2), ("f", 2), ("m", 2), ("c", 2, 1.0)],
        [("f", 50), ("f", 10), ("s", 60), ("m", 74), ("m", 50 + W), ("m", 60 + W)],   # unsorted deque
        [("f", 100), ("m", 100), ("m", 5), ("f", 5), ("m", 5 + W), ("m", 100 + W)],   # clock went backwards
    ]
    for ops in corpus_ops:
        for ts in AD_TS:
            for (mn, mx) in AD_MULT[:4]:
                cases.append(mk_adaptive(W, ts, mn, mx, ops, "ctx"))
    # multiplier pairs whose spread is not exactly representable, with a window holding only failures: the factor
    # min + 1.0 * (max - min) computed in floats can land an ulp ABOVE max; "a factor within [min_multiplier,
    # max_multiplier]" (multiplier queries only: no product with a fallback value, hence no rounding of our own)
    for (mn, mx) in [(1.2, 3.6), (1.4, 5.8), (2.3, 10.9), (1.1, 3.3), (1.7, 2.9)]:
        for ts in AD_TS:
            cases.append(mk_adaptive(W, ts, mn, mx, [("f", 0), ("f", 1), ("f", 2), ("m", 3), ("s", 4), ("m", 5)], "ctx"))
    for (w, ts, mn, mx) in [(0.0, 0.9, 1.0, 5.0), (-1.0, 0.9, 1.0, 5.0), (60.0, 0.0, 1.0, 5.0),
                            (60.0, -0.1, 1.0, 5.0), (60.0, 1.5, 1.0, 5.0), (60.0, 0.9, 0.5, 5.0),
                            (60.0, 0.9, 2.0, 1.0), (60.0, 0.9, 1.0, 5.0), (DENORM, DENORM, 1.0, 1.0),
                            (60.0, 1.0, 1.0, 1.0), (60.0, 0.9, 1.0 - 2.0 ** -53, 5.0)]:
        cases.append(mk_adaptive_invalid(w, ts, mn, mx))
    n_hist = 2000 if tier == "thorough" else 110
    for _ in range(n_hist):
        w = rng.choice(AD_WINDOWS)
        ts = rng.choice(AD_TS + [rng.uniform(0.01, 1.0)])
        mn, mx = rng.choice(AD_MULT)
        if rng.random() < 0.2:
            mn = rng.uniform(1.0, 3.0)
            mx = mn + rng.choice([0.0, rng.uniform(0.0, 10.0)])
        n_ops = rng.choice([3, 8, 20, 40]) if tier == "quick" else rng.choice([3, 8, 20, 40, 80])
        cases.append(mk_adaptive(w, ts, mn, mx, gen_adaptive_history(rng, w, n_ops, mx),
                                 rng.choice(["ctx", "legacy"])))
    return cases


# ----------------------------------------------------------------------------- implementation side

_STRAT_CACHE: dict = {}


def run_impl(c) -> None:
    k = c["kind"]
    if k in ("equal_jitter", "token_backoff"):
        DRAW.u = c["u"]
        maker = S.equal_jitter if k == "equal_jitter" else S.token_backoff
        # ONE strategy object per (kind, base, max) serves all the evaluations of a run, in whatever order the
        # attempts come (a policy reuses its strategy for every operation): the strategies are pure functions of
        # their arguments and the draw, nothing may be remembered between calls
        key = (k, c["base"], c["max"])
        f = _STRAT_CACHE.get(key)
        if f is None:
            f = _STRAT_CACHE[key] = maker(c["base"], c["max"])
        if c["via"] == "normalize":
            g = S._normalize_strategy(f)
            c["impl"] = call(lambda: g(ctx_for(attempt=c["attempt"])))
        else:
            c["impl"] = call(lambda: f(c["attempt"], ErrorClass.TRANSIENT, None))
        gfac = 2.0 if k == "equal_jitter" else 1.5
        try:
            prod = c["base"] * gfac ** c["attempt"]
            c["pow_overflow"] = False
            c["prod_inf"] = prod == INF
        except OverflowError:
            c["pow_overflow"] = True
            c["prod_inf"] = False
    elif k == "decorrelated":
        DRAW.u = c["u"]
        key = ("decorrelated", c["base"], c["max"])
        f = _STRAT_CACHE.get(key)
        if f is None:
            f = _STRAT_CACHE[key] = S.decorrelated_jitter(c["base"], c["max"])
        if c["via"] == "normalize":
            g = S._normalize_strategy(f)
            c["impl"] = call(lambda: g(ctx_for(attempt=3, prev=c["prev"])))
        else:
            c["impl"] = call(lambda: f(3, ErrorClass.TRANSIENT, c["prev"]))
        p_eff = c["prev"] or c["base"]
        c["prev3_overflow"] = (p_eff * 3.0 == INF)
    elif k == "retry_after_or":
        DRAW.u = c["u"]
        fb = c["fb"]
        if isinstance(fb, tuple):
            name, b, m, att, prev = fb
            fbf = {"equal_jitter": S.equal_jitter, "token_backoff": S.token_backoff,
                   "decorrelated": S.decorrelated_jitter}[name](b, m)    # legacy signature
        elif c["style"] == "ctx":
            att, prev = 1, None

            def fbf(ctx, _v=fb):
                return _v
        else:
            att, prev = 1, None

            def fbf(attempt, klass, prev_sleep_s, _v=fb):
                return _v
        made = call(lambda: S.retry_after_or(fbf, jitter_s=c["jitter"]))
        if made[0] == "raise":
            c["impl"] = made
        else:
            ctx = ctx_for(attempt=att, hint=c["hint"], prev=prev, remaining=c["remaining"])
            c["impl"] = call(lambda: made[1](ctx))
    elif k == "adaptive_ctor":
        c["impl"] = call(lambda: S.adaptive(lambda ctx: 1.0, window_s=c["window_s"],
                                            target_success=c["ts"], min_multiplier=c["min"],
                                            max_multiplier=c["max"]))
    elif k == "adaptive":
        run_adaptive_impl(c)
    else:
        raise AssertionError(k)


def run_adaptive_impl(c) -> None:
    clock = VClock(0)
    cell = {"fb": 0.0}
    if c["style"] == "ctx":
        def fbf(ctx):
            return cell["fb"]
    else:
        def fbf(attempt, klass, prev_sleep_s):
            return cell["fb"]
    made = call(lambda: S.adaptive(fbf, window_s=c["window_t"] * TICK, target_success=c["ts"],
                                   min_multiplier=c["min"], max_multiplier=c["max"],
                                   clock=clock.read))
    c["ctor"] = made
    outs = []           # per m/c op: ("ok", value) | ("raise", ..)
    ties = []           # per m/c op: True if float(failures/total) vs tf compares differently from exact
    stats = {"head_eq_cutoff": 0, "head_eq_cutoff_plus_1": 0, "nonempty_queries": 0,
             "empty_queries": 0, "backwards": 0}
    c["outs"], c["ties"], c["stats"] = outs, ties, stats
    if made[0] == "raise":
        return
    strat = made[1]
    tf_float = 1.0 - c["ts"]
    last_t = 0
    for op in c["ops"]:
        t = op[1]
        if t < last_t:
            stats["backwards"] += 1
        last_t = t
        clock.ticks = t
        if strat._events:
            head = round(strat._events[0][0] / TICK)
            if head == t - c["window_t"]:
                stats["head_eq_cutoff"] += 1
            elif head == t - c["window_t"] + 1:
                stats["head_eq_cutoff_plus_1"] += 1
        if op[0] == "s":
            res = call(strat.record_success)
            if res[0] == "raise":
                outs.append(res)
                return
        elif op[0] == "f":
            res = call(lambda: strat.record_failure(ErrorClass.TRANSIENT))
            if res[0] == "raise":
                outs.append(res)
                return
        else:
            if op[0] == "m":
                res = call(strat._multiplier)
            else:
                cell["fb"] = op[2]
                res = call(lambda: strat(ctx_for(attempt=2)))
            outs.append(res)
            ev = list(strat._events)
            total = len(ev)
            if total:
                stats["nonempty_queries"] += 1
                fails = sum(1 for _, s in ev if not s)
                ties.append((Fraction(fails, total) <= Fraction(tf_float)) != (fails / total <= tf_float))
            else:
                stats["empty_queries"] += 1
                ties.append(False)


# ----------------------------------------------------------------------------- driver lines

def impl_tok(c) -> str:
    st, v = c["impl"]
    if st == "ok" and is_num(v):
        return q(v)
    return "nan"     # raised / not a number: certainly outside every envelope


def lines_for(c) -> list[str]:
    k = c["kind"]
    if k in ("equal_jitter", "token_backoff"):
        g = "2" if k == "equal_jitter" else "3/2"
        b, m, a = q(c["base"]), q(c["max"]), c["attempt"]
        ls = [f"{k} {b} {m} {a} {q(c['u'])}",
              f"cap {b} {m} {g} {a}",
              f"check_{k} {b} {m} {a} {REL_S} {EPS_S} {impl_tok(c)}"]
        if c["pow_overflow"] and c["base"] > 0:
            ls.append(f"check_{k} {b} {m} {a} {REL_S} {EPS_S} {impl_tok(c)} sat")
        return ls
    if k == "decorrelated":
        b, m = q(c["base"]), q(c["max"])
        p = c["prev"]
        ptok = "none" if p is None else ("0" if p == INF else q(p))   # inf: float-only, value unused
        return [f"decorrelated {b} {m} {ptok} {q(c['u'])}",
                f"check_decorrelated {m} {REL_S} {EPS_S} {impl_tok(c)}"]
    if k == "retry_after_or":
        fb = c["fb"]
        if isinstance(fb, tuple):
            name, b, m, att, prev = fb
            fbt = f"{name}:{q(b)}:{q(m)}:{att if name != 'decorrelated' else qo(prev)}"
        else:
            fbt = q(fb)
        ls = [f"retry_after_or {q(c['jitter'])} {qo(c['hint'])} {fbt} {qo(c['remaining'])} {q(c['u'])}",
              f"check_retry_after_or {qo(c['remaining'])} {impl_tok(c)}"]
        if c["hint"] is not None and finite(c["hint"]):
            ls.append(f"check_hint {q(c['jitter'])} {q(c['hint'])} {qo(c['remaining'])} {REL_S} {EPS_S} {impl_tok(c)}")
        return ls
    if k == "adaptive_ctor":
        return [f"adaptive {q(c['window_s'])} {q(c['ts'])} {q(c['min'])} {q(c['max'])} exact | m@0"]
    if k == "adaptive":
        tf_float = 1.0 - c["ts"]
        exact = Fraction(tf_float) == 1 - Fraction(c["ts"])
        c["tf_exact"] = exact
        ops = []
        for op in c["ops"]:
            t = q(op[1] * TICK)
            ops.append(f"{op[0]}@{t}" if op[0] != "c" else f"c@{t}@{q(op[2])}")
        ls = [f"adaptive {q(c['window_t'] * TICK)} {q(c['ts'])} {q(c['min'])} {q(c['max'])} "
              f"{'exact' if exact else q(tf_float)} | {' '.join(ops)}"]
        qops = [op for op in c["ops"] if op[0] in "mc"]
        for op, res in zip(qops, c["outs"]):
            tok = q(res[1]) if res[0] == "ok" and is_num(res[1]) else "nan"
            if op[0] == "m":
                # the factor itself (no product, no rounding of a scaled value): exactly within [min, max]
                ls.append(f"check_multiplier {q(c['min'])} {q(c['max'])} 0 {tok}")
            else:
                ls.append(f"check_adaptive {q(op[2])} {q(c['min'])} {q(c['max'])} {REL_S} {EPS_S} {tok}")
        return ls
    raise AssertionError(k)


# ----------------------------------------------------------------------------- judging

def describe(c) -> dict:
    d = {}
    for key, v in c.items():
        if key in ("key", "impl", "outs", "ties", "stats", "ctor", "lines", "answers"):
            continue
        d[key] = v if isinstance(v, (int, str, bool)) or v is None else r(v)
    return d


def py_repro(c) -> str:
    k = c["kind"]
    if k in ("equal_jitter", "token_backoff"):
        return (f"redress.strategies.random.uniform := lambda a,b: a+(b-a)*{r(c['u'])}; "
                f"{k}({r(c['base'])}, {r(c['max'])})({c['attempt']}, ErrorClass.TRANSIENT, None) [{c['via']}]")
    if k == "decorrelated":
        return (f"uniform := lambda a,b: a+(b-a)*{r(c['u'])}; "
                f"decorrelated_jitter({r(c['base'])}, {r(c['max'])})(3, ErrorClass.TRANSIENT, {r(c['prev'])}) [{c['via']}]")
    if k == "retry_after_or":
        return (f"uniform := lambda a,b: a+(b-a)*{r(c['u'])}; retry_after_or(<{c['style']} fallback returning "
                f"{r(c['fb'])}>, jitter_s={r(c['jitter'])})(ctx: retry_after_s={r(c['hint'])}, "
                f"remaining_s={r(c['remaining'])})")
    if k == "adaptive_ctor":
        return (f"adaptive(fb, window_s={r(c['window_s'])}, target_success={r(c['ts'])}, "
                f"min_multiplier={r(c['min'])}, max_multiplier={r(c['max'])})")
    return (f"adaptive(<{c['style']} fb>, window_s={c['window_t']}*2**-6, target_success={r(c['ts'])}, "
            f"min_multiplier={r(c['min'])}, max_multiplier={r(c['max'])}, clock=virtual); ops (kind, tick[, fb]) = {c['ops']}")


def fail(c, prop, kind, sig, detail) -> dict:
    return {"property": prop, "kind": kind, "sig": sig,
            "detail": f"{detail}; input={json.dumps(describe(c))}",
            "replay": "driver strategies <<EOF\n" + "\n".join(c["lines"]) + "\nEOF\n# model/spec answered: "
                      + " ; ".join(c["answers"]) + "\n# python: " + py_repro(c) + f"\n# implementation: {c.get('impl', c.get('outs'))!r}",
            "_size": size_of(c)}


def size_of(c) -> float:
    if c["kind"] == "adaptive":
        return len(c["ops"])
    return float(c.get("attempt", 0))


def judge(c, dist, observations) -> list[dict]:
    k = c["kind"]
    ans = c["answers"]
    out = []
    if any(a == "bad-op" for a in ans):
        return [fail(c, "C18", "divergence", f"C18/{k}/driver-bad-op", "driver rejected a line")]
    if k in ("equal_jitter", "token_backoff"):
        st, v = c["impl"]
        if st == "raise":
            return [fail(c, "C18", "violation", f"C18/{k}/raises/{v.split(':')[0]}", f"implementation raised {v}")]
        model, capm = parse_rat(ans[0]), parse_rat(ans[1])
        plain_ok = ans[2] == "ok"
        exotic = False
        if c["pow_overflow"] and c["base"] > 0:
            dist["overflow"]["pow_overflow(_grow saturates)"] += 1
            if capm != frac(c["max"]):
                # g**attempt overflowed although base*g^attempt < max_s in exact arithmetic:
                # _grow returns inf, the implementation's cap is max_s.
                exotic = True
                dist["overflow"]["pow_overflow_but_exact_product_below_max"] += 1
                if len(observations) < 5:
                    observations.append({"what": "cap saturates to max_s because g**attempt overflows, although "
                                                 "base_s*g^attempt < max_s in exact arithmetic",
                                         "input": describe(c), "exact_cap": float(capm), "implementation": r(v)})
                env_ok = ans[3] == "ok"
            else:
                env_ok = plain_ok
        else:
            env_ok = plain_ok
        if c["prod_inf"]:
            dist["overflow"]["product_inf_without_raise"] += 1
        if not env_ok:
            return [fail(c, "C18", "violation", f"C18/{k}/outside-envelope",
                         f"implementation returned {r(v)}, Lean envelope check says `{ans[3] if exotic else ans[2]}` "
                         f"(exact cap={float(capm)!r})")]
        if not exotic and not close(frac(v), model, capm):
            out.append(fail(c, "C18", "divergence", f"C18/{k}/value-mismatch",
                            f"implementation {r(v)} vs model {float(model)!r} (cap={float(capm)!r})"))
        if 0 < v < 2.3e-308:
            dist["overflow"]["subnormal_result"] += 1
        return out
    if k == "decorrelated":
        st, v = c["impl"]
        if st == "raise":
            return [fail(c, "C18", "violation", f"C18/{k}/raises/{v.split(':')[0]}", f"implementation raised {v}")]
        if ans[1] != "ok":
            return [fail(c, "C18", "violation", f"C18/{k}/outside-envelope",
                         f"implementation returned {r(v)}, Lean envelope check says `{ans[1]}`")]
        if c["prev3_overflow"]:
            dist["overflow"]["prev*3_overflows(envelope only)"] += 1
            return out
        model = parse_rat(ans[0])
        p_eff = c["prev"] or c["base"]
        scale = max(frac(c["base"]), 3 * frac(p_eff))
        if not close(frac(v), model, scale):
            out.append(fail(c, "C18", "divergence", f"C18/{k}/value-mismatch",
                            f"implementation {r(v)} vs model {float(model)!r}"))
        return out
    if k == "retry_after_or":
        st, v = c["impl"]
        if st == "raise":
            return [fail(c, "C18", "violation", f"C18/{k}/raises/{v.split(':')[0]}", f"implementation raised {v}")]
        if ans[1] != "ok":
            return [fail(c, "C18", "violation", f"C18/{k}/not-finite-nonneg-within-remaining",
                         f"implementation returned {r(v)}, Lean envelope check says `{ans[1]}`")]
        if len(ans) > 2 and ans[2] != "ok":
            return [fail(c, "C20", "violation", "C20/hint-not-honoured",
                         f"implementation returned {r(v)} for hint {r(c['hint'])}, Lean envelope check says `{ans[2]}`")]
        model = parse_rat(ans[0])
        fb = c["fb"]
        if isinstance(fb, tuple) and fb[0] == "decorrelated":
            scale = Fraction(3 * 30)
        else:
            scale = Fraction(0)
        if not close(frac(v), model, scale):
            out.append(fail(c, "C18", "divergence", f"C18/{k}/value-mismatch",
                            f"implementation {r(v)} vs model {float(model)!r}"))
        return out
    if k == "adaptive_ctor":
        st, v = c["impl"]
        impl_rejects = st == "raise" and v.startswith("ValueError")
        if st == "raise" and not impl_rejects:
            return [fail(c, "C18", "violation", "C18/adaptive/ctor-raises-unexpected", f"adaptive() raised {v}")]
        model_rejects = ans[0] == "ValueError"
        dist["adaptive"]["ctor_rejected" if impl_rejects else "ctor_accepted"] += 1
        if impl_rejects != model_rejects:
            out.append(fail(c, "C18", "divergence", "C18/adaptive/ctor-validation",
                            f"implementation rejects={impl_rejects}, model rejects={model_rejects}"))
        return out
    if k == "adaptive":
        if c["ctor"][0] == "raise":
            return [fail(c, "C18", "violation", "C18/adaptive/ctor-raises", f"adaptive() raised {c['ctor'][1]}")]
        if not ans[0].startswith("ok"):
            return [fail(c, "C18", "divergence", "C18/adaptive/ctor-validation", f"model says {ans[0]}")]
        model_vals = [parse_rat(t) for t in ans[0].split()[1:]]
        qops = [op for op in c["ops"] if op[0] in "mc"]
        for i, (op, res) in enumerate(zip(qops, c["outs"])):
            if res[0] == "raise":
                return [fail(c, "C18", "violation", f"C18/adaptive/raises/{res[1].split(':')[0]}",
                             f"op #{i} {op} raised {res[1]}")]
            v = res[1]
            if ans[1 + i] != "ok":
                sig = "multiplier-out-of-range" if op[0] == "m" else "scaled-value-out-of-range"
                return [fail(c, "C18", "violation", f"C18/adaptive/{sig}",
                             f"op #{i} {op}: implementation returned {r(v)}, Lean envelope check says `{ans[1 + i]}`")]
            if c["ties"][i]:
                dist["adaptive"]["rounding_tie(envelope only)"] += 1
                continue
            scale = frac(c["max"]) * (frac(op[2]) if op[0] == "c" else 1)
            if not close(frac(v), model_vals[i], scale):
                out.append(fail(c, "C18", "divergence", "C18/adaptive/value-mismatch",
                                f"op #{i} {op}: implementation {r(v)} vs model {float(model_vals[i])!r}"))
                break
        if len(c["outs"]) != len(qops):
            out.append(fail(c, "C18", "violation", "C18/adaptive/raises/record",
                            f"record_* raised: {c['outs'][-1] if c['outs'] else None}"))
        return out
    raise AssertionError(k)


# ----------------------------------------------------------------------------- evaluation / shrinking

def evaluate(cases) -> None:
    """Run implementation and driver on `cases`; fills impl / lines / answers."""
    saved = S.random
    S.random = Shim(uniform=DRAW.uniform, random=DRAW.random)
    try:
        for c in cases:
            run_impl(c)
    finally:
        S.random = saved
    text = []
    for c in cases:
        c["lines"] = lines_for(c)
        text.extend(c["lines"])
    out = run_driver("strategies", "\n".join(text) + "\n").splitlines()
    out = [ln for ln in out if not ln.startswith("#")]
    if len(out) != len(text):
        raise RuntimeError(f"driver answered {len(out)} lines for {len(text)} requests")
    i = 0
    for c in cases:
        n = len(c["lines"])
        c["answers"] = out[i:i + n]
        i += n


def shrink_adaptive(c, sig) -> dict:
    """Greedy removal of ops while the same signature keeps failing (bounded)."""
    best = c
    budget = 80
    changed = True
    while changed and budget > 0:
        changed = False
        ops = best["ops"]
        for i in range(len(ops)):
            if budget <= 0:
                break
            cand_ops = ops[:i] + ops[i + 1:]
            if not any(o[0] in "mc" for o in cand_ops):
                continue
            cand = mk_adaptive(best["window_t"], best["ts"], best["min"], best["max"], cand_ops, best["style"])
            budget -= 1
            try:
                evaluate([cand])
                fs = judge(cand, new_dist(), [])
            except Exception:  # noqa: BLE001
                continue
            if any(f["sig"] == sig for f in fs):
                best = cand
                changed = True
                break
    return best


def new_dist() -> dict:
    from collections import Counter
    return {"strategy": Counter(), "attempt_bucket": Counter(), "draw": Counter(), "overflow": Counter(),
            "param_class": Counter(), "prev": Counter(), "adaptive": Counter(), "retry_after_or": Counter(),
            "via": Counter()}


def classify_param(x: float) -> str:
    if x == 0:
        return "0"
    if x < 2.3e-308:
        return "subnormal"
    if x < 1e-6:
        return "tiny"
    if x >= 1e299:
        return "huge"
    return "typical"


def record_distribution(c, dist) -> None:
    k = c["kind"]
    if k in ("equal_jitter", "token_backoff"):
        dist["strategy"][k] += 1
        dist["attempt_bucket"][f"{k}:{bucket(c['attempt'])}"] += 1
        dist["draw"][draw_name(c["u"])] += 1
        dist["param_class"]["base=" + classify_param(c["base"])] += 1
        dist["param_class"]["max=" + classify_param(c["max"])] += 1
        if c["base"] == c["max"]:
            dist["param_class"]["base==max"] += 1
        dist["via"][c["via"]] += 1
    elif k == "decorrelated":
        dist["strategy"][k] += 1
        dist["draw"][draw_name(c["u"])] += 1
        p = c["prev"]
        dist["prev"]["None" if p is None else ("0.0" if p == 0 else ("inf" if p == INF else
                     ("<base/3" if p * 3.0 < c["base"] else "normal")))] += 1
        dist["param_class"]["base=" + classify_param(c["base"])] += 1
        dist["param_class"]["max=" + classify_param(c["max"])] += 1
        if c["base"] == c["max"]:
            dist["param_class"]["base==max"] += 1
        dist["via"][c["via"]] += 1
    elif k == "retry_after_or":
        dist["strategy"][k] += 1
        h = c["hint"]
        hn = ("None" if h is None else "nan" if h != h else "+inf" if h == INF else "-inf" if h == -INF
              else "negative" if h < 0 else "0" if h == 0 else
              ">remaining" if (c["remaining"] is not None and h > c["remaining"]) else "finite>0")
        dist["retry_after_or"]["hint=" + hn] += 1
        fb = c["fb"]
        fn = (fb[0] if isinstance(fb, tuple) else "nan" if fb != fb else "+inf" if fb == INF else "-inf"
              if fb == -INF else "negative" if fb < 0 else "finite>=0")
        dist["retry_after_or"]["fallback=" + fn] += 1
        rem = c["remaining"]
        dist["retry_after_or"]["remaining=" + ("None" if rem is None else "0" if rem == 0 else "positive")] += 1
        j = c["jitter"]
        dist["retry_after_or"]["jitter=" + ("0" if j == 0 else "negative" if j < 0 else "positive")] += 1
        dist["retry_after_or"]["style=" + c["style"]] += 1
        dist["draw"][draw_name(c["u"])] += 1
    elif k == "adaptive":
        n = sum(1 for o in c["ops"] if o[0] in "mc")
        dist["strategy"]["adaptive(query/call ops)"] += n
        dist["adaptive"]["histories"] += 1
        dist["adaptive"]["record ops"] += sum(1 for o in c["ops"] if o[0] in "sf")
        for key, v in c["stats"].items():
            dist["adaptive"][key] += v
        dist["adaptive"]["tf_exact" if c.get("tf_exact") else "tf_float_rounded(override)"] += 1
        ts = c["ts"]
        dist["adaptive"]["ts=" + ("1.0" if ts == 1.0 else "tiny" if ts < 1e-9 else "0.5" if ts == 0.5 else
                                  "0.9" if ts == 0.9 else "other")] += 1
        if c["min"] == c["max"]:
            dist["adaptive"]["min==max"] += 1
        dist["adaptive"]["style=" + c["style"]] += 1
    elif k == "adaptive_ctor":
        dist["strategy"]["adaptive(ctor validation)"] += 1


def nontrivial(c) -> int:
    k = c["kind"]
    if k in ("equal_jitter", "token_backoff", "decorrelated"):
        return 1 if c["base"] > 0 else 0
    if k == "retry_after_or":
        return 0 if (c["hint"] is None and c["fb"] == 0.0) else 1
    if k == "adaptive":
        return c["stats"]["nonempty_queries"]
    return 1


def evaluations(c) -> int:
    if c["kind"] == "adaptive":
        return len(c["outs"])
    return 1


def run(tier: str, seed: int) -> dict:
    assert tier in ("quick", "thorough")
    t0 = wall()
    rng = _random.Random(seed)
    cases = (gen_jitter_cases(tier, rng) + gen_decor_cases(tier, rng) + gen_rao_cases(tier, rng)
             + gen_adaptive_cases(tier, rng))
    # de-duplicate, corpus order preserved
    seen = set()
    uniq = []
    for c in cases:
        if c["key"] in seen:
            continue
        seen.add(c["key"])
        uniq.append(c)
    cases = uniq
    evaluate(cases)

    dist = new_dist()
    observations: list[dict] = []
    failures: list[dict] = []
    n_eval = 0
    n_nontrivial = 0
    for c in cases:
        record_distribution(c, dist)
        n_eval += evaluations(c)
        n_nontrivial += nontrivial(c)
        fs = judge(c, dist, observations)
        for f in fs:
            f["_case"] = c
        failures.extend(fs)

    # keep the smallest few per signature; shrink adaptive histories
    by_sig: dict[str, list[dict]] = {}
    for f in failures:
        by_sig.setdefault(f["sig"], []).append(f)
    reported = []
    for sig in sorted(by_sig):
        fs = sorted(by_sig[sig], key=lambda f: f["_size"])[:3]
        for f in fs:
            c = f["_case"]
            if c["kind"] == "adaptive" and len(c["ops"]) > 1:
                small = shrink_adaptive(c, sig)
                if small is not c:
                    again = [g for g in judge(small, new_dist(), []) if g["sig"] == sig]
                    if again:
                        again[0]["count_with_this_sig"] = len(by_sig[sig])
                        again[0].pop("_size", None)
                        reported.append(again[0])
                        continue
            f = dict(f)
            f.pop("_case", None)
            f.pop("_size", None)
            f["count_with_this_sig"] = len(by_sig[sig])
            reported.append(f)

    samples = []
    step = max(1, len(cases) // 8)
    for c in cases[::step][:8]:
        samples.append({"input": describe(c), "driver_lines": [ln[:240] for ln in c["lines"][:3]],
                        "model_answers": [a[:240] for a in c["answers"][:3]],
                        "implementation": r(c.get("impl", c.get("outs", [])[:3]))})

    return {
        "family": "strategies",
        "evaluations": n_eval,
        "distinct_nontrivial": n_nontrivial,
        "rule": ("one evaluation = one call of a real strategy function (or one _multiplier()/__call__ of an "
                 "AdaptiveStrategy along a history) compared with the Lean model's rational value and checked "
                 "against the Lean envelope predicate; cases are distinct by (strategy, parameters, attempt, prev, "
                 "draw, call path) resp. (parameters, full op history); non-trivial = base_s > 0 for the jitter "
                 "strategies, a non-empty event window at the query for adaptive, anything but (no hint, fallback "
                 "0.0) for retry_after_or.  Corpus (every attempt 1..70 and 1023,1024,1025,1750,1751,5000,10^6; "
                 "parameters 0 / 5e-324 / tiny / typical / 1e300 / base==max; draws 0, 1/2, 2^-53, 1-2^-53, 1; "
                 "window-boundary histories) runs first, then seeded random generation."),
        "samples": samples,
        "distribution": {k: dict(sorted(v.items())) for k, v in dist.items()},
        "observations": observations,
        "exhaustive": False,
        "failures": reported,
        "cases": len(cases),
        "driver_lines": sum(len(c["lines"]) for c in cases),
        "seconds": round(wall() - t0, 2),
    }


if __name__ == "__main__":
    tier_ = sys.argv[1] if len(sys.argv) > 1 else "quick"
    seed_ = int(sys.argv[2]) if len(sys.argv) > 2 else 0
    print(json.dumps(run(tier_, seed_), indent=1, default=str))
