"""Family `interleave`: several concurrently running async policy calls on ONE circuit breaker.

Coroutines are driven by hand (`coro.send/throw/close`), so every interleaving of the calls'
admission (`allow`) and settlement (`record_*`) steps can be scheduled deterministically, including
cancellation delivered at a suspension point.  The caller-labelled history recorded from the real
`AsyncPolicy` is replayed through `Redress.Breaker.gstep` by `driver probes`, which also evaluates
`disciplined` / `noStale` (C07's `single_outstanding_probe_partial` is proved under exactly these).

  C07  at most one outstanding probe; admission decisions and breaker state agree with the model
  C08  every admitted call has settled by the time its coroutine ends
  C09  … exactly once
"""
from __future__ import annotations

import asyncio
import json
import random
import sys
from collections import Counter

from ..common import TICK, VClock, ensure_repo_on_path, run_driver, wall

ensure_repo_on_path()

from redress import AsyncPolicy, AsyncRetry, CircuitBreaker  # noqa: E402
from redress.errors import AbortRetryError, CircuitOpenError, ErrorClass  # noqa: E402
import redress.policy.execution as _execution_mod  # noqa: E402
import redress.policy.state as _state_mod  # noqa: E402
import redress.policy.retry_helpers as _helpers_mod  # noqa: E402
from ..common import Shim  # noqa: E402


class Suspend:
    def __await__(self):
        r = yield self
        return r


OUTCOMES = ["ok", "fail_transient", "fail_unknown", "cancel", "close", "kbd", "abort", "nested_open"]


def make_exc(kind: str) -> BaseException:
    return {"fail_transient": TimeoutError("t"), "fail_unknown": ValueError("u"),
            "cancel": asyncio.CancelledError(), "kbd": KeyboardInterrupt(),
            "abort": AbortRetryError(), "nested_open": CircuitOpenError("open")}[kind]


class World:
    def __init__(self, cfg: dict) -> None:
        self.cfg = cfg
        self.clock = VClock(0)
        self.current = -1
        self.hist: list[tuple] = []          # ("call", id, now, admitted, state) | ("settle", id, how, state)
        mono = Shim(monotonic=self.clock.read, time=self.clock.read, sleep=lambda d: None)
        for mod in (_state_mod, _execution_mod, _helpers_mod):
            mod.time = mono
        w = self

        class LB(CircuitBreaker):
            def allow(self):
                d = super().allow()
                w.hist.append(("call", w.current, w.clock.ticks, d.allowed, self._state.value))
                return d

            def record_success(self):
                ev = super().record_success()
                w.hist.append(("settle", w.current, "success", self._state.value))
                return ev

            def record_failure(self, klass):
                ev = super().record_failure(klass)
                w.hist.append(("settle", w.current, f"failure:{klass.name}:{w.clock.ticks}", self._state.value))
                return ev

            def record_cancel(self):
                super().record_cancel()
                w.hist.append(("settle", w.current, "cancel", self._state.value))

        self.breaker = LB(failure_threshold=cfg["threshold"], window_s=cfg["window"] * TICK,
                          recovery_timeout_s=cfg["recovery"] * TICK,
                          trip_on={ErrorClass[k] for k in cfg["trip"]}, clock=self.clock.read)
        retry = None
        if cfg["retry"]:
            retry = AsyncRetry(classifier=lambda e: ErrorClass.TRANSIENT if isinstance(e, TimeoutError) else ErrorClass.UNKNOWN,
                               strategy=lambda ctx: 0.0, max_attempts=cfg["retry"], deadline_s=1e6,
                               max_unknown_attempts=None, sleeper=lambda d: None)
        self.policy = AsyncPolicy(retry=retry, circuit_breaker=self.breaker)
        self.foreign: list = []       # (call being driven, call whose operation was invoked instead)
        self.ctx_call = None          # one shared `async with policy.context(...) as call:` object

    def new_call(self, cid: int, entry: str, abort_flag: list):
        w = self

        async def op():
            if w.current != cid:      # C12: a call made through a shared context runs ITS OWN operation
                w.foreign.append((w.current, cid))
            r = await Suspend()
            if isinstance(r, BaseException):
                raise r
            return r
        kw = {"abort_if": (lambda: abort_flag[0])} if self.cfg["abort_if"] else {}
        if entry == "call" and self.cfg.get("shared_context"):
            if self.ctx_call is None:
                self.ctx_call = self.policy.context(**kw).call     # what `async with … as call` yields
            return self.ctx_call(op)
        return (self.policy.call if entry == "call" else self.policy.execute)(op, **kw)


def play(cfg: dict, schedule: list) -> dict:
    """schedule: ("start", id, entry) | ("resume", id, outcome) | ("advance", d) | ("abort_on",)"""
    w = World(cfg)
    coros: dict[int, object] = {}
    state: dict[int, str] = {}     # suspended | done:<how>
    abort_flag = [False]
    for st in schedule:
        if st[0] == "advance":
            w.clock.advance(st[1])
        elif st[0] == "abort_on":
            abort_flag[0] = True
        elif st[0] == "start":
            _, cid, entry = st
            if cid in coros:
                continue
            c = w.new_call(cid, entry, abort_flag)
            coros[cid] = c
            w.current = cid
            try:
                c.send(None)
                state[cid] = "suspended"
            except StopIteration:
                state[cid] = "done:return"
            except BaseException as e:  # noqa: BLE001
                state[cid] = "done:" + type(e).__name__
        elif st[0] == "resume":
            _, cid, outcome = st
            if state.get(cid) != "suspended":
                continue
            c = coros[cid]
            w.current = cid
            try:
                if outcome == "close":
                    c.close()
                    state[cid] = "done:closed"
                    continue
                if outcome == "ok":
                    c.send("value")
                elif outcome in ("cancel", "kbd"):
                    c.throw(make_exc(outcome))
                else:
                    c.send(make_exc(outcome))
                state[cid] = "suspended"      # a retry re-entered the operation
            except StopIteration:
                state[cid] = "done:return"
            except BaseException as e:  # noqa: BLE001
                state[cid] = "done:" + type(e).__name__
    for cid, c in coros.items():               # do not leave coroutines dangling
        if state.get(cid) == "suspended":
            w.current = cid
            try:
                c.close()
            except BaseException:  # noqa: BLE001
                pass
            state[cid] = "done:closed-at-end"
    return {"hist": w.hist, "state": state, "foreign": w.foreign}


def judge(cfg: dict, schedule: list, res: dict) -> tuple[str, list[dict], dict]:
    """Build driver lines, return (text, failures placeholder filled later, info)."""
    trip = "+".join(cfg["trip"]) or "-"
    lines = [f"cfg {cfg['threshold']} {cfg['window']} {cfg['recovery']} {trip} -"]
    for h in res["hist"]:
        if h[0] == "call":
            lines.append(f"call {h[1]} {h[2]}")
        else:
            lines.append(f"settle {h[1]} {h[2]}")
    lines.append("end")
    return "\n".join(lines) + "\n", [], {}


def analyse(cfg: dict, schedule: list, res: dict, out_lines: list[str]) -> list[dict]:
    fails: list[dict] = []
    hist = res["hist"]
    replay = json.dumps({"cfg": cfg, "schedule": schedule})
    outs = out_lines[1:]     # first is `ok`
    settles: Counter = Counter()
    admitted: set = set()
    for h, o in zip(hist, outs):
        t = dict(x.split("=") for x in o.split()[2:]) if not o.startswith("end") else {}
        if h[0] == "call":
            if (t.get("admitted") == "1") != bool(h[3]) or t.get("state") != h[4]:
                fails.append({"property": "C07", "kind": "divergence", "sig": "interleave/admission",
                              "detail": f"impl {h} vs model `{o}`", "replay": replay})
                # C08: "once recovery_timeout_s has elapsed with no call outstanding, the next call is admitted" —
                # the model (whose admissions are C06/C07's theorems) admits this call, every caller admitted so far
                # has reported back, and the implementation refuses it
                if t.get("admitted") == "1" and not h[3] and all(settles[c] > 0 for c in admitted):
                    fails.append({"property": "C08", "kind": "violation", "sig": "C08/not-admitted-with-nothing-outstanding",
                                  "detail": f"no admitted call is outstanding and the recovery timeout has elapsed (the model "
                                            f"admits: `{o}`), yet caller {h[1]} is rejected: impl {h}", "replay": replay})
            if h[3]:
                admitted.add(h[1])
        else:
            settles[h[1]] += 1
            if t.get("state") != h[3]:
                fails.append({"property": "C07", "kind": "divergence", "sig": "interleave/state",
                              "detail": f"impl {h} vs model `{o}`", "replay": replay})
            if t.get("stale") == "1" and t.get("known") == "1":
                fails.append({"property": "C07", "kind": "violation", "sig": "C07/stale-completion",
                              "detail": f"caller {h[1]}, admitted before the circuit last opened, recorded `{h[2]}` "
                                        f"while HALF_OPEN: the probe slot / circuit state changes although the real "
                                        f"probe is still outstanding", "replay": replay})
            if t.get("known") == "0":
                fails.append({"property": "C07", "kind": "violation", "sig": "C07/settle-without-admission",
                              "detail": f"caller {h[1]} recorded `{h[2]}` without having been admitted "
                                        f"(clears somebody else's probe)", "replay": replay})
    end = dict(x.split("=") for x in outs[len(hist)].split()[1:])
    if int(end["maxProbes"]) >= 2:
        stale = end["noStale"] == "0"
        fails.append({"property": "C07", "kind": "violation",
                      "sig": "C07/stale-completion" if stale else "C07/two-probes",
                      "detail": f"{end['maxProbes']} probes outstanding at once (noStale={end['noStale']}, "
                                f"disciplined={end['disciplined']})", "replay": replay})
    for cid in admitted:
        how = res["state"].get(cid, "?")
        if not how.startswith("done"):
            continue
        if settles[cid] == 0:
            fails.append({"property": "C08", "kind": "violation", "sig": f"C08/unsettled/{how}",
                          "detail": f"admitted caller {cid} ended ({how}) without any record_*", "replay": replay})
        elif settles[cid] > 1:
            fails.append({"property": "C09", "kind": "violation", "sig": f"C09/records={settles[cid]}/{how}",
                          "detail": f"admitted caller {cid} ended ({how}) with {settles[cid]} records", "replay": replay})
    return fails


F7_WITNESS = ({"threshold": 1, "window": 10, "recovery": 5, "trip": ["TRANSIENT"], "retry": 0, "abort_if": False},
              [("start", 1, "call"), ("start", 2, "call"), ("advance", 1), ("resume", 2, "fail_transient"),
               ("advance", 5), ("start", 3, "call"), ("resume", 1, "cancel"), ("start", 4, "call"),
               ("resume", 3, "ok"), ("resume", 4, "ok")])
F6_WITNESS = ({"threshold": 1, "window": 10, "recovery": 5, "trip": ["TRANSIENT"], "retry": 0, "abort_if": True},
              [("start", 1, "call"), ("advance", 1), ("resume", 1, "fail_transient"), ("advance", 5),
               ("start", 2, "call"), ("abort_on",), ("start", 3, "call"), ("start", 4, "execute"),
               ("resume", 2, "ok")])


# a call admitted BEFORE the circuit opened reports its failure while the circuit is already OPEN: the recovery
# timeout still counts from the moment the circuit opened, so the call made exactly `recovery` later (nothing
# outstanding) is the probe (C07 admission; C08 "once recovery_timeout_s has elapsed with no call outstanding,
# the next call is admitted")
def _late_failure_witnesses() -> list:
    out = []
    for entry in ("call", "execute"):
        for late in ("fail_transient", "cancel", "ok"):
            for gap in (1, 4):
                cfg = {"threshold": 1, "window": 10, "recovery": 5, "trip": ["TRANSIENT"], "retry": 0, "abort_if": False}
                out.append((cfg, [("start", 1, entry), ("start", 2, entry), ("advance", 1), ("resume", 2, "fail_transient"),
                                  ("advance", gap), ("resume", 1, late), ("advance", 5 - gap), ("start", 3, entry),
                                  ("resume", 3, "ok")]))
    return out


def gen(rng: random.Random) -> tuple[dict, list]:
    cfg = {"threshold": rng.choice([1, 1, 2]), "window": rng.choice([3, 10]), "recovery": rng.choice([2, 5]),
           "trip": rng.choice([["TRANSIENT"], ["TRANSIENT", "UNKNOWN"]]), "retry": rng.choice([0, 0, 1, 2]),
           "abort_if": rng.random() < 0.3}
    if rng.random() < 0.3:
        cfg["shared_context"] = True      # after the other draws, so that older seeds keep their cases
        cfg["retry"] = max(cfg["retry"], 1)
    n = rng.choice([2, 3, 4])
    sched: list = []
    started: list[int] = []
    nxt = 1
    for _ in range(rng.randrange(4, 14)):
        r = rng.random()
        if r < 0.35 and nxt <= n + 2:
            sched.append(("start", nxt, rng.choice(["call", "execute"])))
            started.append(nxt)
            nxt += 1
        elif r < 0.75 and started:
            sched.append(("resume", rng.choice(started), rng.choices(OUTCOMES, [4, 4, 1, 1, 1, 0.5, 1, 0.5])[0]))
        elif r < 0.95:
            sched.append(("advance", rng.choice([0, 1, cfg["recovery"] - 1, cfg["recovery"], cfg["recovery"] + 1])))
        else:
            sched.append(("abort_on",))
    return cfg, sched


def run(tier: str, seed: int) -> dict:
    t0 = wall()
    rng = random.Random(seed * 31 + 5)
    cases = [F7_WITNESS, F6_WITNESS] + _late_failure_witnesses()
    n = 1500 if tier == "quick" else 30000
    cases += [gen(rng) for _ in range(n)]
    results = [play(cfg, sched) for cfg, sched in cases]
    text = "".join(judge(cfg, sched, res)[0] for (cfg, sched), res in zip(cases, results))
    out = run_driver("probes", text).splitlines()
    fails: list[dict] = []
    pos = 0
    dist: Counter = Counter()
    distinct = set()
    samples = []
    for (cfg, sched), res in zip(cases, results):
        k = len(res["hist"]) + 2
        fails += analyse(cfg, sched, res, out[pos:pos + k])
        if res.get("foreign"):
            fails.append({"property": "C12", "kind": "violation", "sig": "C12/context-shares-call-state",
                          "detail": f"concurrent calls through one AsyncPolicy.context(): while call {res['foreign'][0][0]} was "
                                    f"running, the operation of call {res['foreign'][0][1]} was invoked",
                          "replay": json.dumps({"cfg": cfg, "schedule": sched})})
        dist["shared_context" if cfg.get("shared_context") else "direct"] += 1
        end = out[pos + k - 1]
        pos += k
        dist["maxProbes=" + end.split()[1].split("=")[1]] += 1
        for h in res["hist"]:
            dist[h[0] + ":" + (str(h[3]) if h[0] == "call" else h[2].split(":")[0])] += 1
        for how in res["state"].values():
            dist["end:" + how] += 1
        if len(res["hist"]) >= 3:
            distinct.add(json.dumps([(h[0], h[1], h[3] if h[0] == "call" else h[2].split(":")[0]) for h in res["hist"]]))
        if len(samples) < 2:
            samples.append({"cfg": cfg, "schedule": sched, "history": res["hist"]})
    return {"family": "interleave", "evaluations": len(cases), "distinct_nontrivial": len(distinct),
            "rule": "one case = breaker configuration x random schedule of start/resume/advance steps over 2-4 "
                    "hand-driven AsyncPolicy.call/execute coroutines sharing one breaker; distinct = distinct "
                    "caller-labelled admission/settlement histories with >= 3 breaker interactions",
            "samples": samples, "distribution": dict(dist), "exhaustive": False, "failures": fails,
            "wall_s": round(wall() - t0, 2)}


if __name__ == "__main__":
    r = run(sys.argv[1] if len(sys.argv) > 1 else "quick", int(sys.argv[2]) if len(sys.argv) > 2 else 0)
    f = r.pop("failures")
    print(json.dumps(r, indent=1)[:3000])
    print("FAILURES", Counter(x["sig"] for x in f))
    for x in f[:3]:
        print(x["sig"], x["detail"], x["replay"])
