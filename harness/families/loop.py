"""Family `loop`: the retry loop and the policy wrapper, model vs implementation.

For every generated case the real library is driven by an on-demand oracle (harness/loopenv.py),
the recorded answers are replayed through the Lean model by the compiled driver, and
  * the two exchange logs, results, timelines and final component states are compared
    (per property: only the projection that property talks about), and
  * every Lean monitor `Cxx.ok` is evaluated on the IMPLEMENTATION's own log.
"""
from __future__ import annotations

import json
import random
import sys
from collections import Counter
from dataclasses import dataclass, field

from ..common import run_driver, wall
from ..loopenv import CLASSES, LoopCfg, run_case, CaseRun, StopDriver
from ..oracle import DfsOracle, Profile, RandomOracle, ReplayOracle, next_prefix
from ..loopenv import Ans

LOOP_PROPS = ["C01", "C02", "C03", "C04", "C05", "C07", "C08", "C09", "C10", "C11", "C12", "C13",
              "C14", "C15", "C16"]

# request kinds each property's correspondence is about (its projection of the exchange log)
PROJ = {
    "C01": {"op", "classify", "resultClassify"},
    "C02": {"op", "sleeper"},
    "C03": {"op", "sleeper", "budgetConsume", "abortIf", "sleepHandler", "strategy", "result"},
    "C04": {"op", "result:call"},
    "C05": {"strategy", "sleeper", "sleepHandler", "beforeSleep", "result"},
    "C07": {"breakerAllow", "op", "result"},
    "C08": {"breakerAllow", "breakerSuccess", "breakerFailure", "breakerCancel"},
    "C09": {"breakerAllow", "breakerSuccess", "breakerFailure", "breakerCancel", "result"},
    "C10": {"budgetConsume", "state"},
    "C11": {"op", "result:execute"},
    "C12": {"op", "strategy", "sleeper", "sleepHandler", "beforeSleep", "metric", "log", "budgetConsume",
            "breakerAllow", "breakerSuccess", "breakerFailure", "breakerCancel", "abortIf",
            "resultClassify", "stratRecordFailure", "stratRecordSuccess", "result", "timeline"},
    "C13": {"abortIf", "op", "sleeper", "result"},
    "C14": {"metric", "log", "timeline", "result"},
    "C15": {"op", "sleeper", "budgetConsume", "breakerAllow", "breakerSuccess", "breakerFailure",
            "breakerCancel", "result"},
    "C16": {"sleepHandler", "beforeSleep", "sleeper", "op", "result"},
}


# --------------------------------------------------------------------------- generation

def _spec(rng: random.Random, kind: str) -> str:
    """a strategy callable: the plain `(ctx)` / `(attempt, klass, prev_sleep_s)` signature, or the same
    required parameters with defaulted extras, `*args`, defaulted kw-only parameters, `**kwargs`
    (`_normalize_strategy` must decide from the REQUIRED parameters only; the model decides with
    `normalizeSig`)"""
    if rng.random() < 0.7:
        return kind
    req = 1 if kind == "ctx" else 3
    return (f"sig={req}.{rng.choice([0, 1, 2, 2, 3])}.{int(rng.random() < 0.25)}.0."
            f"{rng.choice([0, 0, 1])}.{int(rng.random() < 0.25)}")


def gen_cfg(rng: random.Random, focus: str | None = None) -> tuple[LoopCfg, Profile]:
    c = LoopCfg()
    prof = Profile()
    c.max_attempts = rng.choice([0, 1, 1, 2, 2, 3, 3, 3, 4, 5])
    c.deadline = rng.choice([0, 1, 5, 20, 20, 60, 60, 200, 1000])
    c.max_unknown = rng.choice([None, 0, 1, 2, 2, 3])
    for k in CLASSES:
        if rng.random() < 0.2:
            c.per_class[k] = rng.choice([0, 1, 1, 2, 3])
    c.strat_default = rng.choice([_spec(rng, "ctx"), _spec(rng, "ctx"), _spec(rng, "legacy"), None])
    for k in CLASSES:
        if rng.random() < (0.25 if c.strat_default else 0.6):
            c.strat_for[k] = _spec(rng, rng.choice(["ctx", "legacy"]))
    keys = (["default"] if c.strat_default else []) + [f"cls:{k}" for k in c.strat_for]
    c.strat_records = [k for k in keys if rng.random() < 0.25]
    if rng.random() < 0.4:
        mx, win = rng.choice([0, 1, 1, 2, 3]), rng.choice([1, 5, 30, 100])
        c.budget = (mx, win)
    c.operation = rng.choice([None, None, "", "fetch", "op_x"])
    flags = set()
    for f, p in [("result_classifier", 0.4), ("p_handler", 0.2), ("p_before_sleep", 0.25),
                 ("p_sleeper", 0.35), ("p_attempt_start", 0.15), ("p_attempt_end", 0.2),
                 ("metric", 0.7), ("log", 0.5), ("abort_if", 0.5), ("c_handler", 0.3),
                 ("c_before_sleep", 0.25), ("c_sleeper", 0.5), ("c_attempt_start", 0.15),
                 ("c_attempt_end", 0.2), ("timeline", 0.3), ("async", 0.4)]:
        if rng.random() < p:
            flags.add(f)
    c.kind = rng.choice(["Retry", "Retry", "Policy", "Policy", "Policy", "RetryPolicy", "decorator"])
    if c.kind == "Policy":
        if rng.random() < 0.15:
            flags.add("no_retry")
        if rng.random() < 0.75:
            trip = [k for k in CLASSES if rng.random() < 0.4]
            cls = {k: rng.choice([1, 2]) for k in CLASSES if rng.random() < 0.15}
            c.breaker = {"threshold": rng.choice([1, 1, 2, 3]), "window": rng.choice([1, 10, 100]),
                         "recovery": rng.choice([1, 5, 50]), "trip": trip, "cls": cls}
    if c.kind in ("RetryPolicy", "decorator"):
        flags -= {"p_attempt_start", "p_attempt_end"}
    if c.kind == "decorator":
        flags -= {"c_handler", "c_before_sleep", "c_sleeper", "timeline"}
        if not c.operation:
            c.operation = "fn"
    if "no_retry" in flags:
        flags -= {"timeline"}
    c.flags = flags
    c.via_context = c.kind != "decorator" and rng.random() < 0.2
    c.init_now = rng.choice([0, 0, 7, 1000])
    # class weights aimed at the configured caps
    w = {k: 1.0 for k in CLASSES}
    for k in ("PERMANENT", "AUTH", "PERMISSION"):
        w[k] = 0.25
    hot = rng.sample(CLASSES, 2)
    for k in hot:
        w[k] += 4.0
    if c.per_class:
        for k in c.per_class:
            w[k] += 2.0
    w["UNKNOWN"] += 1.5
    prof.class_weights = w
    prof.p_success = rng.choice([0.05, 0.2, 0.35])
    prof.faults = rng.choice(["none", "none", "hooks", "all"])
    prof.quiet = rng.random() < 0.6
    prof.honest_sleeper = rng.random() < 0.6
    prof.p_abort = rng.choice([0.0, 0.03, 0.1])
    return c, prof


def gen_init_components(rng: random.Random, c: LoopCfg) -> None:
    if c.budget is not None:
        mx, win = c.budget
        n = rng.choice([0, 0, max(mx - 1, 0), mx, mx])
        # grants at assorted ages, including exactly on the window boundary
        ages = sorted((rng.choice([0, 1, win - 1, win, win + 1, win // 2]) for _ in range(n)), reverse=True)
        c.init_budget = [max(c.init_now - a, 0) for a in ages]
        c.init_budget.sort()
    if c.breaker is not None and rng.random() < 0.5:
        b = c.breaker
        st = rng.choice(["closed", "closed", "open", "half_open"])
        ib: dict = {"state": st, "opened_at": None, "probe": False, "failures": [], "class_failures": {}}
        if st == "closed":
            n = rng.choice([0, max(b["threshold"] - 1, 0)])
            ib["failures"] = sorted(max(c.init_now - rng.choice([0, 1, b["window"] - 1, b["window"]]), 0)
                                    for _ in range(n))
        elif st == "open":
            age = rng.choice([0, b["recovery"] - 1, b["recovery"], b["recovery"] + 1])
            ib["opened_at"] = max(c.init_now - max(age, 0), 0)
        else:
            ib["opened_at"] = max(c.init_now - b["recovery"], 0)
            ib["probe"] = rng.random() < 0.5
        c.init_breaker = ib


def gen_script(rng: random.Random, c: LoopCfg) -> list:
    n = rng.choice([1, 1, 1, 2, 3])
    script: list = []
    for i in range(n):
        if i > 0 and rng.random() < 0.6:
            base = 5
            if c.breaker is not None:
                base = c.breaker["recovery"]
            elif c.budget is not None:
                base = c.budget[1]
            script.append(("advance", rng.choice([0, 1, max(base - 1, 0), base, base + 1])))
        which = "call" if c.kind == "decorator" else rng.choice(["call", "execute"])
        script.append((which,))
    return script


# --------------------------------------------------------------------------- comparison

def parse_driver_output(out: str) -> dict[str, dict]:
    cases: dict[str, dict] = {}
    cur = None
    for line in out.splitlines():
        if line.startswith("case "):
            cur = {"m": [], "mr": {}, "mtl": [], "mon": [], "mstate": None, "bad": None}
            cases[line.split()[1]] = cur
        elif cur is None:
            continue
        elif line.startswith("m "):
            _, k, rest = line.split(" ", 2)
            cur["m"].append((int(k), rest))
        elif line.startswith("mr "):
            _, k, rest = line.split(" ", 2)
            cur["mr"][int(k)] = rest
        elif line.startswith("mtl "):
            _, k, rest = line.split(" ", 2)
            cur["mtl"].append((int(k), rest))
        elif line.startswith("mon "):
            t = line.split()
            cur["mon"].append({"pid": t[1], "name": t[2], "k": int(t[3]),
                               "model": t[4].split("=")[1], "impl": t[5].split("=")[1]})
        elif line.startswith("mstate "):
            cur["mstate"] = line[len("mstate "):]
        elif line.startswith("bad "):
            cur["bad"] = line
    return cases


def kind_of(req_line: str) -> str:
    return req_line.split(" ", 1)[0]


@dataclass
class CaseVerdict:
    agree: bool
    first_div: str | None = None
    div_kinds: set = field(default_factory=set)       # request kinds / "result" / "timeline" / "state"
    monitor_fail: list = field(default_factory=list)  # (pid, name, step)
    model_monitor_fail: list = field(default_factory=list)


def compare(cr: CaseRun, d: dict) -> CaseVerdict:
    v = CaseVerdict(agree=True)
    if d.get("bad"):
        v.agree = False
        v.first_div = d["bad"]
        v.div_kinds.add("protocol")
    nsteps = len(cr.steps)
    for k in range(nsteps):
        impl = [f"{req} => {ans}" for (s, req, ans) in cr.exchanges if s == k]
        model = [line for (s, line) in d["m"] if s == k]
        if impl != model:
            v.agree = False
            # which request kinds differ between the two logs (projection-wise)
            kinds = {kind_of(x) for x in impl} | {kind_of(x) for x in model}
            for kd in kinds:
                if [x for x in impl if kind_of(x) == kd] != [x for x in model if kind_of(x) == kd]:
                    v.div_kinds.add(kd)
            if v.first_div is None:
                for i in range(max(len(impl), len(model))):
                    a = impl[i] if i < len(impl) else "<end>"
                    b = model[i] if i < len(model) else "<end>"
                    if a != b:
                        v.first_div = f"step {k} exchange {i}: impl `{a}` vs model `{b}`"
                        break
        ir, mr = cr.steps[k].res, d["mr"].get(k)
        if ir != mr:
            v.agree = False
            v.div_kinds.add("result")
            v.div_kinds.add("result:execute" if cr.steps[k].entry.endswith("execute") else "result:call")
            if v.first_div is None:
                v.first_div = f"step {k} result: impl `{ir}` vs model `{mr}`"
        itl, mtl = cr.steps[k].tl, [line for (s, line) in d["mtl"] if s == k]
        if itl != mtl:
            v.agree = False
            v.div_kinds.add("timeline")
            if v.first_div is None:
                v.first_div = f"step {k} timeline: impl {itl} vs model {mtl}"
        if cr.steps[k].notes.get("tb_ok") is False:
            v.monitor_fail.append(("C04", "traceback", k))
    ms = d.get("mstate") or ""
    ms_core = " ".join(t for t in ms.split() if not t.startswith("unused="))
    if ms_core != cr.final_state:
        v.agree = False
        v.div_kinds.add("state")
        if v.first_div is None:
            v.first_div = f"final state: impl `{cr.final_state}` vs model `{ms_core}`"
    if "unused=0" not in ms.split():
        v.agree = False
        v.div_kinds.add("protocol")
        if v.first_div is None:
            v.first_div = f"model left answers unused: {ms}"
    for m in d["mon"]:
        if m["impl"] == "0":
            v.monitor_fail.append((m["pid"], m["name"], m["k"]))
        if m["model"] == "0":
            v.model_monitor_fail.append((m["pid"], m["name"], m["k"]))
    return v


def touches(pid: str, v: CaseVerdict) -> bool:
    """does the divergence lie inside property `pid`'s projection?"""
    proj = PROJ.get(pid, set())
    if "protocol" in v.div_kinds:
        return True
    return bool(proj & v.div_kinds)


# --------------------------------------------------------------------------- signatures / stats

def trace_signature(cr: CaseRun) -> str:
    """canonical shape of a run: entry points + request kinds + result kinds (no ids/durations)"""
    parts = []
    for k, st in enumerate(cr.steps):
        kinds = [kind_of(req) + ("!" if ans.startswith("raise") else "")
                 for (s, req, ans) in cr.exchanges if s == k]
        parts.append(st.entry + ":" + ",".join(kinds) + ">" + " ".join(st.res.split()[:4]))
    return "|".join(parts)


def nontrivial(cr: CaseRun) -> bool:
    """at least one failed attempt somewhere in the case"""
    return any(req.startswith("op ") and ans.startswith("raise") or req.startswith("resultClassify") and ans.startswith("klass")
               for (_, req, ans) in cr.exchanges)


def stop_reason_of(res: str) -> str:
    t = res.split()
    if t[0] == "outcome":
        return "ok" if t[1] == "1" else t[3]
    if t[0] == "ret":
        return "ret"
    tok = t[1]
    if tok.startswith("libExhausted"):
        return "exh:" + tok.split(":")[1]
    return "raise:" + tok.split(":")[0]


# --------------------------------------------------------------------------- shrinking

def replay_case(case_id: str, cfg: LoopCfg, script: list, answers: list[str], wall_seed: int,
                deliver_throw: bool) -> CaseRun | None:
    try:
        return run_case(case_id, cfg, script, ReplayOracle(answers), wall_seed, deliver_throw)
    except StopDriver:
        return None


def still_fails(cr: CaseRun | None, pred) -> bool:
    if cr is None:
        return False
    out = run_driver("loop", cr.text)
    d = parse_driver_output(out).get(cr.text.split()[1])
    if d is None:
        return False
    return pred(compare(cr, d))


def shrink(cr: CaseRun, answers: list[str], wall_seed: int, deliver_throw: bool, pred,
           budget: int = 60) -> tuple[CaseRun, list[str]]:
    """Greedy: shorter script, raises -> returns, zero durations; keep while `pred` still holds."""
    best, best_ans = cr, answers
    tries = 0
    # drop trailing steps
    script = list(cr.script)
    while len(script) > 1 and tries < budget:
        tries += 1
        cand = script[:-1]
        c2 = replay_case("shrunk", cr.cfg, cand, best_ans, wall_seed, deliver_throw)
        if c2 is not None and still_fails(c2, pred):
            script, best = cand, c2
        else:
            break
    # simplify answers one at a time
    i = 0
    while i < len(best_ans) and tries < budget:
        a = best_ans[i].split()
        cands = []
        if a[-1] != "0":
            cands.append(" ".join(a[:-1] + ["0"]))
        if a[0] == "raise" and not a[1].startswith("ordinary"):
            cands.append(f"raise ordinary:900{i}:UNKNOWN {a[-1]}")
        for cnd in cands:
            tries += 1
            trial = best_ans[:i] + [cnd] + best_ans[i + 1:]
            c2 = replay_case("shrunk", cr.cfg, script, trial, wall_seed, deliver_throw)
            if c2 is not None and still_fails(c2, pred):
                best, best_ans = c2, trial
                break
        i += 1
    return best, best_ans


# --------------------------------------------------------------------------- C15: silent-hook twin

HOOK_KINDS = ("metric", "log", "beforeSleep")
EXC_KINDS = ("ordinary", "abort", "exhausted", "circuitOpen")     # subclasses of Exception


_last_twin: CaseRun | None = None


def hook_fault_positions(cr: CaseRun) -> list[int]:
    """indices (into the oracle answer list) of hook answers that raise an Exception subclass"""
    pos, i = [], 0
    for (_, req, ans) in cr.exchanges:
        if kind_of(req) in ("budgetConsume", "breakerAllow", "breakerSuccess", "breakerFailure", "breakerCancel"):
            continue                      # component interactions consume no oracle answer
        if kind_of(req) in HOOK_KINDS and ans.startswith("raise ") and ans.split()[1].split(":")[0] in EXC_KINDS:
            pos.append(i)
        i += 1
    return pos


def silent_twin(cr: CaseRun, answers: list[str], meta: dict) -> dict | None:
    """Re-run the case on the SAME answers with silent hooks (every Exception raised by an observability
    hook becomes a normal return of the same duration — `World.silent` / `Ans.silenced` in the model);
    the run must be identical up to those answers (C15; theorem hooks_cannot_alter_control_flow).
    The twin run is kept in `_last_twin` so that the caller can also put it through the model."""
    global _last_twin
    _last_twin = None
    pos = hook_fault_positions(cr)
    if not pos:
        return None
    import copy
    tcfg = copy.copy(cr.cfg)
    tcfg.silent_hooks = True
    twin = replay_case(cr.text.split()[1] + "_twin", tcfg, cr.script, answers, meta["wall_seed"],
                       meta["deliver_throw"])
    if twin is None:
        return {"sig": "C15/twin-consumes-more-answers", "detail": "silent-hook twin ran out of answers"}
    _last_twin = twin
    a = [(s, r, x) for (s, r, x) in cr.exchanges]
    b = [(s, r, x) for (s, r, x) in twin.exchanges]
    if len(a) != len(b):
        return {"sig": "C15/different-exchanges", "detail": f"{len(a)} exchanges with faulty hooks, {len(b)} with silent hooks"}
    for (x, y) in zip(a, b):
        if x[:2] != y[:2] or (x[2] != y[2] and not (kind_of(x[1]) in HOOK_KINDS and x[2].startswith("raise"))):
            return {"sig": f"C15/diverges-at/{kind_of(x[1])}", "detail": f"faulty: `{x[1]} => {x[2]}`  silent: `{y[1]} => {y[2]}`"}
    ra, rb = [s.res for s in cr.steps], [s.res for s in twin.steps]
    if ra != rb:
        return {"sig": "C15/different-result", "detail": f"faulty hooks: {ra}  silent hooks: {rb}"}
    if cr.final_state != twin.final_state:
        return {"sig": "C15/different-component-state", "detail": f"{cr.final_state} vs {twin.final_state}"}
    return {}


# --------------------------------------------------------------------------- main entry

@dataclass
class LoopResult:
    evaluations: int = 0
    steps: int = 0
    distinct: set = field(default_factory=set)
    samples: list = field(default_factory=list)
    dist: dict = field(default_factory=dict)
    failures: list = field(default_factory=list)
    exhaustive: bool = False
    dfs_runs: int = 0


def run_batch(cases: list[tuple[CaseRun, dict]], res: LoopResult, counters: dict, want_props: list[str]) -> None:
    """cases: (CaseRun, meta) — pipe through the driver in one go and judge each."""
    text = "".join(cr.text for cr, _ in cases)
    out = run_driver("loop", text)
    parsed = parse_driver_output(out)
    for cr, meta in cases:
        cid = cr.text.split()[1]
        d = parsed.get(cid)
        res.evaluations += 1
        res.steps += len(cr.steps)
        if d is None:
            res.failures.append({"property": "*", "kind": "divergence", "sig": "driver/no-output",
                                 "detail": f"driver produced no block for {cid}", "replay": cr.text})
            continue
        v = compare(cr, d)
        if nontrivial(cr):
            res.distinct.add(trace_signature(cr))
        for st in cr.steps:
            counters["entry"][st.entry] += 1
            counters["stop"][stop_reason_of(st.res)] += 1
        counters["kind"][cr.cfg.kind + ("/async" if cr.cfg.has("async") else "")] += 1
        for (_, req, ans) in cr.exchanges:
            counters["req"][kind_of(req)] += 1
            if ans.startswith("raise"):
                counters["raise_at"][kind_of(req) + ":" + ans.split()[1].split(":")[0]] += 1
            rk = kind_of(req)
            if rk == "strategy" and ans.startswith("delay"):
                rt, tok = req.split(), ans.split()[1]
                rem = rt[7] if rt[2] == "ctx" else "*"
                if tok in ("nan", "inf", "-inf"):
                    counters["boundary"]["strategy=" + tok] += 1
                elif rem != "*":
                    d, r = int(tok), int(rem)
                    counters["boundary"]["strategy " + ("<0" if d < 0 else "=0" if d == 0 else "<remaining" if d < r
                                                         else "=remaining" if d == r else ">remaining")] += 1
            elif rk == "sleeper" and ans.startswith("unit"):
                d, dur = int(req.split()[2]), int(ans.split()[1])
                counters["boundary"]["sleeper " + ("returns early" if dur < d else "exact" if dur == d else "overshoots")] += 1
            elif rk == "budgetConsume":
                counters["boundary"]["budget " + ("granted" if ans.endswith("1") else "refused")] += 1
            elif rk == "breakerAllow":
                counters["boundary"]["breaker " + " ".join(ans.split()[1:3])] += 1
        if len(res.samples) < 3 and nontrivial(cr):
            res.samples.append({"cfg": cr.cfg.cfg_line(), "script": [list(s) for s in cr.script],
                                "exchanges": [f"{r} => {a}" for (_, r, a) in cr.exchanges][:40],
                                "results": [s.res for s in cr.steps]})
        if cr.post_probe is not None:
            counters["boundary"]["post-call probe " + cr.post_probe.split(":")[0]] += 1
            if cr.post_probe != "admitted":
                res.failures.append({"property": "C08", "kind": "violation", "sig": "C08/phantom-probe/" + cr.post_probe,
                                     "detail": "no call is outstanding, recovery_timeout_s has elapsed, yet the next "
                                               "call is not admitted: " + cr.post_probe + "; breaker " + cr.final_state,
                                     "replay": cr.text, "meta": meta})
        if v.model_monitor_fail:
            # the model itself violates a monitor: a theorem is false or the monitor is wrong
            for (pid, name, k) in v.model_monitor_fail:
                res.failures.append({"property": pid, "kind": "model-monitor", "sig": f"{pid}/{name}/model",
                                     "detail": f"monitor {name} false on the MODEL's own run (step {k})",
                                     "replay": cr.text})
        if v.monitor_fail:
            for (pid, name, k) in v.monitor_fail:
                res.failures.append({"property": pid, "kind": "violation",
                                     "sig": f"{pid}/{name}/{cr.steps[k].entry}/{stop_reason_of(cr.steps[k].res)}",
                                     "detail": f"monitor {name} is false on the implementation's run (step {k}); "
                                               f"first divergence: {v.first_div}",
                                     "replay": cr.text, "meta": meta})
        if not v.agree:
            res.failures.append({"property": "*", "kind": "divergence",
                                 "sig": "loop/" + ",".join(sorted(v.div_kinds)),
                                 "div_kinds": sorted(v.div_kinds),
                                 "detail": v.first_div or "?", "replay": cr.text, "meta": meta})


# --------------------------------------------------------------------------- small-scope exhaustive DFS

def dfs_alphabet(kind: str, info: dict, o) -> list:
    rem = max(info.get("remaining", 0), 0)
    if kind == "abortIf":
        return [Ans("bool", False, dur=0), Ans("bool", True, dur=0)]
    if kind == "op":
        return [lambda: Ans("raise", f"ordinary:{o.fresh()}:UNKNOWN", dur=0),
                lambda: Ans("value", o.fresh(), dur=0),
                lambda: Ans("raise", f"ordinary:{o.fresh()}:UNKNOWN", dur=rem + 1),
                Ans("raise", "cancelled", dur=0)]
    if kind == "classify":
        return [Ans("klass", "TRANSIENT", None, dur=0), Ans("klass", "UNKNOWN", None, dur=0),
                Ans("klass", "PERMANENT", None, dur=0)]
    if kind == "resultClassify":
        return [Ans("noFailure", dur=0), Ans("klass", "TRANSIENT", None, dur=0)]
    if kind == "strategy":
        r = info.get("remaining_s", rem)
        return [Ans("delay", "1", dur=0), Ans("delay", "nan", dur=0), Ans("delay", str(r + 1), dur=0)]
    if kind == "sleepHandler":
        return [Ans("decision", "sleep", dur=0), Ans("decision", "defer", dur=0), Ans("decision", "abort", dur=0)]
    if kind == "sleeper":
        d = info.get("d", 0)
        return [Ans("unit", dur=d), Ans("unit", dur=d + 100)]
    if kind in ("metric", "log", "beforeSleep"):
        return [Ans("unit", dur=0), lambda: Ans("raise", f"ordinary:{o.fresh()}:UNKNOWN", dur=0)] if info.get("hook_faults") else [Ans("unit", dur=0)]
    return [Ans("unit", dur=0)]


def dfs_configs() -> list[tuple[str, LoopCfg, list]]:
    out = []

    def mk(name, **kw):
        c = LoopCfg()
        c.max_attempts = kw.pop("max_attempts", 2)
        c.deadline = kw.pop("deadline", 10)
        c.max_unknown = kw.pop("max_unknown", 1)
        c.per_class = kw.pop("per_class", {})
        c.strat_default = kw.pop("strat_default", "ctx")
        c.budget = kw.pop("budget", None)
        c.breaker = kw.pop("breaker", None)
        c.flags = set(kw.pop("flags", []))
        c.kind = kw.pop("kind", "Retry")
        c.operation = "op"
        script = kw.pop("script", [("call",)])
        out.append((name, c, script))

    mk("retry-call-abort", flags=["abort_if", "metric"])
    mk("retry-exec-abort", flags=["abort_if", "metric"], script=[("execute",)])
    mk("retry-call-handler", flags=["c_handler", "metric", "c_sleeper"], max_attempts=3)
    mk("retry-exec-handler-result", flags=["c_handler", "log", "result_classifier", "timeline"], script=[("execute",)])
    mk("retry-call-budget", flags=["metric", "result_classifier"], budget=(1, 5), max_attempts=3, per_class={"TRANSIENT": 1})
    mk("policy-call-breaker", kind="Policy", flags=["metric"],
       breaker={"threshold": 1, "window": 10, "recovery": 5, "trip": ["TRANSIENT", "UNKNOWN"], "cls": {}},
       script=[("call",), ("advance", 5), ("call",)])
    mk("policy-exec-breaker-async", kind="Policy", flags=["log", "async", "abort_if"],
       breaker={"threshold": 1, "window": 10, "recovery": 5, "trip": ["UNKNOWN"], "cls": {}},
       script=[("execute",), ("advance", 5), ("execute",)])
    mk("policy-noretry", kind="Policy", flags=["no_retry", "metric", "c_attempt_end", "abort_if"],
       breaker={"threshold": 1, "window": 10, "recovery": 5, "trip": ["UNKNOWN"], "cls": {}},
       script=[("call",), ("advance", 5), ("execute",)])
    mk("retry-call-hookfaults", flags=["metric", "log", "p_before_sleep"], max_attempts=2)
    return out


def run_dfs(res: LoopResult, counters: dict, max_runs_per_cfg: int) -> dict:
    """Enumerate ALL oracle choice sequences over the reduced alphabet for a few small configurations."""
    report = {}
    for name, cfg, script in dfs_configs():
        prefix: list[int] | None = []
        n = 0
        batch: list = []
        complete = True
        while prefix is not None:
            o = DfsOracle(prefix, dfs_alphabet)
            o_choose = o.choose

            def choose(kind, info, _c=o_choose, _n=name):
                info["hook_faults"] = _n.endswith("hookfaults")
                return _c(kind, info)
            o.choose = choose  # type: ignore[method-assign]
            cr = run_case(f"dfs_{name}_{n}", cfg, script, o, 0, cfg.has("async"))
            batch.append((cr, {"wall_seed": 0, "deliver_throw": cfg.has("async"), "dfs": name}))
            n += 1
            if len(batch) >= 500:
                run_batch(batch, res, counters, LOOP_PROPS)
                batch = []
            prefix = next_prefix(o.path)
            if n >= max_runs_per_cfg:
                complete = prefix is None
                break
        if batch:
            run_batch(batch, res, counters, LOOP_PROPS)
        report[name] = {"runs": n, "complete": complete}
    return report


def run(tier: str, seed: int, props: list[str] | None = None, n_cases: int | None = None, scale: float = 1.0) -> dict:
    t0 = wall()
    rng = random.Random(seed * 7919 + 11)
    res = LoopResult()
    counters = {k: Counter() for k in ("entry", "stop", "kind", "req", "raise_at", "twin", "boundary")}
    n = n_cases if n_cases is not None else int((20000 if tier == "quick" else 250000) * min(scale, 2.0))
    batch: list = []
    for i in range(n):
        cfg, prof = gen_cfg(rng)
        gen_init_components(rng, cfg)
        script = gen_script(rng, cfg)
        oracle = RandomOracle(random.Random(rng.getrandbits(48)), prof)
        wall_seed = rng.getrandbits(32)
        deliver_throw = cfg.has("async") and rng.random() < 0.5
        oracle_info = {"result_classifier": cfg.has("result_classifier")}
        _orig = oracle.choose

        def choose(kind, info, _o=_orig, _x=oracle_info):
            info.update(_x)
            return _o(kind, info)
        oracle.choose = choose  # type: ignore[method-assign]
        cr = run_case(f"s{seed}_{i}", cfg, script, oracle, wall_seed, deliver_throw)
        meta = {"wall_seed": wall_seed, "deliver_throw": deliver_throw}
        batch.append((cr, meta))
        answers = [ln[2:] for ln in cr.text.splitlines() if ln.startswith("a ")]
        tw = silent_twin(cr, answers, meta)
        if tw is not None:
            counters["twin"]["compared"] += 1
            if _last_twin is not None:
                batch.append((_last_twin, meta))     # model with `silent := true` vs implementation with silent hooks
            if tw:
                res.failures.append({"property": "C15", "kind": "violation", "sig": tw["sig"],
                                     "detail": "run with faulty hooks differs from the run with silent hooks: "
                                               + tw["detail"], "replay": cr.text, "meta": meta})
        if len(batch) >= 400:
            run_batch(batch, res, counters, props or LOOP_PROPS)
            batch = []
    if batch:
        run_batch(batch, res, counters, props or LOOP_PROPS)
    dfs_report = {}
    if (tier == "thorough" or scale > 1.0) and n_cases is None:
        dfs_report = run_dfs(res, counters, max_runs_per_cfg=60000)
    return {
        "family": "loop",
        "dfs": dfs_report,
        "evaluations": res.evaluations,
        "calls": res.steps,
        "distinct_nontrivial": len(res.distinct),
        "rule": "one case = random configuration x script of 1-3 calls on one policy object x on-demand "
                "boundary-biased oracle answers; distinct = distinct (entry points, sequence of request "
                "kinds with raise marks, result shape) signatures; non-trivial = at least one failed attempt",
        "samples": res.samples,
        "distribution": {k: dict(v.most_common(40)) for k, v in counters.items()},
        "exhaustive": bool(dfs_report) and all(v["complete"] for v in dfs_report.values()),
        "failures": res.failures,
        "wall_s": round(wall() - t0, 2),
    }


if __name__ == "__main__":
    tier = sys.argv[1] if len(sys.argv) > 1 else "quick"
    seed = int(sys.argv[2]) if len(sys.argv) > 2 else 0
    n = int(sys.argv[3]) if len(sys.argv) > 3 else None
    r = run(tier, seed, n_cases=n)
    fails = r.pop("failures")
    print(json.dumps(r, indent=1)[:6000])
    print("FAILURES:", len(fails))
    seen = Counter(f["sig"] for f in fails)
    print(seen.most_common(30))
    for f in fails[:3]:
        print("-----", f["property"], f["kind"], f["sig"])
        print(f["detail"])
        print(f["replay"][:3000])
